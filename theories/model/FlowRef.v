(* C19: structured programs, their layout as a code stream (compile) and their reference semantics (exec).

   A structured program is a tree: loops own their bodies, IF owns its two branches, subroutines are named
   blocks.  `compile_prog` lays the tree out as the flat code stream that model/Flow.v executes (the BASIC
   text of the program, statement by statement).  `exec` is the reference semantics: it has no program
   counter and no FOR/WHILE/GOSUB stacks - a loop is a recursion that runs its body once per pass, a GOSUB
   is a call of the subroutine's block.  It is cost-annotated: `fuel` counts statement executions exactly
   as the machine does (so that the refinement theorem is an equality for every fuel, terminating or not);
   `gas` only bounds the recursion depth of this definition and never runs out before fuel (gas >= fuel).
   No proofs in this file. *)
From Coq Require Import ZArith List Bool.
From PCB Require Import gen.Gen_flow model.Flow.
Import ListNotations.
Open Scope Z_scope.

Inductive sstmt :=
| TLine (n : Z)                                              (* a new program line starts here *)
| TPrint (e : expr)
| TLet (v : var) (e : expr)
| TFor (v : var) (a b s : expr) (named : bool) (body : list sstmt)   (* FOR..: body : NEXT [v] *)
| TWhile (c : expr) (body : list sstmt)                      (* WHILE c : body : WEND *)
| TIf (c : expr) (th el : list sstmt) (n : Z)                (* IF c THEN th ELSE el <end of line> n ... *)
| TGosub (n : Z)
| TOnGosub (e : expr) (ns : list Z).

Record sprog := { p_main : list sstmt; p_subs : list (Z * list sstmt) }.

(* ------------------------------------------------------------------ layout *)

Fixpoint cstmt (s : sstmt) : list stmt :=
  let cblock := fix cblock (b : list sstmt) : list stmt :=
    match b with [] => [] | s :: r => cstmt s ++ cblock r end in
  match s with
  | TLine n => [SLine n]
  | TPrint e => [SPrint e]
  | TLet v e => [SLet v e]
  | TFor v a b s named body => SFor v a b s :: cblock body ++ [SNext (if named then [v] else [])]
  | TWhile c body => SWhile c :: cblock body ++ [SWend]
  | TIf c th el n => SIf c None :: cblock th ++ SElse None :: cblock el ++ [SLine n]
  | TGosub n => [SGosub n]
  | TOnGosub e ns => [SOn e true ns]
  end.

Fixpoint cblock (b : list sstmt) : list stmt :=
  match b with [] => [] | s :: r => cstmt s ++ cblock r end.

Definition csub (nb : Z * list sstmt) : list stmt :=
  SLine (fst nb) :: cblock (snd nb) ++ [SReturn None].

Fixpoint csubs (l : list (Z * list sstmt)) : list stmt :=
  match l with [] => [] | nb :: r => csub nb ++ csubs r end.

(* main block, END, the subroutines one after the other, end of program (no direct line: started by RUN) *)
Definition compile_prog (p : sprog) : list stmt :=
  cblock (p_main p) ++ SEnd :: csubs (p_subs p) ++ [SEndProg].

(* ------------------------------------------------------------------ reference semantics *)

Inductive bres :=
| BOk (fuel : nat) (d : dstate) (out : list Z)     (* block done: remaining fuel, data, output *)
| BStop (out : list Z) (o : outcome).              (* program over *)

Definition bout (t : list Z) (r : bres) : bres :=
  match r with
  | BOk f d t' => BOk f d (t ++ t')
  | BStop t' o => BStop (t ++ t') o
  end.

(* the program line a statement that follows the block is on *)
Fixpoint line_after_stmt (s : sstmt) (cur : Z) : Z :=
  let line_after := fix line_after (b : list sstmt) (cur : Z) : Z :=
    match b with [] => cur | s :: r => line_after r (line_after_stmt s cur) end in
  match s with
  | TLine n => n
  | TIf _ _ _ n => n
  | TFor _ _ _ _ _ body => line_after body cur
  | TWhile _ body => line_after body cur
  | _ => cur
  end.
Fixpoint line_after (b : list sstmt) (cur : Z) : Z :=
  match b with [] => cur | s :: r => line_after r (line_after_stmt s cur) end.

Fixpoint find_sub (subs : list (Z * list sstmt)) (n : Z) : option (list sstmt) :=
  match subs with
  | [] => None
  | (m, b) :: r => if m =? n then Some b else find_sub r n
  end.

(* an expression value, or the error that ends the program (no handler in structured programs) *)
Definition rval (d : dstate) (cur : Z) (e : expr) (k : Z -> bres) : bres :=
  match eval d e with
  | EV z => k z
  | EE c => BStop [] (Stopped c cur)
  | EU => BStop [] Unmodelled
  end.
Definition rint (d : dstate) (cur : Z) (e : expr) (k : Z -> bres) : bres :=
  rval d cur e (fun z => if in16 z then k z else BStop [] (Stopped flow_E_OVERFLOW cur)).

Definition d_setv (d : dstate) (v : var) (z : Z) : dstate := d_set_env d (setv (env d) v z).

(* one more statement execution (a NEXT, WEND, RETURN, ELSE or line header), then k *)
Definition tick (f : nat) (k : nat -> bres) : bres :=
  match f with O => BStop [] OutOfFuel | S f' => k f' end.

(* r, then k with what r left *)
Definition bseq (r : bres) (k : nat -> dstate -> bres) : bres :=
  match r with
  | BStop t o => BStop t o
  | BOk f d t => bout t (k f d)
  end.

(* has the counter value c passed the end vb in the direction of the step vs?  (a zero step counts as not
   negative, here and at the entry of the loop alike) *)
Definition passed_end (vs vb c : Z) : bool := if vs >=? 0 then c >? vb else vb >? c.

(* NEXT: add the step; has the counter passed the end in the direction of the step? *)
Definition for_next (v : var) (vb vs nline : Z) (d1 : dstate) (k_end k_loop : dstate -> bres) : bres :=
  let c := getv (env d1) v + vs in
  if negb (in16 c) then BStop [] (Stopped flow_E_OVERFLOW nline)
  else if passed_end vs vb c
       then k_end (d_setv d1 v c) else k_loop (d_setv d1 v c).

(* one pass of the body, NEXT, and again until the counter has passed the end
   (n only bounds the recursion; every pass uses fuel) *)
Fixpoint for_loop (body : nat -> dstate -> bres)
    (next : dstate -> (dstate -> bres) -> (dstate -> bres) -> bres)
    (cont : nat -> dstate -> bres) (n f1 : nat) (d1 : dstate) : bres :=
  match n with
  | O => BStop [] OutOfFuel
  | S n' =>
      bseq (body f1 d1) (fun f2 d2 =>
        tick f2 (fun f3 => next d2 (cont f3) (for_loop body next cont n' f3)))
  end.

(* test the condition; while it holds: one pass of the body, WEND, and again *)
Fixpoint while_loop (cond : dstate -> (Z -> bres) -> bres) (body : nat -> dstate -> bres)
    (cont : nat -> dstate -> bres) (n f1 : nat) (d1 : dstate) : bres :=
  match n with
  | O => BStop [] OutOfFuel
  | S n' =>
      cond d1 (fun z =>
        if z =? 0 then cont f1 d1
        else bseq (body f1 d1) (fun f2 d2 => tick f2 (fun f3 => while_loop cond body cont n' f3 d2)))
  end.

Section Exec.
Variable subs : list (Z * list sstmt).

Fixpoint exec (gas fuel : nat) (cur : Z) (b : list sstmt) (d : dstate) {struct gas} : bres :=
  match b with
  | [] => BOk fuel d []
  | s :: rest =>
    match gas, fuel with
    | O, _ => BStop [] OutOfFuel
    | _, O => BStop [] OutOfFuel
    | S g, S f =>
      (* go on with the statements after s *)
      let continue := fun (f' : nat) (d' : dstate) => exec g f' (line_after_stmt s cur) rest d' in
      (* GOSUB n: the line header of the subroutine, its block, RETURN *)
      let call := fun (n : Z) =>
        match find_sub subs n with
        | None => BStop [] (Stopped flow_E_UNDEFINED_LINE_NUMBER cur)
        | Some body =>
            tick f (fun f1 => bseq (exec g f1 n body d) (fun f2 d2 => tick f2 (fun f3 => continue f3 d2)))
        end in
      match s with
      | TLine _ => continue f d
      | TPrint e =>
          match soft_div d e with
          | Some neg => bout (soft_out neg) (continue f d)
          | None => rval d cur e (fun z => bout [z] (continue f d))
          end
      | TLet v e => rval d cur e (fun z =>
          if in16 z then continue f (d_setv d v z) else BStop [] (Stopped flow_E_OVERFLOW cur))
      | TFor v a b s named body =>
          rint d cur a (fun va => rint d cur b (fun vb => rint d cur s (fun vs =>
            let next := for_next v vb vs (line_after body cur) in
            let loop := for_loop (fun f1 d1 => exec g f1 cur body d1) next continue g in
            let d0 := d_setv d v va in
            if passed_end vs vb va
            then (* start already past the end: the body is skipped *)
              next d0 (continue f) (loop f)
            else loop f d0)))
      | TWhile c body =>
          while_loop (fun d1 => rval d1 cur c) (fun f1 d1 => exec g f1 cur body d1) continue g f d
      | TIf c th el n =>
          rval d cur c (fun z =>
            if negb (z =? 0)
            then bseq (exec g f cur th d) (fun f2 d2 => tick f2 (fun f3 => tick f3 (fun f4 => continue f4 d2)))
            else bseq (exec g f cur el d) (fun f2 d2 => tick f2 (fun f3 => continue f3 d2)))
      | TGosub n => call n
      | TOnGosub e ns =>
          rint d cur e (fun z =>
            if negb ((flow_on_lo <=? z) && (z <=? flow_on_hi))
            then BStop [] (Stopped flow_E_ILLEGAL_FUNCTION_CALL cur)
            else if (1 <=? z) && (z <=? Z.of_nat (length ns)) then call (nth (Z.to_nat (z - 1)) ns 0)
            else continue f d)
      end
    end
  end.

End Exec.

(* the whole program: main block, then END *)
Definition exec_prog (p : sprog) (fuel : nat) : list Z * outcome :=
  match exec (p_subs p) (S fuel) fuel 65535 (p_main p) init_ds with
  | BStop t o => (t, o)
  | BOk f _ t => (t, match f with O => OutOfFuel | S _ => Finished end)
  end.

(* ------------------------------------------------------------------ well-formed structured programs *)

(* statements allowed inside the branches of a one-line IF: nothing that ends the line *)
Fixpoint inline_stmt (s : sstmt) : bool :=
  let inline_block := fix inline_block (b : list sstmt) : bool :=
    match b with [] => true | s :: r => inline_stmt s && inline_block r end in
  match s with
  | TLine _ => false
  | TIf _ _ _ _ => false
  | TFor _ _ _ _ _ body => inline_block body
  | TWhile _ body => inline_block body
  | _ => true
  end.
Fixpoint inline_block (b : list sstmt) : bool :=
  match b with [] => true | s :: r => inline_stmt s && inline_block r end.

(* the line numbers a block introduces, and the GOSUB targets it uses *)
Fixpoint lines_stmt (s : sstmt) : list Z :=
  let lines_block := fix lines_block (b : list sstmt) : list Z :=
    match b with [] => [] | s :: r => lines_stmt s ++ lines_block r end in
  match s with
  | TLine n => [n]
  | TIf _ th el n => lines_block th ++ lines_block el ++ [n]
  | TFor _ _ _ _ _ body => lines_block body
  | TWhile _ body => lines_block body
  | _ => []
  end.
Fixpoint lines_block (b : list sstmt) : list Z :=
  match b with [] => [] | s :: r => lines_stmt s ++ lines_block r end.

Fixpoint ifs_ok_stmt (s : sstmt) : bool :=
  let ifs_ok_block := fix ifs_ok_block (b : list sstmt) : bool :=
    match b with [] => true | s :: r => ifs_ok_stmt s && ifs_ok_block r end in
  match s with
  | TIf _ th el _ => inline_block th && inline_block el
  | TFor _ _ _ _ _ body => ifs_ok_block body
  | TWhile _ body => ifs_ok_block body
  | _ => true
  end.
Fixpoint ifs_ok_block (b : list sstmt) : bool :=
  match b with [] => true | s :: r => ifs_ok_stmt s && ifs_ok_block r end.

Fixpoint targets_stmt (s : sstmt) : list Z :=
  let targets_block := fix targets_block (b : list sstmt) : list Z :=
    match b with [] => [] | s :: r => targets_stmt s ++ targets_block r end in
  match s with
  | TGosub n => [n]
  | TOnGosub _ ns => ns
  | TIf _ th el _ => targets_block th ++ targets_block el
  | TFor _ _ _ _ _ body => targets_block body
  | TWhile _ body => targets_block body
  | _ => []
  end.
Fixpoint targets_block (b : list sstmt) : list Z :=
  match b with [] => [] | s :: r => targets_stmt s ++ targets_block r end.

Definition all_lines (p : sprog) : list Z :=
  lines_block (p_main p) ++ flat_map (fun nb => fst nb :: lines_block (snd nb)) (p_subs p).
Definition all_blocks (p : sprog) : list (list sstmt) := p_main p :: map snd (p_subs p).

(* well formed: every line number is introduced once, IF branches stay on their line, every GOSUB target
   is a subroutine *)
Definition wf_prog (p : sprog) : Prop :=
  NoDup (all_lines p)
  /\ (forall b, In b (all_blocks p) -> ifs_ok_block b = true)
  /\ (forall b n, In b (all_blocks p) -> In n (targets_block b) -> find_sub (p_subs p) n <> None).
