(* C38 - executable model of BASIC event trapping (pcbasic/basic/basicevents.py, interpreter.py:
   handle_basic_events / jump_sub / return_ / trap_error / resume_ / set_pointer, eventcycle.py:_check_input).
   Definitions only; the proofs are in proofs/Events_proofs.v.

   Reading of the code that the model fixes:
   * an event is "ON or STOPped" iff its handler object is in BasicEvents.enabled (ON adds it and clears
     `stopped`, STOP only sets `stopped`, OFF removes it - except for COM, which OFF leaves in the set);
   * `Occur e` is the moment EventQueues._check_input calls e.check_input and that call triggers: this is
     only done for the handlers installed by Interpreter.parse / set_pointer(True), i.e. for the enabled
     ones while a statement loop is active (`listening`); set_pointer(False) uninstalls them;
   * for COM the `triggered` attribute is the level device.char_waiting(): `trig` of a COM event is that
     level, set by `Occur`, reset by `Consume` (the program reads the port), never by the interpreter;
   * `Boundary order` is Interpreter.handle_basic_events; the code iterates over the *set* `enabled`, so
     the iteration order is not fixed by the source: it is a parameter of the action. *)
From Coq Require Import ZArith List Bool.
Import ListNotations.

Inductive event := Key (n : nat) | Timer | Play | Pen | Strig (n : nat) | Com (n : nat).

Definition event_eqb (a b : event) : bool :=
  match a, b with
  | Key n, Key m => Nat.eqb n m
  | Timer, Timer => true
  | Play, Play => true
  | Pen, Pen => true
  | Strig n, Strig m => Nat.eqb n m
  | Com n, Com m => Nat.eqb n m
  | _, _ => false
  end.

Definition is_com (e : event) : bool := match e with Com _ => true | _ => false end.

(* EventHandler attributes + membership of BasicEvents.enabled *)
Record estate := mkE { enabled : bool; stopped : bool; trig : bool; gosub : option Z }.
Definition e_init := mkE false false false None.

Record state := mkS {
  ev : event -> estate;
  suspend_all : bool;                       (* BasicEvents.suspend_all *)
  run_mode : bool;                          (* Interpreter.run_mode *)
  listening : bool;                         (* EventQueues._basic_handlers installed from `enabled` *)
  error_handle_mode : bool;                 (* Interpreter.error_handle_mode *)
  on_error : bool;                          (* Interpreter.on_error not in (None, 0) *)
  error_resume : option bool;               (* run mode saved in Interpreter.error_resume *)
  gosub_stack : list (bool * option event)  (* head = top; (orig run mode, handler tag) *)
}.

Definition init : state := mkS (fun _ => e_init) false false false false false None [].

Definition upd (f : event -> estate) (e : event) (v : estate) : event -> estate :=
  fun x => if event_eqb x e then v else f x.

Definition with_ev (st : state) (f : event -> estate) : state :=
  mkS f (suspend_all st) (run_mode st) (listening st) (error_handle_mode st) (on_error st)
      (error_resume st) (gosub_stack st).
Definition with_stack (st : state) (k : list (bool * option event)) : state :=
  mkS (ev st) (suspend_all st) (run_mode st) (listening st) (error_handle_mode st) (on_error st)
      (error_resume st) k.
(* Interpreter.set_pointer(rm): run mode, and (un)installation of the event handlers *)
Definition set_pointer (st : state) (rm : bool) : state :=
  mkS (ev st) (suspend_all st) rm rm (error_handle_mode st) (on_error st) (error_resume st) (gosub_stack st).
Definition with_on_error (st : state) (b : bool) : state :=
  mkS (ev st) (suspend_all st) (run_mode st) (listening st) (error_handle_mode st) b
      (error_resume st) (gosub_stack st).

Definition set_enabled st e b := let s := ev st e in with_ev st (upd (ev st) e (mkE b (stopped s) (trig s) (gosub s))).
Definition set_stopped st e b := let s := ev st e in with_ev st (upd (ev st) e (mkE (enabled s) b (trig s) (gosub s))).
Definition set_trig st e b := let s := ev st e in with_ev st (upd (ev st) e (mkE (enabled s) (stopped s) b (gosub s))).
Definition set_gosub st e l := let s := ev st e in with_ev st (upd (ev st) e (mkE (enabled s) (stopped s) (trig s) l)).

Inductive action :=
| Occur (e : event)                 (* environment: check_input(e) triggers (COM: a character arrives) *)
| Consume (e : event)               (* environment/program: the COM input buffer is emptied *)
| On (e : event) | Off (e : event) | Stop (e : event)
| OnGosub (e : event) (line : option Z)     (* ON e GOSUB line; line 0 = None *)
| Install                           (* Interpreter.parse: set_basic_event_handlers(enabled) at each statement *)
| Boundary (order : list event)     (* Interpreter.handle_basic_events *)
| Gosub                             (* plain GOSUB *)
| Return | ReturnTo                 (* RETURN, RETURN n *)
| OnError (b : bool)                (* ON ERROR GOTO n / ON ERROR GOTO 0 *)
| ErrorTrap                         (* a BASIC error is raised: Interpreter.trap_error *)
| Resume | ResumeTo                 (* RESUME [NEXT], RESUME n *)
| EndProgram                        (* END *)
| Idle                              (* end of the direct line / Break: set_pointer(False) *)
| Start                             (* GOTO n / CONT: set_pointer(True) *)
| RunClear                          (* RUN [n], CHAIN: clear everything and start *)
| Clear                             (* CLEAR: Interpreter.clear - error trapping, events, GOSUB stack; keeps running *)
| New                               (* NEW (and storing a program line): everything cleared, not running *)
| Renum.                            (* RENUM: _clear_stacks (stops the program); trap lines are remapped *)

(* is check_input(e) called and does the trigger stick? *)
Definition accept (st : state) (e : event) : bool := listening st && enabled (ev st e).

(* Interpreter.trap_error *)
Definition raise_error (st : state) : state :=
  if on_error st && negb (error_handle_mode st) then
    mkS (ev st) true true true true (on_error st) (Some (run_mode st)) (gosub_stack st)
  else
    mkS (ev st) (suspend_all st) false false false (on_error st) (error_resume st) (gosub_stack st).

(* the test in handle_basic_events *)
Definition fires (st : state) (e : event) : bool :=
  let s := ev st e in
  enabled s && trig s && negb (stopped s) && match gosub s with Some _ => true | None => false end.

(* release trigger, stop the event, jump_sub(event.gosub, event) *)
Definition enter (st : state) (e : event) : state :=
  let s := ev st e in
  let f := upd (ev st) e (mkE (enabled s) true (if is_com e then trig s else false) (gosub s)) in
  mkS f (suspend_all st) true true (error_handle_mode st) (on_error st) (error_resume st)
      ((run_mode st, Some e) :: gosub_stack st).

Fixpoint handle (st : state) (order : list event) : state * list event :=
  match order with
  | [] => (st, [])
  | e :: r =>
      if fires st e then let (st', l) := handle (enter st e) r in (st', e :: l)
      else handle st r
  end.

Definition boundary (st : state) (order : list event) : state * list event :=
  if suspend_all st || negb (run_mode st) then (st, []) else handle st order.

Definition unstop (st : state) (tag : option event) : state :=
  match tag with Some e => set_stopped st e false | None => st end.

(* BasicEvents.reset (new handler objects; the COM level belongs to the device and survives) *)
Definition reset_events (st : state) : event -> estate :=
  fun e => if is_com e then mkE false false (trig (ev st e)) None else e_init.

(* one action: new state and the list of events whose handler was entered *)
Definition step (st : state) (a : action) : state * list event :=
  match a with
  | Occur e =>
      (if is_com e then set_trig st e true else if accept st e then set_trig st e true else st, [])
  | Consume e => (if is_com e then set_trig st e false else st, [])
  | On e => (set_stopped (set_enabled st e true) e false, [])
  | Off e => (if is_com e then st else set_enabled st e false, [])
  | Stop e => (set_stopped st e true, [])
  | OnGosub e l => (set_gosub st e l, [])
  | Install => (mkS (ev st) (suspend_all st) (run_mode st) true (error_handle_mode st) (on_error st)
                    (error_resume st) (gosub_stack st), [])
  | Boundary o => boundary st o
  | Gosub => (set_pointer (with_stack st ((run_mode st, None) :: gosub_stack st)) true, [])
  | Return =>
      (match gosub_stack st with
       | [] => raise_error st
       | (rm, tag) :: k => set_pointer (unstop (with_stack st k) tag) rm
       end, [])
  | ReturnTo =>
      (match gosub_stack st with
       | [] => raise_error st
       | (rm, tag) :: k => set_pointer (unstop (with_stack st k) tag) true
       end, [])
  | OnError b =>
      (if b then with_on_error st true
       else let st' := with_on_error st false in
            if error_handle_mode st then raise_error st' else st', [])
  | ErrorTrap => (raise_error st, [])
  | Resume =>
      (match error_resume st with
       | None => raise_error (with_on_error st false)
       | Some rm => mkS (ev st) false rm rm false (on_error st) None (gosub_stack st)
       end, [])
  | ResumeTo =>
      (match error_resume st with
       | None => raise_error (with_on_error st false)
       | Some rm => mkS (ev st) false true true false (on_error st) None (gosub_stack st)
       end, [])
  | EndProgram =>
      (mkS (ev st) (suspend_all st) false false false (on_error st) None (gosub_stack st), [])
  | Idle => (set_pointer st false, [])
  | Start => (set_pointer st true, [])
  | RunClear => (mkS (reset_events st) false true true false false None [], [])
  | Clear => (mkS (reset_events st) false (run_mode st) (listening st) false false None [], [])
  | New => (mkS (reset_events st) false false false false false None [], [])
  | Renum => (set_pointer (with_stack st []) false, [])
  end.

Definition next (st : state) (a : action) : state := fst (step st a).
Definition entries (st : state) (a : action) : list event := snd (step st a).
Definition run (st : state) (s : list action) : state := fold_left next s st.

Definition countb (e : event) (l : list event) : nat := length (filter (event_eqb e) l).

(* number of entries of e's handler along a schedule *)
Fixpoint count_entries (e : event) (st : state) (s : list action) : nat :=
  match s with
  | [] => 0
  | a :: r => countb e (entries st a) + count_entries e (next st a) r
  end.

(* number of occurrences of e that were made while e was ON or STOPped (and a statement loop active) *)
Fixpoint count_accepted (e : event) (st : state) (s : list action) : nat :=
  match s with
  | [] => 0
  | a :: r =>
      (match a with Occur e' => if event_eqb e e' && accept st e then 1 else 0 | _ => 0 end
       + count_accepted e (next st a) r)%nat
  end.

(* the whole trace: entries made by each action *)
Fixpoint trace (st : state) (s : list action) : list (list event) :=
  match s with
  | [] => []
  | a :: r => entries st a :: trace (next st a) r
  end.

(* the actions that create new handler objects (BasicEvents.reset) *)
Definition is_reset (a : action) : bool :=
  match a with RunClear | Clear | New => true | _ => false end.
Definition no_reset (s : list action) : Prop := forall a, In a s -> is_reset a = false.

(* ------------------------------------------------------------------------------------------------ *)
(* where the occurrences of the sampled sources come from.
   TIMER (basicevents.py:TimerHandler) keeps `start` and `period`; check_input - called only while the
   handler is installed, i.e. while TIMER is ON or STOPped and a statement loop polls - triggers when an
   interval is defined and now >= start + period, and then sets start := now.  ON TIMER(n) GOSUB and
   TIMER ON coming from OFF (restart) set start := now.  `due` abstracts "now >= start + period";
   `Elapse` = the period runs out.
   PLAY (PlayHandler, single-voice): check_input triggers when last >= trig and tones_waiting < trig, then
   last := tones_waiting; PLAY ON coming from OFF sets last := tones_waiting.  `pq` is the number of tones
   waiting (environment, `PlayQ n`), `ptrig` the n of ON PLAY(n) GOSUB (`PlayTrig n`, emitted with the
   OnGosub), `plast` the handler's `last`.
   KEY 15..20 are user defined: a key press (`KeyPress e`) is an occurrence only if `KEY n, CHR$(m)+CHR$(s)`
   (`DefKey e`) has been executed since the handler objects were created.
   `Poll` = the pass of EventQueues._check_input over the installed handlers at the end of every
   check_events (between `Install` and `Boundary`). *)
Record tstate := mkT {
  core : state; due : bool; period_set : bool;
  pq : Z; plast : Z; ptrig : Z;
  kdef : list event }.

Inductive taction :=
| Core (a : action) | Elapse | Poll
| PlayQ (n : Z) | PlayTrig (n : Z)
| KeyPress (e : event) | DefKey (e : event).

Definition tinit : tstate := mkT init false false 0%Z 0%Z 1%Z [].

Definition user_key (e : event) : bool := match e with Key n => Nat.leb 15 n | _ => false end.
Definition memb (e : event) (l : list event) : bool := existsb (event_eqb e) l.

Definition poll_hits (x : tstate) : bool := accept (core x) Timer && (period_set x && due x).
Definition play_polled (x : tstate) : bool := accept (core x) Play.
Definition play_hits (x : tstate) : bool :=
  play_polled x && (Z.leb (ptrig x) (plast x) && Z.ltb (pq x) (ptrig x)).
Definition key_hits (x : tstate) (e : event) : bool := negb (user_key e) || memb e (kdef x).

(* what a core action does to the sources *)
Definition retime (x : tstate) (c : action) (st' : state) : tstate :=
  if is_reset c then mkT st' false false (pq x) 0%Z 1%Z []            (* new handler objects *)
  else match c with
       | OnGosub Timer _ => mkT st' false true (pq x) (plast x) (ptrig x) (kdef x)   (* set_trigger *)
       (* ON from OFF calls handler.restart(): TIMER start := now, PLAY last := notes waiting now *)
       | On Timer => if enabled (ev (core x) Timer) then mkT st' (due x) (period_set x) (pq x) (plast x) (ptrig x) (kdef x)
                     else mkT st' false (period_set x) (pq x) (plast x) (ptrig x) (kdef x)
       | On Play => if enabled (ev (core x) Play) then mkT st' (due x) (period_set x) (pq x) (plast x) (ptrig x) (kdef x)
                    else mkT st' (due x) (period_set x) (pq x) (pq x) (ptrig x) (kdef x)
       | _ => mkT st' (due x) (period_set x) (pq x) (plast x) (ptrig x) (kdef x)
       end.

Definition with_core (x : tstate) (st' : state) : tstate :=
  mkT st' (due x) (period_set x) (pq x) (plast x) (ptrig x) (kdef x).

Definition poll_timer (x : tstate) : tstate :=
  if poll_hits x then
    mkT (next (core x) (Occur Timer)) false (period_set x) (pq x) (plast x) (ptrig x) (kdef x)
  else x.

Definition poll_play (x : tstate) : tstate :=
  if play_polled x then
    mkT (if play_hits x then next (core x) (Occur Play) else core x)
        (due x) (period_set x) (pq x) (pq x) (ptrig x) (kdef x)
  else x.

Definition tstep (x : tstate) (a : taction) : tstate * list event :=
  match a with
  | Core c => let r := step (core x) c in (retime x c (fst r), snd r)
  | Elapse => (mkT (core x) true (period_set x) (pq x) (plast x) (ptrig x) (kdef x), [])
  | Poll => (poll_play (poll_timer x), [])
  | PlayQ n => (mkT (core x) (due x) (period_set x) n (plast x) (ptrig x) (kdef x), [])
  | PlayTrig n => (mkT (core x) (due x) (period_set x) (pq x) (plast x) n (kdef x), [])
  | KeyPress e => (if key_hits x e then with_core x (next (core x) (Occur e)) else x, [])
  | DefKey e => (mkT (core x) (due x) (period_set x) (pq x) (plast x) (ptrig x) (e :: kdef x), [])
  end.

Definition tnext (x : tstate) (a : taction) : tstate := fst (tstep x a).
Definition trun (x : tstate) (s : list taction) : tstate := fold_left tnext s x.

Fixpoint ttrace (x : tstate) (s : list taction) : list (list event) :=
  match s with
  | [] => []
  | a :: r => snd (tstep x a) :: ttrace (tnext x a) r
  end.

(* the core actions that one timed action amounts to *)
Definition expand1 (x : tstate) (a : taction) : list action :=
  match a with
  | Core c => [c]
  | Poll => (if poll_hits x then [Occur Timer] else []) ++
            (if play_hits (poll_timer x) then [Occur Play] else [])
  | KeyPress e => if key_hits x e then [Occur e] else []
  | _ => []
  end.

Fixpoint texpand (x : tstate) (s : list taction) : list action :=
  match s with
  | [] => []
  | a :: r => expand1 x a ++ texpand (tnext x a) r
  end.

(* ------------------------------------------------------------------------------------------------ *)
(* encoding for the correspondence harness *)
Local Open Scope Z_scope.

Definition event_code (e : event) : Z :=
  match e with
  | Key n => Z.of_nat n            (* 1..20 *)
  | Timer => 21 | Play => 22 | Pen => 23
  | Strig n => 24 + Z.of_nat n     (* 24..27 *)
  | Com n => 28 + Z.of_nat n       (* 29, 30 *)
  end.

Definition event_of_code (z : Z) : event :=
  if z <=? 20 then Key (Z.to_nat z)
  else if z =? 21 then Timer else if z =? 22 then Play else if z =? 23 then Pen
  else if z <=? 27 then Strig (Z.to_nat (z - 24)) else Com (Z.to_nat (z - 28)).

(* an order list packed in base 32, lowest digit first, digits >= 1 *)
Fixpoint unpack_order (fuel : nat) (z : Z) : list event :=
  match fuel with
  | O => []
  | S f => if z <=? 0 then [] else event_of_code (z mod 32) :: unpack_order f (z / 32)
  end.

Inductive item := Do (a : taction) | Obs.

(* one schedule element is one number: kind + 32 * argument (an event code or a packed order) *)
Definition items_of (z : Z) : list item :=
  let k := z mod 32 in
  let x := z / 32 in
  let e := event_of_code x in
  let c := fun a => [Do (Core a)] in
  match k with
  | 0 => [Obs]
  | 1 => c (Occur e) | 2 => c (Consume e) | 3 => c (On e) | 4 => c (Off e) | 5 => c (Stop e)
  | 6 => c (OnGosub e (Some 1)) | 7 => c (OnGosub e None)
  | 8 => c Install | 9 => [Do Poll; Do (Core (Boundary (unpack_order 12 x)))]
  | 10 => c Gosub | 11 => c Return | 12 => c ReturnTo
  | 13 => c (OnError true) | 14 => c (OnError false) | 15 => c ErrorTrap
  | 16 => c Resume | 17 => c ResumeTo | 18 => c EndProgram | 19 => c Idle | 20 => c Start
  | 21 => c RunClear
  | 22 => [Do (Core Install); Do Poll; Do (Core (Boundary (unpack_order 12 x)))]  (* a whole parse-top *)
  | 23 => [Do Elapse]
  | 24 => c Clear | 25 => c New | 26 => c Renum
  | 27 => [Do (PlayQ x)] | 28 => [Do (PlayTrig x)]
  | 29 => [Do (KeyPress e)] | 30 => [Do (DefKey e)]
  | _ => []
  end.

Definition decode (l : list Z) : list item := flat_map items_of l.

Definition b2z (b : bool) : Z := if b then 1 else 0.

Definition enc_event (st : state) (e : event) : Z :=
  let s := ev st e in
  b2z (enabled s) + 2 * b2z (stopped s) + 4 * b2z (trig s)
  + 8 * match gosub s with Some _ => 1 | None => 0 end.

Definition enc_frame (f : bool * option event) : Z :=
  2 * match snd f with Some e => event_code e | None => 0 end + b2z (fst f).

(* the events the harness observes *)
Definition tracked : list event :=
  [Key 1; Key 2; Key 5; Key 11; Key 15; Key 16; Timer; Play; Pen; Strig 0; Strig 1; Strig 3; Com 1; Com 2].

Definition pack (base : Z) (l : list Z) : Z := fold_right (fun d acc => d + base * acc) 0 l.

(* three numbers: event flags (16 per event), global flags and stack depth, stack frames (top = lowest digit) *)
Definition enc_state (st : state) : list Z :=
  [pack 16 (map (enc_event st) tracked);
   b2z (suspend_all st) + 2 * b2z (run_mode st) + 4 * b2z (error_handle_mode st) + 8 * b2z (on_error st)
   + 16 * match error_resume st with None => 0 | Some false => 1 | Some true => 2 end
   + 64 * Z.of_nat (length (gosub_stack st));
   pack 64 (map enc_frame (gosub_stack st))].

(* run a decoded schedule; `Obs` emits the state (and PlayHandler.last/trig), every action emits 1000 + code of each entered event *)
Fixpoint replay (x : tstate) (l : list item) : list Z :=
  match l with
  | [] => []
  | Obs :: r => enc_state (core x) ++ [plast x + 64 * ptrig x] ++ replay x r
  | Do a :: r => map (fun e => 1000 + event_code e) (snd (tstep x a)) ++ replay (tnext x a) r
  end.

Definition replay_z (l : list Z) : list Z := replay tinit (decode l).
