(* C17: glue between the correspondence harness (harness/C17.py) and the models Tok.v / Lister.v.
   No proofs here. *)
From Coq Require Import ZArith List Bool.
From PCB Require Import lib.Result lib.PyInt lib.Harness gen.Gen_tokens model.Tok model.Lister.
Import ListNotations.
Open Scope Z_scope.

(* syntax index -> (to_keyword, to_token) *)
Definition syn_tables (s : Z) : list (list Z * list Z) * list (list Z * list Z) :=
  if s =? 0 then (to_keyword_advanced, to_token_advanced)
  else if s =? 1 then (to_keyword_pcjr, to_token_pcjr)
  else (to_keyword_tandy, to_token_tandy).

Definition enc_tokres (r : res (list Z)) : list Z :=
  match r with
  | Ok l => 0 :: zlen l :: l
  | Err e => [1; e]
  | Host x => [2; x]
  | OutOfFuel => [3]
  end.

Definition enc_listres (r : res (Z * list Z)) : list Z :=
  match r with
  | Ok (n, t) => 0 :: n :: zlen t :: t
  | Err e => [1; e]
  | Host x => [2; x]
  | OutOfFuel => [3]
  end.

(* list what a token line (starting with its NUL) lists as, then tokenise that text again *)
Definition list_and_retok (syn : Z) (tt ts : list (list Z * list Z)) (t : list Z) : list Z :=
  let '(tkw, kw) := syn_tables syn in
  match t with
  | 0 :: t' =>
      let lr := detokenise_line tkw (fl_str_table ts) t' in
      enc_listres lr ++
      match lr with
      | Ok (_, txt) => enc_tokres (tokenise_line kw (fl_tok_table tt) txt)
      | _ => []
      end
  | _ => []
  end.

(* text line -> tokens -> listing -> tokens *)
Definition run_text (syn : Z) (tt ts : list (list Z * list Z)) (line : list Z) : list Z :=
  let '(tkw, kw) := syn_tables syn in
  let r := tokenise_line kw (fl_tok_table tt) line in
  enc_tokres r ++ match r with Ok t => list_and_retok syn tt ts t | _ => [] end.

(* raw token line -> listing -> tokens *)
Definition run_tokens (syn : Z) (tt ts : list (list Z * list Z)) (t : list Z) : list Z :=
  list_and_retok syn tt ts t.

(* single word through Tokeniser._tokenise_word: bytes written, word returned, bytes left *)
Definition run_word (syn : Z) (l : list Z) : list Z :=
  let '(_, kw) := syn_tables syn in
  let '(o, w, r) := word_loop kw [] O l in
  (zlen o :: o) ++ (zlen w :: w) ++ [zlen r].

(* a line given as items of the canonical grammar (model/Lines.v): is it in the class, its tokens, its
   listing, the tokens of the listing *)
From PCB Require Import model.Lines.
Definition run_items (syn : Z) (tt ts : list (list Z * list Z)) (n : Z) (body : list item) : list Z :=
  let '(tkw, kw) := syn_tables syn in
  let t := line_toks kw n body in
  let x := line_text n body in
  enc_bool (canon_lineb kw (fl_tok_table tt) (fl_str_table ts) n body)
  :: (zlen t :: t) ++ (zlen x :: x) ++ list_and_retok syn tt ts t.
Definition run_items_any (syn : Z) (tt ts : list (list Z * list Z)) (n : Z) (body : list item) : list Z :=
  let '(tkw, kw) := syn_tables syn in
  let t := line_toks kw n body in
  (zlen t :: t) ++ list_and_retok syn tt ts t.
