(* C17: model of converter/tokeniser.py (Tokeniser.tokenise_line) and of the plain-text readers of
   base/codestream.py it uses, on byte lists.  No proofs here.
   Parameters of the section:
     kw      : the keyword -> token dictionary (TokenKeywordDict(syntax).to_token, regenerated in Gen_tokens)
     fl_tok  : text of a non-integer decimal literal -> its number token (values.from_repr(w).to_token());
               the float conversion itself is C07's business.  For correspondence it is instantiated by a
               table recorded from the implementation, for the theorems it is a section variable. *)
From Coq Require Import ZArith List Bool.
From PCB Require Import lib.Result lib.PyInt lib.Harness gen.Gen_tokens.
Import ListNotations.
Open Scope Z_scope.

(* ---- byte classes (the sets are the regenerated constants of tokens.py) ---- *)
Definition mem (c : Z) (l : list Z) : bool := existsb (Z.eqb c) l.
Definition lmem (w : list Z) (ls : list (list Z)) : bool := existsb (list_Z_eqb w) ls.
Fixpoint assoc (k : list Z) (d : list (list Z * list Z)) : option (list Z) :=
  match d with
  | [] => None
  | (a, b) :: d' => if list_Z_eqb k a then Some b else assoc k d'
  end.
Definition has_key (k : list Z) (d : list (list Z * list Z)) : bool :=
  match assoc k d with Some _ => true | None => false end.

Definition is_digit (c : Z) : bool := mem c tk_DIGITS.
Definition is_letter (c : Z) : bool := mem c tk_LETTERS.
Definition is_name_char (c : Z) : bool := mem c tk_NAME_CHARS.
Definition is_blank (c : Z) : bool := mem c cs_blanks.
Definition is_hexdigit (c : Z) : bool := mem c tk_HEXDIGITS.
Definition is_octdigit (c : Z) : bool := mem c tk_OCTDIGITS.
(* bytes.upper() on one byte *)
Definition upper (c : Z) : Z := if (97 <=? c) && (c <=? 122) then c - 32 else c.

(* int(word) for a word of ASCII digits *)
Definition dec_val (w : list Z) : Z := fold_left (fun a d => a * 10 + (d - 48)) w 0.
Definition all_digits (w : list Z) : bool := forallb is_digit w.

Definition rcons (pre : list Z) (r : res (list Z)) : res (list Z) :=
  match r with Ok l => Ok (pre ++ l) | Err e => Err e | Host x => Host x | OutOfFuel => OutOfFuel end.

Definition chosen_rest (mark : option (list Z)) (l : list Z) : list Z :=
  match mark with Some m => m | None => l end.

(* PlainTextStream.read_line_number: at most 5 digits, blanks between digits are skipped, stops as soon as the
   value exceeds 6552, trailing blanks are given back (mark = stream at the start of the current blank run).
   Result: (digits read, rest of the stream). *)
Fixpoint read_linenum (word : list Z) (nd : nat) (mark : option (list Z)) (l : list Z) {struct l}
  : list Z * list Z :=
  if (5 <=? nd)%nat then (word, chosen_rest mark l)
  else match l with
       | [] => (word, chosen_rest mark l)
       | c :: r =>
           if is_digit c then
             let w := word ++ [c] in
             if dec_val w >? 6552 then (w, r) else read_linenum w (S nd) None r
           else if is_blank c then read_linenum word nd (Some (chosen_rest mark l)) r
           else (word, chosen_rest mark l)
       end.

Definition le16 (n : Z) : list Z := [n mod 256; n / 256].

(* CodeStream.read_to for the sets used here *)
Fixpoint read_to (stop : list Z) (l : list Z) : list Z * list Z :=
  match l with
  | [] => ([], [])
  | c :: r => if mem c stop then ([], l) else let (a, b) := read_to stop r in (c :: a, b)
  end.

(* CodeStream.read_string on a PlainTextStream (end_line = NUL, CR); l starts with the opening quote *)
Definition read_string (l : list Z) : list Z * list Z :=
  match l with
  | q :: r =>
      if q =? 34 then
        let (body, r1) := read_to [34; 0; 13] r in
        match r1 with
        | q2 :: r2 => if q2 =? 34 then (34 :: body ++ [34], r2) else (34 :: body, r1)
        | [] => (34 :: body, r1)
        end
      else ([], l)
  | [] => ([], l)
  end.

(* strip trailing blanks of a reversed word: number of blanks at the head of the reversed list *)
Fixpoint count_blanks (rw : list Z) : nat :=
  match rw with
  | c :: r => if is_blank c then S (count_blanks r) else O
  | [] => O
  end.
Fixpoint drop_blanks (w : list Z) : list Z :=
  match w with
  | c :: r => if is_blank c then drop_blanks r else w
  | [] => []
  end.

(* CodeStream._read_dec.  rword: the word so far, reversed; rcons_: every byte consumed so far, reversed.
   Result: (word with outer blanks stripped, rest of stream after giving back as many bytes as the word had
   trailing blanks). *)
Definition dec_finish (rword rconsumed : list Z) (l : list Z) : list Z * list Z :=
  let k := count_blanks rword in
  (drop_blanks (rev (skipn k rword)), rev (firstn k rconsumed) ++ l).

Fixpoint read_dec (have_exp have_point : bool) (rword rconsumed : list Z) (l : list Z) {struct l}
  : list Z * list Z :=
  match l with
  | [] => dec_finish rword rconsumed l
  | c0 :: r =>
      let c := upper c0 in
      if (c =? 46) && negb have_point && negb have_exp then
        read_dec have_exp true (c :: rword) (c0 :: rconsumed) r
      else if ((c =? 69) || (c =? 68)) && negb have_exp then
        if (c =? 69) && (match r with n :: _ => (upper n =? 76) || (upper n =? 81) | [] => false end)
        then dec_finish rword rconsumed l
        else read_dec true have_point (c :: rword) (c0 :: rconsumed) r
      else if ((c =? 45) || (c =? 43))
              && (match rword with [] => true | p :: _ => (p =? 69) || (p =? 68) end) then
        read_dec have_exp have_point (c :: rword) (c0 :: rconsumed) r
      else if is_digit c || is_blank c || (c =? 28) || (c =? 29) || (c =? 31) then
        read_dec have_exp have_point (c :: rword) (c0 :: rconsumed) r
      else if ((c =? 33) || (c =? 35)) && negb have_exp then
        dec_finish (c :: rword) (c0 :: rconsumed) r
      else if c =? 37 then
        dec_finish rword (c0 :: rconsumed) r
      else dec_finish rword rconsumed l
  end.

(* CodeStream._read_hex after "&": the H is passed, then hex digits *)
Fixpoint span (p : Z -> bool) (l : list Z) : list Z * list Z :=
  match l with
  | c :: r => if p c then let (a, b) := span p r in (c :: a, b) else ([], l)
  | [] => ([], [])
  end.

Definition hex_digit_val (c : Z) : Z :=
  if is_digit c then c - 48 else upper c - 55.
Definition hex_val (w : list Z) : Z := fold_left (fun a d => a * 16 + hex_digit_val d) w 0.
Definition oct_val (w : list Z) : Z := fold_left (fun a d => a * 8 + (d - 48)) w 0.

(* python bytes.strip(b' \t\n') *)
Definition strip_blanks (w : list Z) : list Z := rev (drop_blanks (rev (drop_blanks w))).

Section Tokeniser.
Variable kw : list (list Z * list Z).
Variable fl_tok : list Z -> res (list Z).

(* Integer.to_token for 0 <= v <= 32767 *)
Definition int_token (v : Z) : list Z :=
  if v / 256 =? 0 then (if v <? 10 then [17 + v] else tk_T_BYTE ++ [v])
  else tk_T_INT ++ le16 v.

(* Tokeniser._tokenise_number; l starts with & or a digit or a point. Result: (token or error, rest) *)
Definition tokenise_number (l : list Z) : res (list Z) * list Z :=
  match l with
  | [] => (fl_tok [], [])
  | a :: r =>
    if a =? 38 then
      match r with
      | h :: r1 =>
          if upper h =? 72 then
            let (w, r2) := span is_hexdigit r1 in
            let v := hex_val w in
            (if v <=? 65535 then Ok (tk_T_HEX ++ le16 v) else Err 6, r2)
          else
            let r1' := if upper h =? 79 then r1 else r in
            let (w, r2) := span (fun c => is_octdigit c || is_blank c) r1' in
            (* Integer.from_oct removes every blank (space, tab, LF) before int(.., 8) *)
            let s := filter (fun c => negb (is_blank c)) w in
            (let v := oct_val s in
             if v <=? 65535 then Ok (tk_T_OCT ++ le16 v) else Err 6, r2)
      | [] => (Ok (tk_T_OCT ++ le16 0), [])
      end
    else
      let (w, r) := read_dec false false [] [] l in
      (if all_digits w && negb (match w with [] => true | _ => false end) && (dec_val w <=? 32767)
       then Ok (int_token (dec_val w)) else fl_tok w, r)
  end.

(* Tokeniser._tokenise_jump_number *)
Definition tokenise_jump (l : list Z) : list Z * list Z :=
  match read_linenum [] 0 None l with
  | ([], r) => match r with p :: r' => if p =? 46 then ([46], r') else ([], r) | [] => ([], r) end
  | (w, r) => (tk_T_UINT ++ le16 (dec_val w), r)
  end.

(* Tokeniser._tokenise_data *)
Fixpoint data_tail (instr : bool) (l : list Z) : list Z * list Z :=
  match l with
  | [] => ([], [])
  | c :: r =>
      if instr then
        if c =? 34 then let (a, b) := data_tail false r in (c :: a, b)
        else if (c =? 0) || (c =? 13) then ([], l)
        else let (a, b) := data_tail true r in (c :: a, b)
      else
        if (c =? 0) || (c =? 13) || (c =? 58) then ([], l)
        else if c =? 34 then let (a, b) := data_tail true r in (c :: a, b)
        else let (a, b) := data_tail false r in (c :: a, b)
  end.

(* Tokeniser._tokenise_wide_goto_gosub: l is the stream after "GO".
   Result: (word, allow_name_chars, number of further bytes consumed) *)
Fixpoint count_spaces (l : list Z) : nat :=
  match l with c :: r => if c =? 32 then S (count_spaces r) else O | [] => O end.
Definition wide_go (l : list Z) : list Z * bool * nat :=
  let n4 := map upper (firstn 4 l) in
  if list_Z_eqb n4 [32; 83; 85; 66] then (tk_KW_GOSUB, true, 4%nat)
  else if list_Z_eqb (firstn 3 n4) [32; 84; 79]
          && negb (match skipn 3 n4 with c :: _ => is_name_char c | [] => true end)
       then (tk_KW_GOTO, false, 3%nat)
  else if list_Z_eqb (firstn 2 n4) [32; 32] then
    let k := count_spaces l in
    if list_Z_eqb (map upper (firstn 2 (skipn k l))) [84; 79] then (tk_KW_GOTO, true, (k + 2)%nat)
    else ([71; 79], false, O)
  else ([71; 79], false, O).

(* Tokeniser._tokenise_word.  word: the (upper-cased) word so far; skip: bytes still to be passed over after a
   wide GO TO / GO SUB.  Result: (bytes written, word returned, rest of stream). *)
Definition emit_keyword (word tok : list Z) : list Z :=
  if list_Z_eqb word tk_KW_ELSE then 58 :: tok
  else if list_Z_eqb word tk_KW_WHILE then tok ++ tk_O_PLUS
  else tok.

Fixpoint word_loop (word : list Z) (skip : nat) (l : list Z) {struct l} : list Z * list Z * list Z :=
  match skip, l with
  | S k, _ :: r => word_loop word k r
  | S k, [] => (word, word, [])
  | O, _ =>
      let c := match l with c :: _ => Some c | [] => None end in
      let l1 := match l with _ :: r => r | [] => [] end in
      let word1 := match c with Some c => word ++ [upper c] | None => word end in
      let '(word2, allow, k) :=
        if list_Z_eqb word1 [71; 79] then wide_go l1 else (word1, false, O) in
      let l2 := skipn k l1 in
      match assoc word2 kw with
      | Some tok =>
          if negb (lmem word2 tok_no_longer_name) && negb allow
             && (match l2 with n :: _ => is_name_char n | [] => false end)
          then match l with
               | _ :: r => word_loop word2 k r
               | [] => (word2, word2, [])          (* unreachable: l2 is empty when l is *)
               end
          else (emit_keyword word2 tok, word2, l2)
      | None =>
          match c with
          | None => (word2, word2, l2)
          | Some c =>
              if negb (is_name_char c) then (removelast word2, removelast word2, l)
              else match l with
                   | _ :: r => word_loop word2 k r
                   | [] => (word2, word2, [])
                   end
          end
      end
  end.

(* main loop of tokenise_line.  skip: bytes already consumed by a sub-reader *)
Definition consumed (l r : list Z) : nat := (length l - length r)%nat.

Fixpoint tok_loop (aj an sot : bool) (skip : nat) (l : list Z) {struct l} : res (list Z) :=
  match skip, l with
  | S k, _ :: r => tok_loop aj an sot k r
  | S k, [] => Ok []
  | O, [] => Ok []
  | O, c :: r =>
      if (c =? 0) || (c =? 13) then Ok []
      else if is_blank c then rcons [c] (tok_loop aj an sot O r)
      else if c =? 34 then
        let (s, r') := read_string l in rcons s (tok_loop aj an sot (pred (consumed l r')) r)
      else if an && aj && (is_digit c || (c =? 46)) then
        let (o, r') := tokenise_jump l in rcons o (tok_loop aj an sot (pred (consumed l r')) r)
      else if (c =? 38) || (an && negb aj && (is_digit c || (c =? 46))) then
        let (t, r') := tokenise_number l in
        bind t (fun tb => rcons tb (tok_loop aj an sot (pred (consumed l r')) r))
      else if mem c tok_ascii_operators then
        match assoc [c] kw with
        | Some t => rcons t (tok_loop aj true sot O r)
        | None => Host host_KeyError
        end
      else if c =? 39 then
        let (t, r') := read_to [13; 0] r in
        rcons ([58] ++ tk_REM ++ tk_O_REM ++ t) (tok_loop aj an sot (consumed r r') r)
      else if c =? 63 then rcons tk_PRINT (tok_loop aj true sot O r)
      else if is_letter c then
        let '(o, word, r') := word_loop [] O l in
        if list_Z_eqb word tk_KW_REM || list_Z_eqb word tk_KW_O_REM then
          let (t, r'') := read_to [13; 0] r' in
          rcons (o ++ t) (tok_loop aj an sot (pred (consumed l r'')) r)
        else if list_Z_eqb word tk_KW_DATA then
          let (t, r'') := data_tail false r' in
          rcons (o ++ t) (tok_loop aj an sot (pred (consumed l r'')) r)
        else
          rcons o (tok_loop (lmem word tok_linenum_words) (has_key word kw)
                            (sot || list_Z_eqb word tk_KW_SPC || list_Z_eqb word tk_KW_TAB)
                            (pred (consumed l r')) r)
      else
        let o := if (32 <=? c) && (c <=? 127) then c else 32 in
        if (c =? 44) || (c =? 35) || (c =? 59) || (c =? 40) || (c =? 91) then
          rcons [o] (tok_loop aj true sot O r)
        else if c =? 41 then
          rcons [o] (tok_loop (if sot then false else aj) true false O r)
        else rcons [o] (tok_loop false false sot O r)
  end.

(* Tokeniser._tokenise_line_number *)
Definition tokenise_linenum (l : list Z) : list Z * list Z :=
  match read_linenum [] 0 None l with
  | ([], r) => ([58], r)
  | (w, r) =>
      let n := dec_val w in
      ([0; 192; 222] ++ le16 n,
       match r with s :: r' => if (s =? 32) && negb (n =? 0) then r' else r | [] => r end)
  end.

Definition tokenise_line (line : list Z) : res (list Z) :=
  let l := drop_blanks line in
  match l with
  | [] => Ok []
  | _ => let (h, r) := tokenise_linenum l in rcons h (tok_loop false true false O r)
  end.

End Tokeniser.

(* ---- instantiation of the float oracle by a recorded table (correspondence only) ----
   entries (word, enc) with enc = 0 :: token bytes | [1; basic error] | [2; host exception] *)
Definition fl_tok_table (tab : list (list Z * list Z)) (w : list Z) : res (list Z) :=
  match assoc w tab with
  | Some (0 :: t) => Ok t
  | Some [1; e] => Err e
  | Some [2; x] => Host x
  | _ => Host 99
  end.
