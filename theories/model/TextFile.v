(* C24: executable model of sequential text files on a disk device.
   devices/devicebase.py  TextFileBase (peek/read/write/eof), InputMixin (_skip_whitespace, input_entry)
   devices/diskfiles.py   TextFile (read_one with the CR LF rule, read_line, write_line, close, loc, lof)
   devices/disk.py        open_stream (APPEND strips one trailing 1A), _create_file_object (NewlineWrapper
                          unless soft_linefeed)
   basic/codepage.py      NewlineWrapper.read (1 byte at a time, as peek(1) does)
   devices/files.py       write_ (WRITE#), print_ of one string expression (PRINT#), eof_, lof_, loc_
   implementation.py      _input_file (INPUT#), line_input_ (LINE INPUT#)
   No proofs in this file.  Bytes are Z in 0..255; b'' is NONE = -1; Python None is PYNONE = -2. *)
From Coq Require Import ZArith List Bool.
From PCB Require Import lib.Result lib.PyInt gen.Gen_textfile.
Import ListNotations.
Open Scope Z_scope.

Definition CR : Z := 13.
Definition LF : Z := 10.
Definition EOFB : Z := 26.
Definition QUOTE : Z := 34.
Definition COMMA : Z := 44.
Definition SPACE : Z := 32.
Definition NUL : Z := 0.
Definition NONE : Z := -1.
Definition PYNONE : Z := -2.

Fixpoint memZ (c : Z) (l : list Z) : bool :=
  match l with [] => false | x :: r => (c =? x) || memZ c r end.

(* ------------------------------------------------------------------ writing *)

(* b','.join(outstrs) *)
Fixpoint join_comma (l : list (list Z)) : list Z :=
  match l with
  | [] => []
  | x :: r => match r with [] => x | _ :: _ => x ++ COMMA :: join_comma r end
  end.

(* a WRITE# expression: a string value, or a number given by its to_repr text (number formatting is C07) *)
Inductive item := IStr (s : list Z) | INum (t : list Z).
Definition item_text (it : item) : list Z := match it with IStr s => s | INum t => t end.
Definition item_is_str (it : item) : bool := match it with IStr _ => true | INum _ => false end.

(* Files.write_: b'"%s"' % expr.to_str()  |  values.to_repr(expr, leading_space=False, type_sign=False) *)
Definition fmt_item (it : item) : list Z :=
  match it with IStr s => QUOTE :: s ++ [QUOTE] | INum t => t end.

(* TextFile.write_line(s) = write(s + b'\r\n'); width 255: TextFileBase.write copies the bytes *)
Definition line_bytes (s : list Z) : list Z := s ++ [CR; LF].
(* WRITE#n, items *)
Definition write_stmt (items : list item) : list Z := line_bytes (join_comma (map fmt_item items)).
(* PRINT#n, L$   (Formatter: write(L$) then write_line()) *)
Definition print_line (l : list Z) : list Z := l ++ line_bytes [].

(* a file open for OUTPUT / APPEND: the bytes of the host file; the position is always the end *)
Definition open_output : list Z := [].
(* disk.open_stream, mode A: cut off one EOF byte at the end, if any *)
Fixpoint strip_eof (l : list Z) : list Z :=
  match l with
  | [] => []
  | b :: r => match r with [] => if b =? EOFB then [] else [b] | _ :: _ => b :: strip_eof r end
  end.
Definition open_append (old : list Z) : list Z := strip_eof old.
Definition fwrite (f s : list Z) : list Z := f ++ s.
(* TextFile.close, modes O and A: write EOF char *)
Definition close_out (f : list Z) : list Z := f ++ [EOFB].
Definition lof (f : list Z) : Z := zlen f.
Definition loc_out (f : list Z) : Z := zlen f / 128.

(* ------------------------------------------------------------------ reading *)

(* codepage.NewlineWrapper.read(1) iterated: LF directly after a raw CR is absorbed, other LF become CR *)
Fixpoint nlfilter (last : Z) (l : list Z) : list Z :=
  match l with
  | [] => []
  | b :: r =>
      if (last =? CR) && (b =? LF) then nlfilter b r
      else (if b =? LF then CR else b) :: nlfilter b r
  end.

(* rest = bytes not yet consumed (readahead included); cur, prev = _current, _previous *)
Record reader := mkR { rest : list Z; cur : Z; prev : Z }.

Definition stream_of (soft : bool) (raw : list Z) : list Z := if soft then raw else nlfilter NONE raw.
Definition open_input (soft : bool) (raw : list Z) : reader := mkR (stream_of soft raw) NONE NONE.

(* TextFileBase.peek(1) *)
Definition peek1 (r : reader) : Z := match rest r with [] => NONE | b :: _ => b end.

(* TextFileBase.read(1): 1A is never consumed *)
Definition read1 (r : reader) : Z * reader :=
  match rest r with
  | [] => (NONE, mkR [] NONE (cur r))
  | b :: t => if b =? EOFB then (NONE, mkR (rest r) NONE (cur r)) else (b, mkR t b (cur r))
  end.

(* TextFile.read_one: CR LF is reported as CR unless the CR follows an LF *)
Definition read_one (r : reader) : Z * reader :=
  let (c, r1) := read1 r in
  if c =? NONE then (c, r1)
  else if (c =? CR) && negb (prev r1 =? LF) && (peek1 r1 =? LF)
       then (c, mkR (tl (rest r1)) (cur r1) (prev r1))
       else (c, r1).

(* TextFileBase.eof, mode I *)
Definition eof (r : reader) : bool := (peek1 r =? NONE) || (peek1 r =? EOFB).

(* TextFile.read_line *)
Fixpoint read_line_loop (fuel : nat) (r : reader) (acc : list Z) : res (list Z * Z * reader) :=
  match fuel with
  | O => OutOfFuel
  | S f =>
      let (c, r1) := read_one r in
      if (c =? NONE) || ((c =? CR) && negb (prev r1 =? LF)) then Ok (acc, c, r1)
      else
        let acc' := acc ++ [c] in
        if zlen acc' =? 255 then Ok (acc', (if peek1 r1 =? CR then CR else PYNONE), r1)
        else read_line_loop f r1 acc'
  end.
Definition read_line (r : reader) : res (list Z * Z * reader) :=
  read_line_loop (S (length (rest r))) r [].

(* Implementation.line_input_ on a file *)
Definition line_input (r : reader) : res (list Z * reader) :=
  match read_line r with
  | Ok (line, c, r') =>
      match line with
      | [] => if (c =? NONE) || (c =? PYNONE) then Err tf_err_INPUT_PAST_END else Ok (line, r')
      | _ :: _ => Ok (line, r')
      end
  | Err e => Err e | Host x => Host x | OutOfFuel => OutOfFuel
  end.

(* InputMixin._skip_whitespace: returns the last whitespace char dropped (NONE if none) *)
Fixpoint skip_ws_loop (fuel : nat) (ws : list Z) (r : reader) (c : Z) : res (Z * reader) :=
  match fuel with
  | O => OutOfFuel
  | S f =>
      let nc := peek1 r in
      if (nc =? NONE) || negb (memZ nc ws) then Ok (c, r)
      else
        let (c1, r1) := read_one r in
        let r2 := if (c1 =? LF) && (peek1 r1 =? CR) then snd (read_one r1) else r1 in
        skip_ws_loop f ws r2 c1
  end.
Definition skip_ws (ws : list Z) (r : reader) : res (Z * reader) :=
  skip_ws_loop (S (length (rest r))) ws r NONE.

(* the while loop of InputMixin.input_entry (suppress_unquoted_linefeed = True) *)
Fixpoint entry_loop (fuel : nat) (str quoted : bool) (c : Z) (r : reader) (word blanks : list Z)
  : res (list Z * Z * reader) :=
  match fuel with
  | O => OutOfFuel
  | S f =>
      if c =? NONE then Ok (word, c, r)
      else if (negb str && memZ c tf_soft_sep) || (((c =? COMMA) || (c =? CR)) && negb quoted)
      then Ok (word, c, r)
      else if (c =? QUOTE) && quoted then Ok (word, c, r)
      else if (c =? LF) && negb quoted then
        let (c1, r1) := read_one r in
        let (c2, r2) := if c1 =? CR then read_one r1 else (c1, r1) in
        entry_loop f str quoted c2 r2 word blanks
      else
        let (word', blanks') :=
          if c =? NUL then (word, blanks)
          else if memZ c tf_INPUT_WHITESPACE && negb quoted
               then (word, if str then blanks ++ [c] else blanks)
               else (word ++ blanks ++ [c], []) in
        if 255 <=? zlen word' + zlen blanks' then Ok (word', c, r)
        else
          let (c1, r1) := if quoted then read1 r else read_one r in
          entry_loop f str quoted c1 r1 word' blanks'
  end.

Definition is_lf_or_nul (c : Z) : bool := (c =? LF) || (c =? NUL).

(* InputMixin.input_entry up to the Input-past-end test: (last, quoted, c, reader) *)
Definition entry_prefix (str : bool) (r : reader) : res (Z * bool * Z * reader) :=
  do (last, r1) <- skip_ws tf_INPUT_WHITESPACE r;
  let (c0, r2) := read_one r1 in
  let quoted := (c0 =? QUOTE) && str && negb (is_lf_or_nul last) in
  let (c, r3) := if quoted then read_one r2 else (c0, r2) in
  Ok (last, quoted, c, r3).

(* InputMixin.input_entry(typechar, allow_past_end=False); str = (typechar == '$').
   Result: (word, separator char, reader) *)
Definition input_entry (str : bool) (r : reader) : res (list Z * Z * reader) :=
  do (last, quoted, c, r3) <- entry_prefix str r;
  if (c =? NONE) && negb (is_lf_or_nul last) then Err tf_err_INPUT_PAST_END
  else
    do (word, c', r4) <- entry_loop (S (S (length (rest r3)))) str quoted c r3 [] [];
    if (negb (c' =? NONE) && memZ c' tf_INPUT_WHITESPACE) || (quoted && (c' =? QUOTE)) then
      do (_, r5) <- skip_ws [SPACE] r4;
      let p := peek1 r5 in
      if (p =? NONE) || (p =? COMMA) || (p =? CR)
      then let (c'', r6) := read_one r5 in Ok (word, c'', r6)
      else Ok (word, c', r5)
    else Ok (word, c', r4).
(* the reader left behind when input_entry raises Input past end *)
Definition entry_err_reader (str : bool) (r : reader) : reader :=
  match entry_prefix str r with Ok (_, _, _, r3) => r3 | _ => r end.

(* ------------------------------------------------------------------ whole-file functions of the theorems *)

(* the disk file after OPEN FOR OUTPUT, the given WRITE# statements, CLOSE *)
Definition write_session (start : list Z) (stmts : list (list item)) : list Z :=
  close_out (fold_left (fun f st => fwrite f (write_stmt st)) stmts start).
Definition write_file (stmts : list (list item)) : list Z := write_session open_output stmts.
Definition append_file (old : list Z) (stmts : list (list item)) : list Z :=
  write_session (open_append old) stmts.

Definition print_session (start : list Z) (ls : list (list Z)) : list Z :=
  close_out (fold_left (fun f l => fwrite f (print_line l)) ls start).
Definition print_file (ls : list (list Z)) : list Z := print_session open_output ls.

(* INPUT#n, v1, v2, ... one variable at a time; after each the value of EOF(n) is recorded *)
Fixpoint read_items (kinds : list bool) (r : reader) : res (list (list Z * bool)) :=
  match kinds with
  | [] => Ok []
  | k :: ks =>
      do (w, _, r') <- input_entry k r;
      do tl <- read_items ks r';
      Ok ((w, eof r') :: tl)
  end.

(* n times LINE INPUT#, EOF recorded after each *)
Fixpoint read_lines (n : nat) (r : reader) : res (list (list Z * bool)) :=
  match n with
  | O => Ok []
  | S m =>
      do (l, r') <- line_input r;
      do tl <- read_lines m r';
      Ok ((l, eof r') :: tl)
  end.

(* expected EOF flags: false after every item but the last *)
Fixpoint eof_flags (n : nat) : list bool :=
  match n with O => [] | S O => [true] | S m => false :: eof_flags m end.

(* ------------------------------------------------------------------ value classes of the theorems *)

(* chars allowed inside a written string: a byte, not the double quote, NUL, 1A *)
Definition qchar (c : Z) : bool :=
  byteb c && negb (c =? QUOTE) && negb (c =? NUL) && negb (c =? EOFB).
Definition starts_crlf (s : list Z) : bool :=
  match s with a :: b :: _ => (a =? CR) && (b =? LF) | _ => false end.
(* strings that WRITE# / INPUT# return unchanged.  soft_linefeed: all LF are kept except one directly after a
   leading CR; default mode: the NewlineWrapper turns every LF into CR *)
Definition str_ok (soft : bool) (s : list Z) : bool :=
  forallb qchar s && (zlen s <=? 254)
  && (if soft then negb (starts_crlf s) else negb (memZ LF s)).
(* characters of to_repr texts: digits + - . E D (and % ! # never appear: type_sign=False) *)
Definition nchar (c : Z) : bool :=
  ((48 <=? c) && (c <=? 57)) || (c =? 43) || (c =? 45) || (c =? 46) || (c =? 69) || (c =? 68).
Definition num_ok (t : list Z) : bool :=
  forallb nchar t && negb (zlen t =? 0) && (zlen t <=? 254).
Definition item_ok (soft : bool) (it : item) : bool :=
  match it with IStr s => str_ok soft s | INum t => num_ok t end.
Definition stmt_ok (soft : bool) (st : list item) : bool :=
  negb (zlen st =? 0) && forallb (item_ok soft) st.

(* lines that PRINT# / LINE INPUT# return unchanged (exact class).
   Default mode: no CR, LF, 1A.  soft_linefeed mode: no 1A; a CR only directly after an LF (LF CR is not a line
   end for TextFile.read_line), hence not as first byte; the last byte is not LF (it would hide the line end).
   Both: at most 254 bytes (K24a). *)
Definition lchar (c : Z) : bool := byteb c && negb (c =? CR) && negb (c =? EOFB).
Fixpoint lseq_ok (p : Z) (l : list Z) : bool :=
  match l with
  | [] => true
  | a :: t => byteb a && negb (a =? EOFB) && (negb (a =? CR) || (p =? LF)) && lseq_ok a t
  end.
Definition line_ok (soft : bool) (l : list Z) : bool :=
  (zlen l <=? 254)
  && (if soft then lseq_ok NONE l && negb (last l NONE =? LF) else forallb lchar l && negb (memZ LF l)).

(* ------------------------------------------------------------------ writer with column and WIDTH
   TextFileBase.write(s, can_break): a string that does not fit on the line is preceded by a line break (only
   when width <> 255, not at column 1, and the string has no CR/LF of its own); printable bytes (>= 32) advance
   the column, CR resets it, col-1 wraps as a byte *)
Record wst := mkW { wbytes : list Z; wcol : Z; wwidth : Z }.

Definition col_step (col c : Z) : Z :=
  if c =? CR then 1 else if 32 <=? c then (if col + 1 =? 257 then 1 else col + 1) else col.
Fixpoint first_width (s : list Z) : Z * bool :=
  match s with
  | [] => (0, false)
  | c :: r => if (c =? CR) || (c =? LF) then (0, true)
              else let (w, nl) := first_width r in ((if 32 <=? c then 1 else 0) + w, nl)
  end.
Definition put_bytes (w : wst) (s : list Z) : wst :=
  mkW (wbytes w ++ s) (fold_left col_step s (wcol w)) (wwidth w).
Definition wwrite (w : wst) (s : list Z) (can_break : bool) : wst :=
  let (sw, nl) := first_width s in
  let w1 := if can_break && negb (wwidth w =? 255) && negb (wcol w =? 1)
               && (wwidth w <? wcol w - 1 + sw) && negb nl
            then mkW (wbytes w ++ [CR; LF]) 1 (wwidth w)
            else w in
  put_bytes w1 s.
Definition wwrite_line (w : wst) (s : list Z) : wst := wwrite w (s ++ [CR; LF]) true.

(* PRINT#n, list of expressions (strings, or numbers given as " text ") separated by ; or , *)
Inductive pelem := PV (s : list Z) | PSemi | PComma.
(* Formatter._print_comma *)
Definition print_comma (w : wst) : wst :=
  let number_zones := Z.max 1 (wwidth w / 14) in
  let next_zone := (wcol w - 1) / 14 + 1 in
  if (number_zones <=? next_zone) && (14 <=? wwidth w) && negb (wwidth w =? 255)
  then wwrite_line w []
  else wwrite w (repeat SPACE (Z.to_nat (1 + 14 * next_zone - wcol w))) false.
(* Formatter.format: a final value (or nothing at all) is followed by a line break *)
Fixpoint pformat (w : wst) (es : list pelem) (nl : bool) : wst :=
  match es with
  | [] => if nl then wwrite_line w [] else w
  | PV s :: r => pformat (wwrite w s true) r true
  | PSemi :: r => pformat w r false
  | PComma :: r => pformat (print_comma w) r false
  end.
Definition pprint (w : wst) (es : list pelem) : wst := pformat w es true.
Definition open_w (f : list Z) : wst := mkW f 1 255.

(* ------------------------------------------------------------------ INPUT$(n, #f): TextFileBase.read(n) *)
Fixpoint cut_eof (l : list Z) : list Z :=
  match l with [] => [] | b :: t => if b =? EOFB then [] else b :: cut_eof t end.
Definition TWO : Z := -3.    (* _previous = output[-2:] is a two-byte string after a read of 2 or more *)
Definition read_n (n : nat) (r : reader) : list Z * reader :=
  let out := cut_eof (firstn n (rest r)) in
  (out, mkR (skipn (length out) (rest r)) (last out NONE)
            (if (length out <=? 1)%nat then cur r else TWO)).
Definition input_str (n : nat) (r : reader) : res (list Z) * reader :=
  let (out, r') := read_n n r in
  (if (length out <? n)%nat then Err tf_err_INPUT_PAST_END else Ok out, r').

(* ------------------------------------------------------------------ LOC
   output: tell // 128.  input: max(1, (127 + tell - len(readahead)) // 128); with soft_linefeed tell minus
   readahead is the number of bytes consumed; behind the NewlineWrapper it is the raw position after the k
   bytes consumed, plus one when an LF absorbed after a CR has already been fetched (att: a read or peek was
   attempted at the current position) *)
Fixpoint raw_skip (raw : list Z) (lst k pos : Z) : Z * Z * list Z :=
  match raw with
  | [] => (pos, lst, [])
  | b :: r => if k <=? 0 then (pos, lst, raw)
              else if (lst =? CR) && (b =? LF) then raw_skip r b k (pos + 1)
              else raw_skip r b (k - 1) (pos + 1)
  end.
Definition blocks (n : Z) : Z := Z.max 1 ((127 + n) / 128).
Definition loc_in (soft : bool) (raw : list Z) (r : reader) (att : bool) : Z :=
  let k := zlen (stream_of soft raw) - zlen (rest r) in
  if soft then blocks k
  else match raw_skip raw NONE k 0 with
       | (pos, lst, rr) =>
           let d := match rr with b :: _ => if att && (lst =? CR) && (b =? LF) then 1 else 0 | [] => 0 end in
           blocks (pos + d)
       end.

(* ------------------------------------------------------------------ script interpreter (correspondence) *)

(* OPEN statements refused before any file is touched (Files.open_): bad mode letter, LEN=0, APPEND ACCESS WRITE,
   FOR/ACCESS mismatch (Syntax error), file number 0, beyond max_files, beyond 255 *)
Inductive refusal := RModeLetter | RRecLen | RAppendWrite | RAccess | RNumZero | RNumBig | RNumRange.
Definition refusal_code (r : refusal) : Z :=
  match r with
  | RModeLetter => tf_err_BAD_FILE_MODE | RRecLen => 5 | RAppendWrite => 75 | RAccess => 2
  | RNumZero => tf_err_BAD_FILE_NUMBER | RNumBig => tf_err_BAD_FILE_NUMBER | RNumRange => 5
  end.

Inductive op :=
| OpRefused (why : refusal)
| OpOpenO | OpOpenA | OpOpenI | OpClose
| OpWrite (items : list item) | OpPrint (l : list Z) | OpPrintE (es : list pelem) | OpWidth (n : Z)
| OpInput (kinds : list bool) | OpLineInput | OpInputStr (n : nat) | OpEof | OpLof | OpLoc
| OpRaw (b : list Z)       (* harness: put these bytes on disk (file must be closed) *)
| OpDisk.                  (* harness: dump the disk file (file must be closed) *)

Inductive handle :=
| HClosed
| HOut (w : wst)                                   (* O or A *)
| HIn (raw : list Z) (r : reader) (att : bool).   (* att: see loc_in *)

Record fstate := mkF { disk : option (list Z); hnd : handle }.

Definition enc_word (w : list Z) : list Z := zlen w :: w.

(* INPUT#n, v1, v2, ...: one input_entry per variable, the statement stops at the first error.
   The flag: was a byte beyond the final position fetched (always, except after the 255 cut-off on a CR) *)
Fixpoint input_vars (kinds : list bool) (r : reader) (att : bool) : list Z * reader * bool :=
  match kinds with
  | [] => ([], r, att)
  | k :: ks =>
      match input_entry k r with
      | Ok (w, c, r') =>
          match input_vars ks r' (negb ((zlen w =? 255) && (c =? CR))) with
          | (o, r'', a) => (0 :: c :: enc_word w ++ o, r'', a)
          end
      | Err e => ([1; e], entry_err_reader k r, true)
      | Host x => ([2; x], r, att)
      | OutOfFuel => ([3], r, att)
      end
  end.

(* outputs: [0;...] ok, [1;e] BASIC error, [3] out of fuel, [4] harness op on an open file,
   [6] not modelled (INPUT$ of more than one byte through the NewlineWrapper: chunk-dependent, see K24b) *)
Definition step (soft : bool) (o : op) (s : fstate) : list Z * fstate :=
  match o, hnd s with
  | OpRefused why, _ => ([1; refusal_code why], s)
  | OpOpenO, HClosed => ([0], mkF (Some []) (HOut (open_w open_output)))
  | OpOpenA, HClosed =>
      let old := match disk s with Some d => d | None => [] end in
      let f := open_append old in ([0], mkF (Some f) (HOut (open_w f)))
  | OpOpenI, HClosed =>
      match disk s with
      | Some d => ([0], mkF (disk s) (HIn d (open_input soft d) false))
      | None => ([1; tf_err_FILE_NOT_FOUND], s)
      end
  | (OpOpenO | OpOpenA | OpOpenI), _ => ([1; tf_err_FILE_ALREADY_OPEN], s)
  | OpClose, HOut w => ([0], mkF (Some (close_out (wbytes w))) HClosed)
  | OpClose, _ => ([0], mkF (disk s) HClosed)
  | OpWrite items, HOut w => ([0], mkF (disk s) (HOut (wwrite_line w (join_comma (map fmt_item items)))))
  | OpPrint l, HOut w => ([0], mkF (disk s) (HOut (pprint w [PV l])))
  | OpPrintE es, HOut w => ([0], mkF (disk s) (HOut (pprint w es)))
  | (OpWrite _ | OpPrint _ | OpPrintE _), HIn _ _ _ => ([1; tf_err_BAD_FILE_MODE], s)
  | OpWidth n, HOut w =>
      if (0 <=? n) && (n <=? 255) then ([0], mkF (disk s) (HOut (mkW (wbytes w) (wcol w) n))) else ([1; 5], s)
  | OpWidth n, HIn _ _ _ => if (0 <=? n) && (n <=? 255) then ([0], s) else ([1; 5], s)
  | OpInput kinds, HIn raw r att =>
      match input_vars kinds r att with (o, r', a) => (o, mkF (disk s) (HIn raw r' a)) end
  | OpLineInput, HIn raw r att =>
      match line_input r with
      | Ok (l, r') => (0 :: enc_word l, mkF (disk s) (HIn raw r' true))
      | Err e => ([1; e], mkF (disk s) (HIn raw (snd (read_one r)) true))
      | Host x => ([2; x], s)
      | OutOfFuel => ([3], s)
      end
  | OpInputStr n, HIn raw r att =>
      if (Z.of_nat n <? 1) || (255 <? Z.of_nat n) then ([1; 5], s)
      else if negb soft && (1 <? Z.of_nat n) then ([6], s)
      else match input_str n r with
           | (Ok w, r') => (0 :: enc_word w, mkF (disk s) (HIn raw r' false))
           | (Err e, r') => ([1; e], mkF (disk s) (HIn raw r' true))
           | (_, r') => ([3], s)
           end
  | OpEof, HIn raw r _ => ([0; enc_bool (eof r)], mkF (disk s) (HIn raw r true))
  | (OpInput _ | OpLineInput | OpEof), HOut _ => ([1; tf_err_BAD_FILE_MODE], s)
  | OpInputStr n, HOut _ =>
      if (Z.of_nat n <? 1) || (255 <? Z.of_nat n) then ([1; 5], s) else ([1; tf_err_BAD_FILE_MODE], s)
  | OpLof, HOut w => ([0; lof (wbytes w)], s)
  | OpLof, HIn raw _ _ => ([0; lof raw], s)
  | OpLoc, HOut w => ([0; loc_out (wbytes w)], s)
  | OpLoc, HIn raw r att => ([0; loc_in soft raw r att], s)
  | OpRaw b, HClosed => ([0], mkF (Some b) HClosed)
  | OpDisk, HClosed =>
      (match disk s with Some d => 0 :: enc_word d | None => [1; tf_err_FILE_NOT_FOUND] end, s)
  | (OpRaw _ | OpDisk), _ => ([4], s)
  | OpInputStr n, HClosed =>
      if (Z.of_nat n <? 1) || (255 <? Z.of_nat n) then ([1; 5], s) else ([1; tf_err_BAD_FILE_MODE], s)
  | _, HClosed => ([1; tf_err_BAD_FILE_NUMBER], s)
  end.

Fixpoint run_from (soft : bool) (ops : list op) (s : fstate) : list Z :=
  match ops with
  | [] => []
  | o :: os => let (out, s') := step soft o s in out ++ run_from soft os s'
  end.
Definition run_script (soft : bool) (ops : list op) : list Z := run_from soft ops (mkF None HClosed).

(* the state after a script *)
Fixpoint exec (soft : bool) (ops : list op) (s : fstate) : fstate :=
  match ops with [] => s | o :: os => exec soft os (snd (step soft o s)) end.

(* ------------------------------------------------------------------ short outputs for the harness
   (elaborating long list literals dominates the run time, so the expected output of an op that is longer
   than 6 values is compared through its length and a 61-bit polynomial hash; the oracle of the harness
   compares the full bytes with what was written) *)
Definition hash_step (h v : Z) : Z := (h * 1000003 + v + 3) mod 2305843009213693951.
Definition compress (l : list Z) : list Z :=
  if zlen l <=? 6 then l else [7; zlen l; fold_left hash_step l 0].
Fixpoint run_from_hashed (soft : bool) (ops : list op) (s : fstate) : list Z :=
  match ops with
  | [] => []
  | o :: os => let (out, s') := step soft o s in compress out ++ run_from_hashed soft os s'
  end.
Definition run_script_hashed (soft : bool) (ops : list op) : list Z :=
  run_from_hashed soft ops (mkF None HClosed).
