(* C13 (extension): the other commands that change the stored program, on top of Program.v and Renum.v:
   RENUM inside edit histories (accepted or rejected), SAVE + LOAD of the tokenised image (the file is
   FF | bytecode[1:] | 1A; LOAD = erase, write the bytes behind the first 00, rebuild_line_dict), MERGE of an
   ASCII file (= store_line for each tokenised line, stopping at the first error; CHAIN MERGE's DELETE range
   is Program.delete = ODelete; AUTO and EDIT replace lines through the same store_line).  No proofs here. *)
From Coq Require Import ZArith List Bool.
From PCB Require Import lib.Result lib.PyInt gen.Gen_program model.Program model.Renum.
Import ListNotations.
Open Scope Z_scope.

Inductive xop :=
| XBase (o : op)
| XRenum (new_line start_line step : option Z)
| XSaveLoad                               (* SAVE "F" : LOAD "F"  (tokenised format) *)
| XMerge (linebufs : list (list Z))       (* MERGE "F": the tokenised lines of the file, in file order *)
| XLoadAscii (linebufs : list (list Z)).  (* LOAD "F" of an ASCII file: erase, then merge every line of it *)

(* Program.load for filetype B: erase(); bytecode.seek(1); bytecode.write(g.read()); rebuild_line_dict() *)
Definition load_image (c : cfg) (bytes : list Z) : res prog :=
  rebuild_line_dict c {| code := write_at 1 bytes (code erase); lines := lines erase; last_stored := 0 |}.

(* MERGE: lines are stored one by one; an error ends the command, the lines before it stay *)
Fixpoint merge_from (c : cfg) (s : prog) (lbs : list (list Z)) : prog * Z :=
  match lbs with
  | [] => (s, 0)
  | lb :: r =>
      match store_line c s lb with
      | Ok s' => merge_from c s' r
      | x => (s, status (rmap (fun _ : prog => s) x))
      end
  end.

Definition set_last (s : prog) (l : Z) : prog := {| code := code s; lines := lines s; last_stored := l |}.

(* state after the command and its status (0, 100 + BASIC error, 200 + host exception, 300) *)
Definition xstep (c : cfg) (s : prog) (o : xop) : prog * Z :=
  match o with
  | XBase b => (step_keep c s b, status (step c s b))
  | XRenum n st sp =>
      match renum_cmd s {| on_error := None; gosubs := [] |} n st sp with
      | Ok (r, _) => (r_prog r, 0)
      | Err e => (set_last s (reject_last s n st sp), 100 + e)
      | Host h => (s, 200 + h)
      | OutOfFuel => (s, 300)
      end
  | XSaveLoad =>
      (* Program.load: `if code_start + bytecode.tell() > stack_start(): erase(); Out of memory` *)
      if cs c + 1 + zlen (tl (code s) ++ [26]) >? limit c then (erase, 100 + err_OUT_OF_MEMORY)
      else
      match load_image c (tl (code s) ++ [26]) with
      | Ok s' => (s', 0)
      | x => (s, status x)
      end
  | XMerge lbs => merge_from c s lbs
  | XLoadAscii lbs => merge_from c erase lbs
  end.

Fixpoint xtrace_from (c : cfg) (s : prog) (ops : list xop) : list Z * prog :=
  match ops with
  | [] => ([], s)
  | o :: r =>
      let t := xstep c s o in
      if 200 <=? snd t then ([snd t], fst t)
      else let u := xtrace_from c (fst t) r in (snd t :: fst u, snd u)
  end.

Definition xrun (c : cfg) (ops : list xop) : prog := snd (xtrace_from c erase ops).

Definition xops_wf (ops : list xop) : bool :=
  forallb (fun o => match o with
                    | XBase b => ops_wf [b]
                    | XMerge lbs | XLoadAscii lbs => ops_wf (map OStore lbs)
                    | _ => true
                    end) ops.

Definition xtrace (c : cfg) (ops : list xop) : list Z :=
  let u := xtrace_from c erase ops in
  let l := if existsb (fun x => 200 <=? x) (fst u) then [] else line_numbers_listed (snd u) in
  (zlen (fst u) :: fst u) ++ obs (snd u) ++ (zlen l :: l) ++ [b2z (xops_wf ops)].
