(* C22: executable model of READ / RESTORE and of the scan for DATA statements in tokenised program memory
     interpreter.py   Interpreter.read_, Interpreter.restore_, (trap_error: e.pos = tell()-1)
     codestream.py    skip_blank, read_to, read_string, read_number/_read_dec/_read_hex/_read_oct,
                      TokenisedStream.skip_to, skip_to_token
     program.py       Program.get_line_number
   The program is its byte code (list Z);  a stream position is represented by the SUFFIX of the byte code
   that starts there (positions are recovered as  length p - length suffix).
   No proofs here (proofs/Data_proofs.v).  Token constants are regenerated from /repo (gen/Gen_data.v). *)
From Coq Require Import ZArith List Bool.
From PCB Require Import lib.Result lib.PyInt gen.Gen_data.
Import ListNotations.
Open Scope Z_scope.

(* ------------------------------------------------------------------------------------------------ *)
(* character classes *)

Definition memz (c : Z) (l : list Z) : bool := existsb (Z.eqb c) l.

Fixpoint assocz (c : Z) (l : list (Z * Z)) : option Z :=
  match l with
  | [] => None
  | (k, v) :: r => if c =? k then Some v else assocz c r
  end.

Definition is_blank (c : Z) : bool := memz c data_blanks.
Definition is_end_stmt (c : Z) : bool := memz c data_END_STATEMENT.   (* b'' (end of stream): see [] cases *)
Definition is_end_line (c : Z) : bool := memz c data_END_LINE.
Definition plus_bytes (c : Z) : nat :=
  match assocz c data_PLUS_BYTES with Some n => Z.to_nat n | None => O end.

Definition QUOTE : Z := 34.
Definition COMMA : Z := 44.

(* bytes.upper() on one byte *)
Definition upper (c : Z) : Z := if (97 <=? c) && (c <=? 122) then c - 32 else c.

(* ------------------------------------------------------------------------------------------------ *)
(* CodeStream primitives on suffixes *)

(* skip_blank(): position at the first non-blank *)
Fixpoint skip_blank (s : list Z) : list Z :=
  match s with
  | c :: r => if is_blank c then skip_blank r else s
  | [] => []
  end.

(* read_to(findrange): (bytes read, position at the first byte in findrange or at the end of the stream) *)
Fixpoint read_to (stops : list Z) (s : list Z) : list Z * list Z :=
  match s with
  | [] => ([], [])
  | c :: r => if memz c stops then ([], s) else let (w, s') := read_to stops r in (c :: w, s')
  end.

(* read_string(): a literal from the opening quote to the closing quote (included), the end of the line or the end
   of the stream *)
Definition read_string (s : list Z) : list Z * list Z :=
  match s with
  | c :: r =>
      if c =? QUOTE then
        let (w, s1) := read_to (QUOTE :: data_END_LINE) r in
        match s1 with
        | d :: s2 => if d =? QUOTE then (QUOTE :: w ++ [QUOTE], s2) else (QUOTE :: w, s1)
        | [] => (QUOTE :: w, [])
        end
      else ([], s)
  | [] => ([], [])
  end.

(* bytes.lstrip / rstrip / strip *)
Fixpoint lstrip (cs : list Z) (l : list Z) : list Z :=
  match l with
  | c :: r => if memz c cs then lstrip cs r else l
  | [] => []
  end.
Definition rstrip (cs l : list Z) : list Z := rev (lstrip cs (rev l)).
Definition strip (cs l : list Z) : list Z := rstrip cs (lstrip cs l).

Fixpoint take_while (f : Z -> bool) (s : list Z) : list Z * list Z :=
  match s with
  | c :: r => if f c then let (w, s') := take_while f r in (c :: w, s') else ([], s)
  | [] => ([], [])
  end.

(* ------------------------------------------------------------------------------------------------ *)
(* read_number *)

Definition last_opt (l : list Z) : option Z := match rev l with x :: _ => Some x | [] => None end.

(* the loop of _read_dec: (word as accumulated incl. inner and trailing blanks, position after the loop) *)
Fixpoint dec_loop (have_exp have_point : bool) (word : list Z) (s : list Z) : list Z * list Z :=
  match s with
  | [] => (word, [])
  | c0 :: r =>
      let c := upper c0 in
      if (c =? 46) && negb have_point && negb have_exp then dec_loop have_exp true (word ++ [c]) r
      else if ((c =? 69) || (c =? 68)) && negb have_exp then
        if (c =? 69) && (match r with d :: _ => (upper d =? 76) || (upper d =? 81) | [] => false end)
        then (word, s)
        else dec_loop true have_point (word ++ [c]) r
      else if ((c =? 45) || (c =? 43))
              && (match last_opt word with None => true | Some l => (l =? 69) || (l =? 68) end)
        then dec_loop have_exp have_point (word ++ [c]) r
      else if memz c data_DIGITS || is_blank c || memz c [28; 29; 31]
        then dec_loop have_exp have_point (word ++ [c]) r
      else if ((c =? 33) || (c =? 35)) && negb have_exp then (word ++ [c], r)
      else if c =? 37 then (word, r)
      else (word, s)
  end.

(* _read_dec: trailing blanks are given back to the stream (seek(-n, 1)) *)
Definition read_dec (s : list Z) : list Z * list Z :=
  let (word, s1) := dec_loop false false [] s in
  let trimword := rstrip data_blanks word in
  let back := (length word - length trimword)%nat in
  (strip data_blanks trimword, skipn (length s - length s1 - back) s).

Definition read_hex (s : list Z) : list Z * list Z :=     (* s: at the H *)
  let (w, s') := take_while (fun c => memz c data_HEXDIGITS) (tl s) in (w, s').

Definition read_oct (s : list Z) : list Z * list Z :=     (* s: after the & *)
  let s0 := match s with c :: r => if upper c =? 79 then r else s | [] => [] end in
  take_while (fun c => memz c data_OCTDIGITS || is_blank c) s0.

Definition read_number (s : list Z) : list Z * list Z :=
  match s with
  | c :: r =>
      if c =? 38 then
        if (match r with h :: _ => upper h =? 72 | [] => false end)
        then let (w, s') := read_hex r in (38 :: 72 :: w, s')
        else let (w, s') := read_oct r in (38 :: 79 :: w, s')
      else if memz c data_DIGITS || memz c [46; 43; 45] then read_dec s
      else ([], s)
  | [] => ([], [])
  end.

(* ------------------------------------------------------------------------------------------------ *)
(* TokenisedStream.skip_to(findrange) with single-byte findrange given as a predicate, break_on_first_char=True:
   position at the first byte of findrange that is outside string literals, outside REM and not part of a token
   payload; [] if there is none.  k = payload bytes still to be skipped. *)
Fixpoint skip_to (stop : Z -> bool) (k : nat) (lit rem : bool) (s : list Z) : list Z :=
  match s with
  | [] => []
  | c :: r =>
      match k with
      | S k' => skip_to stop k' lit rem r
      | O =>
          let lit' := if c =? QUOTE then negb lit
                      else if (c =? data_tk_REM) && negb lit then lit
                      else if c =? 0 then false else lit in
          let rem' := if c =? QUOTE then rem
                      else if (c =? data_tk_REM) && negb lit then true
                      else if c =? 0 then false else rem in
          if lit' || rem' then skip_to stop 0 lit' rem' r
          else if stop c then s
          else skip_to stop (plus_bytes c) lit' rem' r
      end
  end.

(* what follows a statement separator c (skip_to_token after skip_to_read):
   inl s' : skip_to_token returns None with the stream at s' ;  inr (ln', s') : a statement starts at s' *)
Definition after_sep (ln : Z) (c : Z) (r : list Z) : list Z + (Z * list Z) :=
  if c =? 0 then
    match r with
    | a :: b :: x :: y :: r' => if (a =? 0) && (b =? 0) then inl r' else inr (x + 256 * y, r')
    | _ => inl []
    end
  else inr (ln, r).

(* skip_to_token(tk.DATA): (line number of the line the stream is in, position).  The position is at the DATA token
   when one was found at the start of a statement, else where skip_to_token gave up.  ln is the line number of the
   line s is in (it is not used by the interpreter; it lets the specification name the line of each item). *)
Definition stmt_start (rec : Z -> list Z -> res (Z * list Z)) (ln : Z) (r2 : list Z) : res (Z * list Z) :=
  let r3 := skip_blank r2 in
  match r3 with
  | [] => Ok (ln, [])
  | t :: _ => if t =? data_tk_DATA then Ok (ln, r3) else rec ln r3
  end.

Fixpoint find_data (fuel : nat) (ln : Z) (s : list Z) : res (Z * list Z) :=
  match fuel with
  | O => OutOfFuel
  | S f =>
      match skip_to is_end_stmt 0 false false s with
      | [] => Ok (ln, [])
      | c :: r =>
          match after_sep ln c r with
          | inl s' => Ok (ln, s')
          | inr (ln', r2) => stmt_start (find_data f) ln' r2
          end
      end
  end.

(* ------------------------------------------------------------------------------------------------ *)
(* one DATA entry.  r1 = the stream after DATA or ',' and after skip_blank *)

(* peek() in END_STATEMENT *)
Definition at_end (s : list Z) : bool := match s with [] => true | c :: _ => is_end_stmt c end.
(* skip_blank() in END_STATEMENT + (b',',) *)
Definition at_sep (s : list Z) : bool := match s with [] => true | c :: _ => is_end_stmt c || (c =? COMMA) end.

(* string target: (Some value | None = Syntax error, position) *)
Definition str_slot (r1 : list Z) : option (list Z) * list Z :=
  let (word, s2) := read_to (COMMA :: QUOTE :: data_END_STATEMENT) r1 in
  if (match s2 with c :: _ => c =? QUOTE | [] => false end) then
    let (lit, s3) := read_string s2 in
    let value := match word with [] => strip [QUOTE] lit | _ => word ++ lit end in
    let s4 := skip_blank s3 in
    if at_sep s4 then (Some value, s4) else (None, s4)
  else (Some (strip data_blanks word), s2).

(* numeric target: (word passed to values.from_repr, position after read_number, position after skip_blank) *)
Definition num_slot (r1 : list Z) : list Z * list Z * list Z :=
  let (w, s2) := read_number r1 in (w, s2, skip_blank s2).

(* ------------------------------------------------------------------------------------------------ *)
(* positions, line table *)

Definition pos_of (p s : list Z) : Z := zlen p - zlen s.
Definition seek (p : list Z) (pos : Z) : list Z := skipn (Z.to_nat pos) p.

(* Program.get_line_number(pos) over Program.line_numbers given as an association list (line number, offset);
   the dictionary contains 65536 -> end of program *)
Definition get_line_number (tbl : list (Z * Z)) (pos : Z) : Z :=
  fold_left (fun pre e => if (snd e <=? pos) && (pre <? fst e) then fst e else pre) tbl (-1).

(* ------------------------------------------------------------------------------------------------ *)
(* READ and RESTORE *)

(* target of a READ: kind = tgt mod 4 (0 string, 1 integer, 2 single, 3 double); tgt / 4 distinguishes the variables
   and array elements of one kind for the assignment oracle *)
Definition is_str (tgt : Z) : bool := tgt mod 4 =? 0.

Inductive val := VStr (s : list Z) | VNum (w : list Z).   (* VNum w: the number values.from_repr(w) *)

Inductive outcome :=
| Done (v : val) (dp' : Z)                         (* variable assigned, data pointer advanced to dp' *)
| Fail (e : Z) (epos : Z) (partial : option val)   (* BASICError e raised with the program stream at epos+1 (so
                                                      e.pos = epos); data pointer unchanged; partial = the value
                                                      that was nevertheless assigned *)
| HostExc (x : Z)
| NoFuel.

Section Oracles.
  (* number conversion (C07) and variable assignment are not modelled here: *)
  Variable numok : list Z -> res unit.        (* does values.from_repr(word, allow_nonnum=False) raise? *)
  Variable setvar : Z -> val -> res unit.     (* does memory.set_variable(name, indices, value) raise? (target kind) *)

  Definition lift_unit (r : res unit) (epos : Z) (k : outcome) : outcome :=
    match r with
    | Ok _ => k
    | Err e => Fail e epos None
    | Host x => HostExc x
    | OutOfFuel => NoFuel
    end.

  (* one variable of a READ statement.  p = program byte code, cur = tell() of the READ statement,
     dp = Interpreter.data_pos, is_str tgt for a string variable, else a numeric variable *)
  Definition read_one (p : list Z) (cur dp : Z) (tgt : Z) : outcome :=
    let s := seek p dp in
    match (if at_end s then find_data (S (length s)) (-1) s else Ok (-1, s)) with
    | Ok (_, s1) =>
        match s1 with
        | c :: r =>
            if (c =? data_tk_DATA) || (c =? COMMA) then
              let r1 := skip_blank r in
              if is_str tgt then
                match str_slot r1 with
                | (Some v, s2) => lift_unit (setvar tgt (VStr v)) (cur - 1) (Done (VStr v) (pos_of p s2))
                | (None, s2) => Fail data_STX (pos_of p s2 - 1) None
                end
              else
                match num_slot r1 with
                | (w, s2, s3) =>
                    lift_unit (numok w) (pos_of p s2 - 1)
                      (lift_unit (setvar tgt (VNum w)) (cur - 1)
                         (if at_sep s3 then Done (VNum w) (pos_of p s3)
                          else Fail data_STX (pos_of p s3 - 1) (Some (VNum w))))
                end
            else Fail data_OUT_OF_DATA (cur - 1) None
        | [] => Fail data_OUT_OF_DATA (cur - 1) None
        end
    | Err e => Fail e (cur - 1) None
    | Host x => HostExc x
    | OutOfFuel => NoFuel
    end.

  (* READ v1, v2, ...: stops at the first error.  Result: outcomes in order, final data pointer *)
  Fixpoint read_vars (p : list Z) (cur dp : Z) (tgts : list Z) : list outcome * Z :=
    match tgts with
    | [] => ([], dp)
    | t :: ts =>
        match read_one p cur dp t with
        | Done v dp' => let (os, d) := read_vars p cur dp' ts in (Done v dp' :: os, d)
        | o => ([o], dp)
        end
    end.
End Oracles.

(* trap_error: outside run mode (direct mode) an error has no position (e.pos = -1) *)
Definition direct (run : bool) (o : outcome) : outcome :=
  if run then o else match o with Fail e _ part => Fail e (-1) part | _ => o end.

(* the READ statement.  run = Interpreter.run_mode, prot = Program.protected *)
Definition read_stmt (numok : list Z -> res unit) (setvar : Z -> val -> res unit) (run prot : bool)
           (p : list Z) (cur dp : Z) (tgts : list Z) : list outcome * Z :=
  if prot && negb run then ([Fail 5 (-1) None], dp)
  else let (os, dp') := read_vars numok setvar p cur dp tgts in (map (direct run) os, dp').

(* ERL for an error position (Interpreter.erl_) *)
Definition erl (tbl : list (Z * Z)) (pos : Z) : Z :=
  if pos =? 0 then 0 else if pos =? -1 then 65535 else get_line_number tbl pos.

(* RESTORE [n]: Program.line_numbers[n] or Undefined line number *)
Definition restore (tbl : list (Z * Z)) (arg : option Z) : res Z :=
  match arg with
  | None => Ok 0
  | Some n => match assocz n tbl with Some pos => Ok pos | None => Err data_UNDEFINED_LINE_NUMBER end
  end.

(* the RESTORE statement on the interpreter state: (error raised, Interpreter.data_pos afterwards); data_pos is
   assigned only when the lookup succeeded *)
Definition restore_stmt (tbl : list (Z * Z)) (dp : Z) (arg : option Z) : option Z * Z :=
  match restore tbl arg with
  | Ok d => (None, d)
  | Err e => (Some e, dp)
  | Host x => (Some (-x), dp)
  | OutOfFuel => (Some (-1), dp)
  end.

(* ------------------------------------------------------------------------------------------------ *)
(* SPECIFICATION, level 1: the DATA entries of a byte code, statement by statement (one pass, no data pointer) *)

(* One DATA entry as both kinds of READ see it *)
Record item := {
  it_line : Z;            (* number of the line holding the entry *)
  it_str : list Z;        (* the value a string variable gets *)
  it_word : list Z;       (* the text a numeric variable is converted from (values.from_repr) *)
  it_numeric : bool;      (* only blanks between that text and the end of the entry *)
  it_after : list Z;      (* the stream behind that text (where a conversion error is reported) *)
  it_rest : list Z        (* the stream where the numeric reading stops (the offending character if not numeric) *)
}.

(* how the list of entries ends *)
Inductive ending :=
| EndOfData                                         (* no further DATA statement *)
| BadEntry (line : Z) (word : list Z) (nrest srest : list Z).
   (* an entry that is malformed even as a string (text behind a closing quote); word/nrest: as it_word/it_rest,
      srest: the stream at the offending character *)

(* the entries of one DATA statement; r = the stream just after the DATA token (or after a comma).
   inl s' : the statement ends at s' *)
Fixpoint stmt_items (fuel : nat) (ln : Z) (r : list Z) : list item * (list Z + ending) :=
  match fuel with
  | O => ([], inr EndOfData)
  | S f =>
      let r1 := skip_blank r in
      match num_slot r1 with
      | (w, s2n, s3) =>
          match str_slot r1 with
          | (None, s4) => ([], inr (BadEntry ln w s3 s4))
          | (Some v, s2) =>
              let it := {| it_line := ln; it_str := v; it_word := w; it_numeric := at_sep s3;
                           it_after := s2n; it_rest := s3 |} in
              match s2 with
              | c :: r' =>
                  if c =? COMMA then let (its, e) := stmt_items f ln r' in (it :: its, e)
                  else ([it], inl s2)
              | [] => ([it], inl [])
              end
          end
      end
  end.

(* all entries that can be reached from stream position s (in line ln) *)
Fixpoint items_at (fuel : nat) (ln : Z) (s : list Z) : list item * ending :=
  match fuel with
  | O => ([], EndOfData)
  | S f =>
      match (if at_end s then find_data (S (length s)) ln s else Ok (ln, s)) with
      | Ok (ln', c :: r) =>
          if (c =? data_tk_DATA) || (c =? COMMA) then
            match stmt_items (S (length r)) ln' r with
            | (its, inl s') => let (more, e) := items_at f ln' s' in (its ++ more, e)
            | (its, inr e) => (its, e)
            end
          else ([], EndOfData)
      | _ => ([], EndOfData)
      end
  end.

(* the DATA entries of a program in the order of its lines and statements *)
Definition data_items (p : list Z) : list item * ending := items_at (S (length p)) (-1) p.

(* the entries in front of the data pointer dp (ln = number of the line dp is in; irrelevant at a line start) *)
Definition data_ahead (p : list Z) (dp ln : Z) : list item * ending :=
  items_at (S (length (seek p dp))) ln (seek p dp).

(* what a READ into a variable of kind tgt gets from an entry *)
Definition value_for (tgt : Z) (it : item) : val := if is_str tgt then VStr (it_str it) else VNum (it_word it).
Definition readable (tgt : Z) (it : item) : bool := is_str tgt || it_numeric it.
Definition outcome_value (o : outcome) : option val := match o with Done v _ => Some v | _ => None end.

(* ------------------------------------------------------------------------------------------------ *)
(* SPECIFICATION, level 2: the byte format  00 | link(2) | num(2) | statements separated by ':' ... | 00 00 00  *)

Inductive lexeme :=
| LCh (c : Z)                   (* a plain byte *)
| LTok (c : Z) (pl : list Z)    (* a token with payload bytes (numbers, line numbers, FF/FE/FD keywords) *)
| LStr (body : list Z).         (* quoted literal: QUOTE body QUOTE *)

(* what may end the last statement of a line *)
Inductive tail := TNone | TRem (text : list Z) | TOpen (text : list Z).   (* REM text / QUOTE text without closing quote *)

Inductive entry :=
| EPlain (pre w post : list Z)             (* blanks text blanks *)
| EQuoted (pre body post : list Z)         (* blanks QUOTE body QUOTE blanks *)
| EMixed (pre w body post : list Z)        (* blanks text QUOTE body QUOTE blanks *)
| EOpen (pre body : list Z)                (* blanks QUOTE body   up to the end of the line *)
| EMixedOpen (pre w body : list Z).        (* blanks text QUOTE body   up to the end of the line *)

Inductive stmt :=
| SOther (ls : list lexeme) (t : tail)
| SData (sp : list Z) (es : list entry).   (* blanks DATA entry,entry,... *)

Record line := { l_link : Z * Z; l_lo : Z; l_hi : Z; l_stmts : list stmt }.
Definition l_num (l : line) : Z := l_lo l + 256 * l_hi l.

Definition enc_lex (l : lexeme) : list Z :=
  match l with LCh c => [c] | LTok c pl => c :: pl | LStr b => QUOTE :: b ++ [QUOTE] end.
Definition enc_tail (t : tail) : list Z :=
  match t with TNone => [] | TRem x => data_tk_REM :: x | TOpen x => QUOTE :: x end.
Definition enc_entry (e : entry) : list Z :=
  match e with
  | EPlain pre w post => pre ++ w ++ post
  | EQuoted pre b post => pre ++ QUOTE :: b ++ QUOTE :: post
  | EMixed pre w b post => pre ++ w ++ QUOTE :: b ++ QUOTE :: post
  | EOpen pre b => pre ++ QUOTE :: b
  | EMixedOpen pre w b => pre ++ w ++ QUOTE :: b
  end.
Definition entry_open (e : entry) : bool :=
  match e with EOpen _ _ | EMixedOpen _ _ _ => true | _ => false end.
Fixpoint join (sep : Z) (l : list (list Z)) : list Z :=
  match l with
  | [] => []
  | [x] => x
  | x :: r => x ++ sep :: join sep r
  end.
Definition enc_stmt (st : stmt) : list Z :=
  match st with
  | SOther ls t => flat_map enc_lex ls ++ enc_tail t
  | SData sp es => sp ++ data_tk_DATA :: join COMMA (map enc_entry es)
  end.
Definition enc_body (l : line) : list Z := join 58 (map enc_stmt (l_stmts l)).
Definition enc_line (l : line) : list Z :=
  0 :: fst (l_link l) :: snd (l_link l) :: l_lo l :: l_hi l :: enc_body l.
(* trailer: what may follow the end marker in memory (e.g. the 1A of a loaded file) *)
Definition enc_prog (ls : list line) (trailer : list Z) : list Z :=
  flat_map enc_line ls ++ [0; 0; 0] ++ trailer.

(* well-formedness *)
Definition special (c : Z) : bool := memz c [COMMA; QUOTE; 0; 58].
Definition all_blank (l : list Z) : bool := forallb is_blank l.
Definition no_special (l : list Z) : bool := forallb (fun c => negb (special c)) l.
Definition str_body_ok (l : list Z) : bool := forallb (fun c => negb (c =? QUOTE) && negb (c =? 0)) l.
Definition ends_nonblank (w : list Z) : bool :=
  match w with [] => true | c :: _ => negb (is_blank c) && negb (is_blank (last w 0)) end.

Definition lex_ok (l : lexeme) : bool :=
  match l with
  | LCh c => negb (c =? 0) && negb (c =? 58) && negb (c =? QUOTE) && negb (c =? data_tk_REM)
             && Nat.eqb (plus_bytes c) 0
  | LTok c pl => negb (c =? 0) && negb (c =? 58) && negb (c =? QUOTE) && negb (c =? data_tk_REM)
                 && negb (is_blank c) && Nat.eqb (length pl) (plus_bytes c)
  | LStr b => str_body_ok b
  end.
Definition tail_ok (t : tail) : bool :=
  match t with
  | TNone => true
  | TRem x => forallb (fun c => negb (c =? 0)) x
  | TOpen x => str_body_ok x
  end.
Definition entry_ok (e : entry) : bool :=
  match e with
  | EPlain pre w post => all_blank pre && all_blank post && no_special w && ends_nonblank w
  | EQuoted pre b post => all_blank pre && all_blank post && str_body_ok b
  | EMixed pre w b post =>
      all_blank pre && all_blank post && no_special w && str_body_ok b
      && match w with [] => false | c :: _ => negb (is_blank c) end
  | EOpen pre b => all_blank pre && str_body_ok b
  | EMixedOpen pre w b =>
      all_blank pre && no_special w && str_body_ok b
      && match w with [] => false | c :: _ => negb (is_blank c) end
  end.
(* only the last entry of the last statement of a line can have an unclosed quote *)
Fixpoint entries_ok (last : bool) (es : list entry) : bool :=
  match es with
  | [] => false
  | [e] => entry_ok e && (negb (entry_open e) || last)
  | e :: r => entry_ok e && negb (entry_open e) && entries_ok last r
  end.
(* a statement that is not DATA does not start (after blanks) with the DATA token; only the last statement of a line
   may end in REM or in an unclosed string; DATA entries hold no NUL *)
Definition stmt_ok (last : bool) (st : stmt) : bool :=
  match st with
  | SOther ls t =>
      forallb lex_ok ls && tail_ok t && (match t with TNone => true | _ => last end)
      && match skip_blank (enc_stmt st) with c :: _ => negb (c =? data_tk_DATA) | [] => true end
  | SData sp es => all_blank sp && entries_ok last es
  end.
Fixpoint stmts_ok (sts : list stmt) : bool :=
  match sts with
  | [] => false
  | [st] => stmt_ok true st
  | st :: r => stmt_ok false st && stmts_ok r
  end.
Definition line_ok (l : line) : bool :=
  negb ((fst (l_link l) =? 0) && (snd (l_link l) =? 0)) && stmts_ok (l_stmts l)
  && (0 <=? l_lo l) && (l_lo l <? 256) && (0 <=? l_hi l) && (l_hi l <? 256).

Definition entry_value (e : entry) : list Z :=
  match e with
  | EPlain _ w _ => w
  | EQuoted _ b _ => b
  | EMixed _ w b _ => w ++ QUOTE :: b ++ [QUOTE]
  | EOpen _ b => b
  | EMixedOpen _ w b => w ++ QUOTE :: b
  end.
Definition stmt_entries (st : stmt) : list entry := match st with SData _ es => es | SOther _ _ => [] end.
(* the DATA entries of a program with the number of their line, in line and statement order *)
Definition line_entries (l : line) : list (Z * entry) :=
  map (fun e => (l_num l, e)) (flat_map stmt_entries (l_stmts l)).
Definition prog_entries (ls : list line) : list (Z * entry) := flat_map line_entries ls.

(* line l with an empty statement (nothing or blanks bl between two colons / at the line start / behind a last colon)
   inserted in front of its statement number i *)
Definition with_empty (l : line) (i : nat) (bl : list Z) : line :=
  {| l_link := l_link l; l_lo := l_lo l; l_hi := l_hi l;
     l_stmts := firstn i (l_stmts l) ++ SOther (map LCh bl) TNone :: skipn i (l_stmts l) |}.

(* how an entry reads as a number: decimal digit strings and empty entries are numeric, entries that do not start
   like a number (and entries with quotes) are not; other forms: as the scanner defines (it_word, it_numeric) *)
Definition all_digits (w : list Z) : bool := forallb (fun c => memz c data_DIGITS) w.
Definition number_start (c : Z) : bool := memz c data_DIGITS || memz c [46; 43; 45; 38].
Definition num_view (e : entry) (it : item) : Prop :=
  match e with
  | EPlain _ w _ =>
      (w = [] -> it_word it = [] /\ it_numeric it = true) /\
      (w <> [] -> all_digits w = true -> it_word it = w /\ it_numeric it = true) /\
      (forall c r, w = c :: r -> number_start c = false -> it_word it = [] /\ it_numeric it = false)
  | _ => it_numeric it = false
  end.
Definition item_rel (ne : Z * entry) (it : item) : Prop :=
  it_line it = fst ne /\ it_str it = entry_value (snd ne) /\ num_view (snd ne) it.

(* Program.line_numbers of an encoded program: line number -> offset of the line, 65536 -> offset of the end marker *)
Fixpoint table_of (ls : list line) (start : Z) : list (Z * Z) :=
  match ls with
  | [] => [(65536, start)]
  | l :: r => (l_num l, start) :: table_of r (start + zlen (enc_line l))
  end.
Fixpoint ascending (prev : Z) (ls : list line) : bool :=
  match ls with
  | [] => true
  | l :: r => (prev <? l_num l) && ascending (l_num l) r
  end.

(* ------------------------------------------------------------------------------------------------ *)
(* encoders for the correspondence harness (harness/C22.py) *)

Fixpoint lz_eqb (a b : list Z) : bool :=
  match a, b with
  | [], [] => true
  | x :: a', y :: b' => (x =? y) && lz_eqb a' b'
  | _, _ => false
  end.

(* oracle answers recorded from the implementation: only the failures are listed, (key, word, class, number) *)
Fixpoint tbl_oracle (t : list (Z * list Z * Z * Z)) (k : Z) (w : list Z) : res unit :=
  match t with
  | [] => Ok tt
  | (k', w', cls, n) :: r =>
      if (k =? k') && lz_eqb w w' then (if cls =? 1 then Err n else Host n) else tbl_oracle r k w
  end.
Definition val_bytes (v : val) : list Z := match v with VStr s => s | VNum w => w end.

Definition enc_val (v : val) : list Z :=
  match v with VStr s => 0 :: zlen s :: s | VNum w => 1 :: zlen w :: w end.

Definition enc_outcome (tbl : list (Z * Z)) (o : outcome) : list Z :=
  match o with
  | Done v dp' => 0 :: enc_val v ++ [dp']
  | Fail e epos partial =>
      1 :: e :: erl tbl epos :: match partial with Some v => 1 :: enc_val v | None => [0] end
  | HostExc x => [2; x]
  | NoFuel => [3]
  end.

Inductive op :=
| OpRead (run : bool) (cur : Z) (tgts : list Z)
| OpRestore (run : bool) (cur : Z) (arg : option Z)
| OpRun.

Fixpoint run_ops (prot : bool) (numfail setfail : list (Z * list Z * Z * Z)) (p : list Z) (tbl : list (Z * Z))
         (dp : Z) (ops : list op) : list Z :=
  match ops with
  | [] => []
  | OpRead run cur tgts :: r =>
      let (os, dp') := read_stmt (tbl_oracle numfail 0) (fun t v => tbl_oracle setfail t (val_bytes v))
                                 run prot p cur dp tgts in
      (zlen os :: flat_map (enc_outcome tbl) os) ++ [dp'] ++ run_ops prot numfail setfail p tbl dp' r
  | OpRestore run cur arg :: r =>
      match restore_stmt tbl dp arg with
      | (None, d) => [0; d] ++ run_ops prot numfail setfail p tbl d r
      | (Some e, d) => [1; e; erl tbl (if run then cur - 1 else -1); d] ++ run_ops prot numfail setfail p tbl d r
      end
  | OpRun :: r => [0; 0] ++ run_ops prot numfail setfail p tbl 0 r
  end.
