(* C40: CRC-32 (reflected polynomial 0xEDB88320, init/xorout 0xFFFFFFFF) on byte lists, table driven,
   as zlib.crc32(blob) & 0xffffffff computes it.  Tied to zlib by correspondence (harness/C40.py). *)
From Coq Require Import ZArith List Bool.
From PCB Require Import lib.PyInt.
Import ListNotations.
Open Scope Z_scope.

Definition crc_poly : Z := 3988292384.        (* 0xEDB88320 *)
Definition crc_mask : Z := 4294967295.        (* 0xFFFFFFFF *)

(* one bit of the table construction: c = (c >> 1) ^ poly if c & 1 else c >> 1 *)
Definition crc_bit (c : Z) : Z :=
  if Z.odd c then Z.lxor (Z.shiftr c 1) crc_poly else Z.shiftr c 1.

Definition crc_entry (n : Z) : Z :=
  crc_bit (crc_bit (crc_bit (crc_bit (crc_bit (crc_bit (crc_bit (crc_bit n))))))).

(* the 256-entry table, computed once *)
Definition crc_table : list Z :=
  Eval vm_compute in map (fun n => crc_entry (Z.of_nat n)) (seq 0 256).

Definition crc_T (i : Z) : Z := nth (Z.to_nat i) crc_table 0.

(* c = table[(c ^ b) & 0xff] ^ (c >> 8) *)
Definition crc_step (c b : Z) : Z :=
  Z.lxor (crc_T (Z.land (Z.lxor c b) 255)) (Z.shiftr c 8).

Definition crc_run (c : Z) (l : list Z) : Z := fold_left crc_step l c.

Definition crc32 (l : list Z) : Z := Z.lxor (crc_run crc_mask l) crc_mask.

(* replace the byte at index i (no effect when i is out of range) *)
Fixpoint set_nth (i : nat) (b : Z) (l : list Z) : list Z :=
  match l with
  | [] => []
  | x :: r => match i with O => b :: r | S i' => x :: set_nth i' b r end
  end.
