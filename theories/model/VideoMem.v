(* C34: video memory (display/framebuffer.py memory mappers + the video branch of machine.Memory) on top of
   the regenerated address arithmetic, walk and mode table of gen/Gen_vmem.v.

   Screen contents are total functions (no proofs in this file):
     screen : page -> y -> x -> attribute byte          (VideoBuffer pixels of display.pages[page])
     cells  : page -> row -> col -> byte                (0-based; characters resp. attributes of a text page)
   A bytearray under construction is a function index -> byte; it is cut to a list at the end.

   base/bytematrix.py pack_bytes / unpack_bytes (hand model):
     pack_byte ipb f   = sum_k ((f k) & mask) << (8 - bpp - k*bpp),  bpp = 8 // ipb, mask = 2^bpp - 1
     unpack_byte ipb b k = (b >> (8 - bpp - k*bpp)) & mask                                                   *)
From Coq Require Import ZArith List Bool.
From PCB Require Import lib.Result lib.PyInt gen.Gen_vmem.
Import ListNotations.
Open Scope Z_scope.

Definition screen := Z -> Z -> Z -> Z.
Definition cells := Z -> Z -> Z -> Z.
Definition span := (Z * Z * Z * Z * Z)%type.      (* page, x, y, ofs, length as yielded by _walk_memory *)

Definition zseq (lo n : Z) : list Z := map (fun k => lo + Z.of_nat k) (seq 0 (Z.to_nat n)).
Definition nthZ (l : list Z) (i : Z) : Z := nth (Z.to_nat i) l 0.
Definition zsum (l : list Z) : Z := fold_right Z.add 0 l.

(* ---- pixel packing *)
Definition pk_bpp (ipb : Z) : Z := 8 / ipb.
Definition pk_mask (ipb : Z) : Z := 2 ^ (pk_bpp ipb) - 1.
Definition pk_shift (ipb k : Z) : Z := 8 - pk_bpp ipb - k * pk_bpp ipb.
Definition pack_byte (ipb : Z) (f : Z -> Z) : Z :=
  let bpp := pk_bpp ipb in
  let mask := pk_mask ipb in
  zsum (map (fun k => Z.shiftl (Z.land (f k) mask) (8 - bpp - k * bpp)) (zseq 0 ipb)).
Definition unpack_byte (ipb b k : Z) : Z := Z.land (Z.shiftr b (pk_shift ipb k)) (pk_mask ipb).

(* ---- bytearray slice assignment  acc[ofs:ofs+len] = [g 0 .. g (len-1)]  and
        acc[first+2*ofs : first+2*(ofs+len) : 2] = [g 0 .. g (len-1)] *)
Definition put_run (acc : Z -> Z) (ofs len : Z) (g : Z -> Z) : Z -> Z :=
  fun i => if (ofs <=? i) && (i <? ofs + len) then g (i - ofs) else acc i.
Definition put_run2 (acc : Z -> Z) (first ofs len : Z) (g : Z -> Z) : Z -> Z :=
  fun i => if (first + 2 * ofs <=? i) && (i <? first + 2 * (ofs + len)) && ((i - first) mod 2 =? 0)
           then g ((i - first) / 2 - ofs) else acc i.

(* ---- pixels[y, x:x+width] = row, where pixel number i of the row is  newpix i (old value) *)
Definition set_run (s : screen) (page y x width : Z) (newpix : Z -> Z -> Z) : screen :=
  fun p' y' x' =>
    if (p' =? page) && (y' =? y) && (x <=? x') && (x' <? x + width)
    then newpix (x' - x) (s p' y' x') else s p' y' x'.

(* ---- _walk_memory: the regenerated generator, as the list of spans it yields *)
Definition walk (m : vmode) (addr n factor : Z) : list span :=
  match vmem_walk_memory m addr n factor with Ok l => l | _ => [] end.

(* ---- CGAMemoryMapper *)
Definition cga_rd (m : vmode) (s : screen) (page y x : Z) : Z :=
  pack_byte (vm_ppb m) (fun k => s page y (x + k)).
Definition cga_wr (m : vmode) (b i old : Z) : Z := unpack_byte (vm_ppb m) b i.

Definition get_spans (rd : Z -> Z -> Z -> Z) (peff : Z) (spans : list span) (acc0 : Z -> Z) : Z -> Z :=
  fold_left (fun acc (sp : span) => let '(page, x, y, ofs, len) := sp in
               put_run acc ofs len (fun j => rd page y (x + j * peff))) spans acc0.

(* bidx: index in the block of the byte that holds item number t of the walk *)
Definition set_spans (wr : Z -> Z -> Z -> Z) (peff : Z) (bidx : Z -> Z) (bs : list Z)
           (spans : list span) (s0 : screen) : screen :=
  fold_left (fun s (sp : span) => let '(page, x, y, ofs, len) := sp in
               set_run s page y x (len * peff)
                       (fun i old => wr (nthZ bs (bidx (ofs + i / peff))) (i mod peff) old)) spans s0.

Definition cga_get_fn (m : vmode) (s : screen) (addr n : Z) : Z -> Z :=
  get_spans (cga_rd m s) (vm_ppb m) (walk m addr n 1) (fun _ => 0).
Definition cga_set (m : vmode) (s : screen) (addr : Z) (bs : list Z) : screen :=
  set_spans (cga_wr m) (vm_ppb m) (fun t => t) bs (walk m addr (zlen bs) 1) s.

(* ---- EGAMemoryMapper: plane register (read), plane mask register (write) *)
Definition list_max (l : list Z) : Z := fold_right Z.max 0 l.
Definition memZ (x : Z) (l : list Z) : bool := existsb (Z.eqb x) l.
(* plane = self._plane % (max(self._planes_used) + 1) *)
Definition ega_plane (m : vmode) (plane_reg : Z) : Z := plane_reg mod (list_max (vm_planes_used m) + 1).
Definition ega_rd (plane : Z) (s : screen) (page y x : Z) : Z :=
  pack_byte 8 (fun k => Z.shiftr (s page y (x + k)) plane).
(* mask = self._plane_mask & self._master_plane_mask *)
Definition ega_mask (m : vmode) (mask_reg : Z) : Z := Z.land mask_reg (vm_master_mask m).
(* frompacked(..).render(0, mask) & mask | pixels & ~mask *)
Definition ega_wr (mask : Z) (b i old : Z) : Z :=
  Z.lor (Z.land (if z2b (unpack_byte 8 b i) then mask else 0) mask) (Z.land old (Z.lnot mask)).

Definition ega_get_fn (m : vmode) (s : screen) (plane_reg addr n : Z) : Z -> Z :=
  let plane := ega_plane m plane_reg in
  if memZ plane (vm_planes_used m)
  then get_spans (ega_rd plane s) 8 (walk m addr n 1) (fun _ => 0)
  else (fun _ => 0).
Definition ega_set (m : vmode) (s : screen) (mask_reg addr : Z) (bs : list Z) : screen :=
  let mask := ega_mask m mask_reg in
  if mask =? 0 then s
  else set_spans (ega_wr mask) 8 (fun t => t) bs (walk m addr (zlen bs) 1) s.

(* ---- Tandy6MemoryMapper: plane 0 in even addresses, plane 1 in odd addresses *)
Definition tandy_rd (plane : Z) (s : screen) (page y x : Z) : Z :=
  pack_byte 8 (fun k => Z.shiftr (s page y (x + k)) plane).
Definition tandy_wr (plane : Z) (b i old : Z) : Z :=
  let mask := 2 ^ plane in
  Z.lor (Z.land (Z.shiftl (unpack_byte 8 b i) plane) mask) (Z.land old (Z.lnot mask)).

Definition tandy_get_plane (m : vmode) (s : screen) (addr n plane : Z) (acc0 : Z -> Z) : Z -> Z :=
  let first := vmem_tandy6_first plane addr in
  let half_len := vmem_tandy6_half_len n first in
  fold_left (fun acc (sp : span) => let '(page, x, y, ofs, len) := sp in
               put_run2 acc first ofs len (fun j => tandy_rd plane s page y (x + j * 8)))
            (walk m (addr + first) half_len 2) acc0.
Definition tandy_get_fn (m : vmode) (s : screen) (addr n : Z) : Z -> Z :=
  tandy_get_plane m s addr n 1 (tandy_get_plane m s addr n 0 (fun _ => 0)).

(* half = byte_array[first::2] *)
Definition tandy_half_len (n first : Z) : Z := if n <? first then 0 else (n - first + 1) / 2.
Definition tandy_set_plane (m : vmode) (s : screen) (addr : Z) (bs : list Z) (plane : Z) : screen :=
  let first := vmem_tandy6_set_first plane addr in
  set_spans (tandy_wr plane) 8 (fun t => first + 2 * t) bs
            (walk m (addr + first) (tandy_half_len (zlen bs) first) 2) s.
Definition tandy_set (m : vmode) (s : screen) (addr : Z) (bs : list Z) : screen :=
  tandy_set_plane m (tandy_set_plane m s addr bs 0) addr bs 1.

(* ---- TextMemoryMapper: one byte at relative address rel = addr - segment*16 + i *)
(* display.pages[page] and the row exist (otherwise IndexError, which is swallowed) *)
Definition text_cell_ok (m : vmode) (page row : Z) : bool :=
  (page <? vmem_num_pages m) && (row <? vm_height m).
Definition text_get1 (m : vmode) (ch at_ : cells) (rel i : Z) : Z :=
  let '(page, offset) := vmem_text_get_split m rel i in
  if vmem_text_get_skip page then 0 else
  let '(row, col) := vmem_text_get_cell m offset in
  if text_cell_ok m page row
  then (if z2b ((rel + i) mod 2) then at_ page row col else ch page row col)
  else 0.
Definition upd (c : cells) (page row col v : Z) : cells :=
  fun p r k => if (p =? page) && (r =? row) && (k =? col) then v else c p r k.
Definition text_set1 (m : vmode) (ca : cells * cells) (rel i b : Z) : cells * cells :=
  let '(ch, at_) := ca in
  let '(page, offset) := vmem_text_set_split m rel i in
  if vmem_text_set_skip page then ca else
  let '(row, col) := vmem_text_set_cell m offset in
  if text_cell_ok m page row
  then (if z2b ((rel + i) mod 2) then (ch, upd at_ page row col b) else (upd ch page row col b, at_))
  else ca.
Definition text_get (m : vmode) (ch at_ : cells) (addr n : Z) : list Z :=
  map (text_get1 m ch at_ (addr - vm_seg m * 16)) (zseq 0 n).
Fixpoint text_set_from (m : vmode) (ca : cells * cells) (rel i : Z) (bs : list Z) : cells * cells :=
  match bs with
  | [] => ca
  | b :: r => text_set_from m (text_set1 m ca rel i b) rel (i + 1) r
  end.
Definition text_set (m : vmode) (ca : cells * cells) (addr : Z) (bs : list Z) : cells * cells :=
  text_set_from m ca (addr - vm_seg m * 16) 0 bs.

(* ---- the display state seen by the memory mappers *)
Record vstate : Type := mk_vstate {
  vs_px : screen; vs_ch : cells; vs_at : cells;
  vs_plane : Z;      (* EGA read plane register (OUT &h3CF) *)
  vs_mask : Z        (* EGA write plane mask register (OUT &h3C5) *)
}.

(* memorymap.get_memory(display, addr, n) / set_memory(display, addr, bytes) by mapper class *)
Definition get_memory (m : vmode) (st : vstate) (addr n : Z) : list Z :=
  if vm_kind m =? 0 then map (cga_get_fn m (vs_px st) addr n) (zseq 0 n)
  else if vm_kind m =? 1 then map (ega_get_fn m (vs_px st) (vs_plane st) addr n) (zseq 0 n)
  else if vm_kind m =? 2 then map (tandy_get_fn m (vs_px st) addr n) (zseq 0 n)
  else text_get m (vs_ch st) (vs_at st) addr n.

Definition with_px (st : vstate) (s : screen) : vstate :=
  mk_vstate s (vs_ch st) (vs_at st) (vs_plane st) (vs_mask st).
Definition set_memory (m : vmode) (st : vstate) (addr : Z) (bs : list Z) : vstate :=
  if vm_kind m =? 0 then with_px st (cga_set m (vs_px st) addr bs)
  else if vm_kind m =? 1 then with_px st (ega_set m (vs_px st) (vs_mask st) addr bs)
  else if vm_kind m =? 2 then with_px st (tandy_set m (vs_px st) addr bs)
  else let '(ch, at_) := text_set m (vs_ch st, vs_at st) addr bs in
       mk_vstate (vs_px st) ch at_ (vs_plane st) (vs_mask st).

(* ---- machine.Memory: video branch of _get_memory/_set_memory and of the block functions
   (addresses in [video_segment*16, video_segment*16 + 0x20000)) *)
Definition in_video (addr : Z) : bool :=
  (vmem_video_segment * 16 <=? addr) && (addr <? vmem_video_segment * 16 + 131072).
Definition peek (m : vmode) (st : vstate) (addr : Z) : Z := Z.max 0 (hd 0 (get_memory m st addr 1)).
Definition poke (m : vmode) (st : vstate) (addr b : Z) : vstate := set_memory m st addr [b].
(* _get_memory_block / _set_memory_block: the video part of the block (the rest, if any, is not video memory) *)
Definition get_block (m : vmode) (st : vstate) (addr len : Z) : list Z :=
  get_memory m st addr (Z.min len (vmem_get_video_len addr)).
Definition set_block (m : vmode) (st : vstate) (addr : Z) (bs : list Z) : vstate :=
  set_memory m st addr (firstn (Z.to_nat (vmem_set_video_len addr)) bs).

(* ---- bytewise references *)
Definition peeks (m : vmode) (st : vstate) (addr n : Z) : list Z := map (fun i => peek m st (addr + i)) (zseq 0 n).
Fixpoint pokes (m : vmode) (st : vstate) (addr : Z) (bs : list Z) : vstate :=
  match bs with
  | [] => st
  | b :: r => pokes m (poke m st addr b) (addr + 1) r
  end.

(* ---- the BSAVE / BLOAD statements (machine.Memory.bsave_ / bload_): a memory image file records the segment
   (DEF SEG) and offset it was saved from; BLOAD "f",offset loads at the recorded segment and the given offset,
   BLOAD "f" at the recorded segment and offset (the regenerated vmem_bload_glue / vmem_bload_addr) *)
Record mfile : Type := mk_mfile { mf_seg : Z; mf_off : Z; mf_data : list Z }.
Definition bsave_stmt (m : vmode) (st : vstate) (seg off n : Z) : mfile :=
  mk_mfile seg off (get_block m st (seg * 16 + off) n).
Definition bload_target (hseg hoff : Z) (o : option Z) : Z :=
  let '(seg, offset) :=
    vmem_bload_glue hseg hoff (match o with Some x => x | None => 0 end)
                    (match o with Some _ => false | None => true end) in
  vmem_bload_addr seg offset.
Definition bload_stmt (m : vmode) (st : vstate) (f : mfile) (o : option Z) : vstate :=
  set_block m st (bload_target (mf_seg f) (mf_off f) o) (mf_data f).

(* ---- harness driver: a session is a list of operations on an initial state given by formulas *)
Inductive vop : Type :=
| OpPeek (addr : Z)
| OpPoke (addr b : Z)
| OpBsave (seg off n : Z)                               (* the file is kept, see OpBloadFile *)
| OpBload (hseg hoff : Z) (o : option Z) (bs : list Z)  (* a file with header (hseg, hoff) written by the harness *)
| OpBloadGen (hseg hoff : Z) (o : option Z) (seed n : Z)  (* generated data, see gen_bytes *)
| OpBloadFile (idx : Z) (o : option Z)                  (* the file of the idx-th BSAVE of the session *)
| OpPage (apage : Z)                   (* SCREEN ,,apage,vpage: graphics statements work on the active page *)
| OpPcopy (src dst : Z)                (* PCOPY src,dst *)
| OpPset (x y c : Z)                   (* PSET (x,y),c on the active page, c an attribute of the mode *)
| OpHline (x0 x1 y c : Z)              (* LINE (x0,y)-(x1,y),c with x0 <= x1 *)
| OpPoint (x y : Z)                    (* POINT(x,y) inside the screen *)
| OpPlane (v : Z)                      (* OUT &h3CF, v *)
| OpMask (v : Z).                      (* OUT &h3C5, v *)

(* the harness fills the buffers of the real session with the same formulas *)
Definition scramble (i : Z) : Z := ((i * i * 73 + i * 41 + 11) / 4) mod 256.
Definition init_fn (seed : Z) : Z -> Z -> Z -> Z := fun p a b => scramble ((b + 3 * a + 7 * p + seed) mod 256).
Definition init_px (seed range : Z) : screen := fun p y x => init_fn seed p y x mod range.
Definition init_ch (seed : Z) : cells := init_fn (seed + 1).
Definition init_at (seed : Z) : cells := init_fn (seed + 2).
Definition init_state (seed range : Z) : vstate :=
  mk_vstate (init_px seed range) (init_ch seed) (init_at seed) 0 255.
Definition gen_bytes (seed n : Z) : list Z := map (fun i => scramble ((i * 5 + i / 7 + seed) mod 256)) (zseq 0 n).

Definition hash_bytes (l : list Z) : Z := fold_left (fun h b => (h * 257 + b + 1) mod 1000003) l 7.
(* small blocks are reported in full, large ones by length and hash *)
Definition report (l : list Z) : list Z := if zlen l <=? 48 then l else [zlen l; hash_bytes l].

(* ---- the graphics statements and PCOPY act on the same page buffers the memory mappers address *)
Definition draw_run (st : vstate) (page y x w c : Z) : vstate :=
  with_px st (set_run (vs_px st) page y x w (fun _ _ => c)).
Definition copy_page (c : Z -> Z -> Z -> Z) (src dst : Z) : Z -> Z -> Z -> Z :=
  fun p a b => c (if p =? dst then src else p) a b.
Definition pcopy (st : vstate) (src dst : Z) : vstate :=
  mk_vstate (copy_page (vs_px st) src dst) (copy_page (vs_ch st) src dst) (copy_page (vs_at st) src dst)
            (vs_plane st) (vs_mask st).

(* POKE checks its value (error.range_check(0, 255, val)): Illegal function call; the session stops there.
   result: state, output, false if stopped by an error *)
Fixpoint run_ops (m : vmode) (st : vstate) (ap : Z) (files : list mfile) (ops : list vop)
  : vstate * list Z * bool :=
  match ops with
  | [] => (st, [], true)
  | op :: r =>
      match op with
      | OpPoke a b =>
          if (b <? 0) || (255 <? b) then (st, [-1; 5], false)
          else run_ops m (poke m st a b) ap files r
      | OpPeek a => let '(st2, out2, ok) := run_ops m st ap files r in (st2, peek m st a :: out2, ok)
      | OpBsave seg off n =>
          let f := bsave_stmt m st seg off n in
          let '(st2, out2, ok) := run_ops m st ap (files ++ [f]) r in (st2, report (mf_data f) ++ out2, ok)
      | OpBload hseg hoff o bs => run_ops m (bload_stmt m st (mk_mfile hseg hoff bs) o) ap files r
      | OpBloadGen hseg hoff o seed n =>
          run_ops m (bload_stmt m st (mk_mfile hseg hoff (gen_bytes seed n)) o) ap files r
      | OpBloadFile idx o =>
          run_ops m (bload_stmt m st (nth (Z.to_nat idx) files (mk_mfile 0 0 [])) o) ap files r
      | OpPage a => run_ops m st a files r
      | OpPcopy src dst => run_ops m (pcopy st src dst) ap files r
      | OpPset x y c => run_ops m (draw_run st ap y x 1 c) ap files r
      | OpHline x0 x1 y c => run_ops m (draw_run st ap y x0 (x1 - x0 + 1) c) ap files r
      | OpPoint x y => let '(st2, out2, ok) := run_ops m st ap files r in (st2, vs_px st ap y x :: out2, ok)
      | OpPlane v => run_ops m (mk_vstate (vs_px st) (vs_ch st) (vs_at st) v (vs_mask st)) ap files r
      | OpMask v => run_ops m (mk_vstate (vs_px st) (vs_ch st) (vs_at st) (vs_plane st) v) ap files r
      end
  end.

(* final observation: pixels at (page, y, x) probes resp. (char, attribute) at (page, row, col) probes
   (not after an error: the message is printed over the screen) *)
Definition probe (m : vmode) (st : vstate) (pr : Z * Z * Z) : list Z :=
  let '(p, a, b) := pr in
  if vm_kind m =? 3 then [vs_ch st p a b; vs_at st p a b] else [vs_px st p a b].
Definition run_case (m : vmode) (seed range : Z) (ops : list vop) (probes : list (Z * Z * Z)) : list Z :=
  let '(st, out, ok) := run_ops m (init_state seed range) 0 [] ops in
  if ok then out ++ flat_map (probe m st) probes else out.
