(* C17: the class of canonical token lines ("Lines") for which listing and re-entering is the identity.
   A line body is a sequence of lexical items; every item carries side conditions that look at
     - the tokeniser state it is met in (allow_jumpnum, allow_number, spc_or_tab),
     - the text listed so far (rout, reversed) - only for the lister's space-before rule,
     - the first token byte and the text of what follows - the lister's space-after rule and the
       look-ahead of the tokeniser's readers.
   Definitions only (no proofs). *)
From Coq Require Import ZArith List Bool.
From PCB Require Import lib.Result lib.PyInt lib.Harness gen.Gen_tokens model.Tok model.Lister.
Import ListNotations.
Open Scope Z_scope.

Inductive numlit :=
| NInt (v : Z)                                  (* 0..32767: one-byte constant, byte or 2-byte int token *)
| NHex (v : Z)                                  (* &H.. *)
| NOct (v : Z)                                  (* &O.. *)
| NFloat (lead : Z) (trail txt : list Z).       (* single/double token and its listed text *)

Inductive item :=
| ISpace
| IPunct (c : Z)                                (* printable ASCII that the tokeniser copies *)
| IOp (c : Z)                                   (* + - = / \ ^ * < > *)
| IKw (k : list Z)                              (* keyword word (not REM DATA ELSE WHILE) *)
| IName (n : list Z)                            (* variable name / non-keyword word *)
| INum (x : numlit)
| IJump (n : Z)                                 (* line number after GOTO, THEN, ... *)
| IStr (body : list Z) (closed : bool)
| IElse                                         (* stored as :ELSE *)
| IWhile                                        (* stored as WHILE+ *)
| IRem (tail : list Z)                          (* REM and the rest of the line *)
| IQuote (tail : list Z)                        (* ' stored as :REM' and the rest of the line *)
| IData (tail : list Z).                        (* DATA up to the end of the statement *)

(* tokeniser state *)
Definition tstate := (bool * bool * bool)%type.     (* allow_jumpnum, allow_number, spc_or_tab *)
Definition st_aj (s : tstate) := fst (fst s).
Definition st_an (s : tstate) := snd (fst s).
Definition st_sot (s : tstate) := snd s.

(* 2-byte little endian unsigned; float texts *)
Definition float_start (c : Z) : bool := is_digit c || (c =? 46).

(* listed float text: digits [. digits] [E|D sign digits] [!|#] with at least one non-digit character;
   the automaton follows CodeStream._read_dec *)
Fixpoint shape (he hp : bool) (last : Z) (w : list Z) : bool :=
  match w with
  | [] => true
  | c :: r =>
      if is_digit c then shape he hp c r
      else if (c =? 46) && negb hp && negb he then shape he true c r
      else if ((c =? 69) || (c =? 68)) && negb he then
        (match r with s :: _ => (s =? 43) || (s =? 45) | [] => false end) && shape true hp c r
      else if ((c =? 43) || (c =? 45)) && ((last =? 69) || (last =? 68)) then
        (match r with d :: _ => is_digit d | [] => false end) && shape he hp c r
      else if ((c =? 33) || (c =? 35)) && negb he then (match r with [] => true | _ => false end)
      else false
  end.
Definition ends_with_sigil (w : list Z) : bool :=
  match rev w with c :: _ => (c =? 33) || (c =? 35) | [] => false end.
Definition float_last (c : Z) : bool := is_digit c || (c =? 46) || (c =? 33) || (c =? 35).
Definition float_shape (w : list Z) : bool :=
  shape false false 0 w && negb (all_digits w) && (match w with c :: _ => float_start c | [] => false end)
  && (match rev w with c :: _ => float_last c | [] => false end).

(* what may follow a decimal number text (see proofs/Tok_numbers.v: follow_dec) *)
Definition dec_stopper (c : Z) (r : list Z) : bool :=
  let u := upper c in
  negb (is_digit u) && negb (is_blank u) && negb (u =? 46) && negb (u =? 28) && negb (u =? 29)
  && negb (u =? 31) && negb (u =? 33) && negb (u =? 35) && negb (u =? 37) && negb (u =? 68)
  && negb ((u =? 69) && negb (match r with n :: _ => (upper n =? 76) || (upper n =? 81) | [] => false end)).
Definition follow_dec (rest : list Z) : bool :=
  match drop_blanks rest with
  | [] => true
  | c :: r => dec_stopper c r
  end.
Definition follow_linenum (rest : list Z) : bool :=
  match drop_blanks rest with
  | [] => true
  | c :: _ => negb (is_digit c)
  end.
Definition head_not (p : Z -> bool) (rest : list Z) : bool :=
  match rest with [] => true | c :: _ => negb (p c) end.
Definition next_not_name (rest : list Z) : bool :=
  match rest with n :: _ => negb (is_name_char n) | [] => true end.

(* bytes that the lister copies inside a comment or a string literal and the tokeniser copies in REM / string *)
Definition raw_char (c : Z) : bool :=
  negb (c =? 0) && negb (c =? 13) && negb (lmem [c] tk_NUMBER) && negb (lmem [c] tk_LINE_NUMBER).
Definition str_char (c : Z) : bool := raw_char c && negb (c =? 34).
Definition plain_ascii (c : Z) : bool := (32 <=? c) && (c <=? 126) && negb (c =? 34).

(* DATA tail: plain characters and string literals; result: Some (still inside an unclosed literal) *)
Fixpoint data_scan (instr : bool) (t : list Z) : option bool :=
  match t with
  | [] => Some instr
  | c :: r =>
      if instr then
        if c =? 34 then data_scan false r
        else if raw_char c then data_scan true r else None
      else
        if c =? 34 then data_scan true r
        else if plain_ascii c && negb (c =? 58) then data_scan false r else None
  end.

(* names: see proofs/Tok_words.v (word_loop_name) *)
Definition step_continues (kw : list (list Z * list Z)) (word : list Z) (c n : Z) : bool :=
  let w1 := word ++ [upper c] in
  is_name_char c
  && (if has_key w1 kw then negb (lmem w1 tok_no_longer_name) && is_name_char n else true)
  && (negb (list_Z_eqb w1 [71; 79]) || is_name_char n).
Fixpoint run_ok (kw : list (list Z * list Z)) (word w : list Z) : bool :=
  match w with
  | [] => true
  | c :: w' =>
      match w' with
      | [] => true
      | n :: _ => step_continues kw word c n && run_ok kw (word ++ [upper c]) w'
      end
  end.
Definition name_follow (kw : list (list Z * list Z)) (n rest : list Z) : bool :=
  match rest with
  | [] => true
  | c :: _ => negb (is_name_char c) && negb (has_key (n ++ [upper c]) kw)
  end.
Definition name_ok (kw : list (list Z * list Z)) (n : list Z) : bool :=
  run_ok kw [] n && list_Z_eqb (map upper n) n && negb (has_key n kw) && negb (list_Z_eqb n [71; 79])
  && match n with c :: _ => is_letter c | [] => false end
  && forallb is_name_char n.

Definition not_special_word (w : list Z) : bool :=
  negb (list_Z_eqb w tk_KW_REM) && negb (list_Z_eqb w tk_KW_O_REM) && negb (list_Z_eqb w tk_KW_DATA)
  && negb (list_Z_eqb w tk_KW_ELSE) && negb (list_Z_eqb w tk_KW_WHILE).

Section Lines.
Variable tkw kw : list (list Z * list Z).
Variable fl_tok : list Z -> res (list Z).
Variable fl_str : list Z -> res (list Z).

Definition tok_of_kw (k : list Z) : list Z := match assoc k kw with Some t => t | None => [] end.

Definition num_toks (x : numlit) : list Z :=
  match x with
  | NInt v => int_token v
  | NHex v => tk_T_HEX ++ le16 v
  | NOct v => tk_T_OCT ++ le16 v
  | NFloat lead trail _ => lead :: trail
  end.
Definition num_text (x : numlit) : list Z :=
  match x with
  | NInt v => dec_str v
  | NHex v => [38; 72] ++ hex_str v
  | NOct v => [38; 79] ++ oct_str v
  | NFloat _ _ txt => txt
  end.

Definition item_toks (it : item) : list Z :=
  match it with
  | ISpace => [32]
  | IPunct c => [c]
  | IOp c => tok_of_kw [c]
  | IKw k => tok_of_kw k
  | IName n => n
  | INum x => num_toks x
  | IJump n => tk_T_UINT ++ le16 n
  | IStr body closed => 34 :: body ++ (if closed then [34] else [])
  | IElse => 58 :: tk_ELSE
  | IWhile => tk_WHILE ++ tk_O_PLUS
  | IRem tail => tk_REM ++ tail
  | IQuote tail => 58 :: tk_REM ++ tk_O_REM ++ tail
  | IData tail => tk_DATA ++ tail
  end.

Definition item_text (it : item) : list Z :=
  match it with
  | ISpace => [32]
  | IPunct c => [c]
  | IOp c => [c]
  | IKw k => k
  | IName n => n
  | INum x => num_text x
  | IJump n => dec_str n
  | IStr body closed => 34 :: body ++ (if closed then [34] else [])
  | IElse => tk_KW_ELSE
  | IWhile => tk_KW_WHILE
  | IRem tail => tk_KW_REM ++ tail
  | IQuote tail => tk_KW_O_REM ++ tail
  | IData tail => tk_KW_DATA ++ tail
  end.

Definition toks (l : list item) : list Z := flat_map item_toks l.
Definition text (l : list item) : list Z := flat_map item_text l.

(* Tokeniser: state after a word / after an item *)
Definition word_state (s : tstate) (w : list Z) : tstate :=
  (lmem w tok_linenum_words, has_key w kw, st_sot s || list_Z_eqb w tk_KW_SPC || list_Z_eqb w tk_KW_TAB).

Definition punct_state (s : tstate) (c : Z) : tstate :=
  if (c =? 44) || (c =? 35) || (c =? 59) || (c =? 40) || (c =? 91) then (st_aj s, true, st_sot s)
  else if c =? 41 then ((if st_sot s then false else st_aj s), true, false)
  else (false, false, st_sot s).

Definition item_state (s : tstate) (it : item) : tstate :=
  match it with
  | ISpace | INum _ | IJump _ | IStr _ _ | IRem _ | IQuote _ | IData _ => s
  | IPunct c => punct_state s c
  | IOp _ => (st_aj s, true, st_sot s)
  | IKw k => word_state s k
  | IName n => word_state s n
  | IElse => word_state s tk_KW_ELSE
  | IWhile => word_state s tk_KW_WHILE
  end.

(* items that must end the line *)
Definition item_last (it : item) : bool :=
  match it with
  | IStr _ closed => negb closed
  | IRem _ | IQuote _ => true
  | IData tail => match data_scan false tail with Some fin => fin | None => true end
  | _ => false
  end.

Definition num_ok (x : numlit) (rest_text : list Z) : bool :=
  match x with
  | NInt v => (0 <=? v) && (v <=? 32767) && follow_dec rest_text
  | NHex v => (0 <=? v) && (v <=? 65535) && head_not is_hexdigit rest_text
  | NOct v => (0 <=? v) && (v <=? 65535) && head_not (fun c => is_octdigit c || is_blank c) rest_text
  | NFloat lead trail txt =>
      (((lead =? 29) && (length trail =? 4)%nat) || ((lead =? 31) && (length trail =? 8)%nat))
      && float_shape txt && (ends_with_sigil txt || follow_dec rest_text)
  end.

(* side conditions of one item: s tokeniser state, rout text listed so far (reversed),
   rtoks / rtext tokens and text of the items that follow *)
Definition item_ok (s : tstate) (rout : list Z) (it : item) (rtoks rtext : list Z) : bool :=
  match it with
  | ISpace => true
  | IPunct c =>
      (32 <? c) && (c <? 127) && negb (c =? 34) && negb (c =? 38) && negb (c =? 39) && negb (c =? 63)
      && negb (mem c tok_ascii_operators) && negb (is_letter c)
      && (negb (is_digit c || (c =? 46)) || negb (st_an s))
  | IOp c => mem c tok_ascii_operators
  | IKw k =>
      has_key k kw && (match k with c :: _ => is_letter c | [] => false end) && not_special_word k
      && negb (needs_space_before (tok_of_kw k) rout)
      && negb (needs_space_after (tok_of_kw k) (firstn 1 rtoks))
      && (lmem k tok_no_longer_name || next_not_name rtext)
  | IName n => name_ok kw n && name_follow kw n rtext && not_special_word n
  | INum x => st_an s && negb (st_aj s) && num_ok x rtext
  | IJump n => st_an s && st_aj s && (0 <=? n) && (n <=? 65529) && follow_linenum rtext
  | IStr body closed => forallb str_char body
  | IElse => negb (needs_space_after tk_ELSE (firstn 1 rtoks)) && next_not_name rtext
  | IWhile => negb (needs_space_before tk_WHILE rout) && next_not_name rtext
  | IRem tail =>
      negb (needs_space_before tk_REM rout) && forallb raw_char tail
      && (match tail with [] => true | c :: _ => negb (is_name_char c) && negb (list_Z_eqb [c] tk_O_REM) end)
  | IQuote tail => forallb raw_char tail
  | IData tail =>
      negb (needs_space_before tk_DATA rout)
      && negb (needs_space_after tk_DATA (firstn 1 (tail ++ rtoks)))
      && next_not_name (tail ++ rtext)
      && (match data_scan false tail with Some _ => true | None => false end)
      && (match rtext with [] => true | c :: _ => c =? 58 end)
  end.

(* the float conversions are parameters: a float item must be one that C07's round trip covers *)
Definition item_oracle (it : item) : Prop :=
  match it with
  | INum (NFloat lead trail txt) => fl_str trail = Ok txt /\ fl_tok txt = Ok (lead :: trail)
  | _ => True
  end.

Inductive Lines : tstate -> list Z -> list item -> Prop :=
| Lines_nil : forall s rout, Lines s rout []
| Lines_cons : forall s rout it rest,
    item_ok s rout it (toks rest) (text rest) = true ->
    item_oracle it ->
    (item_last it = true -> rest = []) ->
    Lines (item_state s it) (rev (item_text it) ++ rout) rest ->
    Lines s rout (it :: rest).

(* a whole program line: number n, body items.  For line 0 the stored body has one more leading space
   (the lister drops one, the tokeniser keeps it) *)
Definition line_toks (n : Z) (body : list item) : list Z :=
  [0; 192; 222] ++ le16 n ++ (if n =? 0 then [32] else []) ++ toks body.
Definition line_text (n : Z) (body : list item) : list Z :=
  dec_str n ++ [32] ++ text body.

Definition CanonLine (n : Z) (body : list item) : Prop :=
  0 <= n <= 65529 /\ Lines (false, true, false) [] body
  /\ follow_linenum (text body) = true /\ head_not (fun c => c =? 9) (toks body) = true
  /\ (length (text body) <= 255)%nat.

(* boolean version for the correspondence harness (float oracle compared through enc_res) *)
Definition res_eqb (a b : res (list Z)) : bool := list_Z_eqb (enc_res a) (enc_res b).
Definition item_oracleb (it : item) : bool :=
  match it with
  | INum (NFloat lead trail txt) => res_eqb (fl_str trail) (Ok txt) && res_eqb (fl_tok txt) (Ok (lead :: trail))
  | _ => true
  end.
Fixpoint linesb (s : tstate) (rout : list Z) (l : list item) : bool :=
  match l with
  | [] => true
  | it :: rest =>
      item_ok s rout it (toks rest) (text rest) && item_oracleb it
      && (negb (item_last it) || match rest with [] => true | _ => false end)
      && linesb (item_state s it) (rev (item_text it) ++ rout) rest
  end.
Definition canon_lineb (n : Z) (body : list item) : bool :=
  (0 <=? n) && (n <=? 65529) && linesb (false, true, false) [] body
  && follow_linenum (text body) && head_not (fun c => c =? 9) (toks body)
  && (length (text body) <=? 255)%nat.

End Lines.
