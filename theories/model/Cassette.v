(* C29: record-level model of devices/cassette.py (CASDevice, CassetteStream, CASTextFile.close).
   A tape is a list of records; a record is a list of 256-byte blocks.  Leader, sync byte, per-block
   CRC, trailer, pause and the bit/pulse encodings (CASBitStream/WAVBitStream) are abstracted away.
   The framing decisions (flush test, chunk size, count bytes, type tokens, header constants, the name
   comparison and the end-of-tape handler of _search) come from the regenerated gen/Gen_cassette.v. *)
From Coq Require Import ZArith List Bool.
From PCB Require Import lib.Result lib.PyInt lib.Harness gen.Gen_cassette.
Import ListNotations.
Open Scope Z_scope.

Definition block := list Z.
Definition record := list block.
Definition tape := list record.

Fixpoint zassoc (k : Z) (l : list (Z * Z)) : option Z :=
  match l with
  | [] => None
  | (a, b) :: r => if a =? k then Some b else zassoc k r
  end.

(* file types are the ASCII codes of D A B P M; 0 stands for b'' (no file seen yet) *)
Definition tD : Z := 68.
Definition tA : Z := 65.
Definition tB : Z := 66.
Definition tP : Z := 80.
Definition tM : Z := 77.
(* filetype in (b'M', b'B', b'P') *)
Definition is_binary (t : Z) : bool := (t =? tM) || (t =? tB) || (t =? tP).
(* filetype in (b'A', b'D') *)
Definition is_ad (t : Z) : bool := (t =? tA) || (t =? tD).

(* ---------------------------------------------------------------- blocks and records (writer) *)

Definition nblock : nat := Z.to_nat cas_block.
Definition nchunk : nat := Z.to_nat cas_chunk.

(* _write_block: data += data[-1:]*(256-len(data)) *)
Definition pad_block (d : list Z) : block := d ++ repeat (last d 0) (nblock - length d).

(* _write_record: while len(data) > 0: _write_block(data[:256]); data = data[256:] *)
Fixpoint blocks_of (fuel : nat) (data : list Z) : list block :=
  match fuel with
  | O => []
  | S f =>
      match data with
      | [] => []
      | _ :: _ => pad_block (firstn nblock data) :: blocks_of f (skipn nblock data)
      end
  end.
Definition mk_record (data : list Z) : record := blocks_of (length data) data.

(* ---------------------------------------------------------------- header *)

(* name[:8] + b' ' * (8-len(name)) *)
Definition pad_name (name : list Z) : list Z := firstn 8 name ++ repeat 32 (8 - length name).
Definition le2 (z : Z) : list Z := [z mod 256; z / 256].
Definition u16b (z : Z) : bool := (0 <=? z) && (z <? 65536).

Definition header_bytes (name : list Z) (token len seg offs : Z) : list Z :=
  cas_magic :: pad_name name ++ [token] ++ le2 len ++ le2 seg ++ le2 offs ++ cas_header_tail.

(* struct.unpack('<8sBHHH', record[1:16]) -> (trunk, token, length, seg, offset) *)
Definition parse_header (b : block) : list Z * Z * Z * Z * Z :=
  (firstn 8 (skipn 1 b), nth 9 b 0,
   nth 10 b 0 + 256 * nth 11 b 0, nth 12 b 0 + 256 * nth 13 b 0, nth 14 b 0 + 256 * nth 15 b 0).

(* ---------------------------------------------------------------- writing *)

(* _flush_record_buffer (text files): emit full chunks while the loop test does not stop *)
Fixpoint flush_aux (fuel : nat) (data : list Z) : list record * list Z :=
  match fuel with
  | O => ([], data)
  | S f =>
      if cas_flush_stop data then ([], data)
      else let '(rs, rest) := flush_aux f (skipn nchunk data) in
           (mk_record (cas_full_prefix ++ firstn nchunk data) :: rs, rest)
  end.
Definition flush (data : list Z) : list record * list Z := flush_aux (length data) data.

(* text file being written: records emitted so far, record buffer *)
Definition tw_write (s : list record * list Z) (c : list Z) : list record * list Z :=
  let '(rs, b) := flush (snd s ++ c) in (fst s ++ rs, b).

(* CASTextFile.close writes NUL; CassetteStream.close -> _close_record_buffer *)
Definition tw_close (s : list record * list Z) : list record :=
  let s1 := tw_write s [0] in
  let '(rs, b) := flush (snd s1) in
  fst s1 ++ rs ++ (if cas_final_present b then [mk_record (cas_final_count b :: b)] else []).

Definition text_records (chunks : list (list Z)) : list record :=
  tw_close (fold_left tw_write chunks ([], [])).

(* binary files: everything is buffered, one multi-block record at close *)
Definition binary_records (chunks : list (list Z)) : list record := [mk_record (concat chunks)].

(* a file as given to the device: name, type, seg, offset, the sequence of writes *)
Record wfile := { wf_name : list Z; wf_type : Z; wf_seg : Z; wf_off : Z; wf_chunks : list (list Z) }.
Definition wf_data (f : wfile) : list Z := concat (wf_chunks f).

(* writer state: the tape written so far and CassetteStream.last = (seg, offs, length) *)
Record wst := { w_tape : tape; w_last : Z * Z * Z }.

(* CASDevice.open(mode 'O') + writes + close.  Result code: [0] | [1; err] | [2; host] *)
Definition illegal_name (name : list Z) : bool := existsb (fun c => (0 <=? c) && (c <? 32)) name.

Definition header_fields (st : wst) (f : wfile) : Z * Z * Z :=
  if is_ad (wf_type f) then w_last st else (wf_seg f, wf_off f, zlen (wf_data f)).

Definition write_file (st : wst) (f : wfile) : wst * list Z :=
  if illegal_name (wf_name f) then (st, [1; 52])
  else
    let '(seg, offs, len) := header_fields st f in
    let st1 := {| w_tape := w_tape st; w_last := (seg, offs, len) |} in
    match zassoc (wf_type f) cas_type_to_token with
    | None => (st1, [2; 2])
    | Some tok =>
        if u16b len && u16b seg && u16b offs then
          let hdr := mk_record (header_bytes (wf_name f) tok len seg offs) in
          let body := if is_binary (wf_type f) then binary_records (wf_chunks f)
                      else text_records (wf_chunks f) in
          ({| w_tape := w_tape st ++ hdr :: body; w_last := (seg, offs, len) |}, [0])
        else (st1, [2; 7])
    end.

Fixpoint write_files (st : wst) (fs : list wfile) : wst * list Z :=
  match fs with
  | [] => (st, [])
  | f :: r => let '(st1, c) := write_file st f in
              let '(st2, cs) := write_files st1 r in (st2, c ++ cs)
  end.

Definition wst0 : wst := {| w_tape := []; w_last := (0, 0, 0) |}.
Definition write_tape (fs : list wfile) : tape := w_tape (fst (write_files wst0 fs)).

(* ---------------------------------------------------------------- reading *)

(* bytes.rstrip(): trailing ASCII whitespace *)
Definition is_ws (c : Z) : bool := (c =? 32) || ((9 <=? c) && (c <=? 13)).
Fixpoint drop_ws (l : list Z) : list Z :=
  match l with
  | [] => []
  | c :: r => if is_ws c then drop_ws r else l
  end.
Definition rstrip (l : list Z) : list Z := rev (drop_ws (rev l)).

Definition req_trunc (req : list Z) : list Z :=
  if cas_req_name_limit <? 0 then req else firstn (Z.to_nat cas_req_name_limit) req.

(* (not trunk_req or trunk.rstrip() == trunk_req[:8].rstrip()) *)
Definition name_match (req trunk : list Z) : bool :=
  match req with
  | [] => true
  | _ => list_Z_eqb (rstrip trunk) (rstrip (req_trunc req))
  end.
(* (not filetypes_req or filetype in filetypes_req): substring test on bytes; b'' is in everything *)
Definition type_match (req : list Z) (t : Z) : bool :=
  match req with
  | [] => true
  | _ => (t =? 0) || existsb (Z.eqb t) req
  end.

(* console messages: 1 = Found, 2 = Skipped; 8 name bytes; type *)
Definition msg (kind : Z) (trunk : list Z) (t : Z) : list Z := kind :: trunk ++ [t].

(* _read_record(reclen): read blocks while byte_count < reclen *)
Fixpoint read_rec (bs : list block) (want got : Z) : option (list Z) :=
  if want <=? got then Some []
  else match bs with
       | [] => None
       | b :: bs' => option_map (app b) (read_rec bs' want (got + zlen b))
       end.

Inductive sres :=
| SFound (b : block) (t : Z) (msgs : list Z) (rest : list record)
| SEnd (t : Z) (msgs : list Z) (seen : bool)         (* EndOfTape: Device Timeout, tape rewound *)
| SIOErr (t : Z) (msgs : list Z) (seen : bool) (rest : list record).   (* unreadable (empty) record *)

(* CASDevice._search over CassetteStream.open_read: records that do not start with the magic byte are
   passed over; a record that does is taken as a header; after a header that does not match, the data
   record of a B/P/M file is read (skip_data), text files are left to the scan.  cur = CassetteStream.filetype
   (kept when the token is unknown), seen = a header was read in this search (is_open). *)
Fixpoint search (nreq treq : list Z) (cur : Z) (msgs : list Z) (seen : bool) (rest : list record) : sres :=
  match rest with
  | [] => SEnd cur msgs seen
  | r :: rest' =>
      match r with
      | [] => match rest' with
              | [] => SEnd cur msgs seen
              | _ :: rest'' => SIOErr cur msgs seen rest''
              end
      | b :: _ =>
          if hd 0 b =? cas_magic then
            let '(trunk, token, len, _, _) := parse_header b in
            let t := match zassoc token cas_token_to_type with Some t => t | None => cur end in
            if name_match nreq trunk && type_match treq t
            then SFound b t (msgs ++ msg 1 trunk t) rest'
            else if cas_search_skips_binary && is_binary t then
              (* skip_data: read the data record (len bytes) of the skipped B/P/M file *)
              match rest' with
              | [] => SEnd t (msgs ++ msg 2 trunk t) true
              | r2 :: rest'' =>
                  match read_rec r2 len 0 with
                  | Some _ => search nreq treq t (msgs ++ msg 2 trunk t) true rest''
                  | None =>      (* record too short: the read runs into the next leader, error ignored *)
                      match rest'' with
                      | [] => SEnd t (msgs ++ msg 2 trunk t) true
                      | _ :: rest3 => search nreq treq t (msgs ++ msg 2 trunk t) true rest3
                      end
                  end
              end
            else search nreq treq t (msgs ++ msg 2 trunk t) true rest'
          else search nreq treq cur msgs seen rest'
      end
  end.

Inductive dres :=
| DData (d : list Z) (rest : list record)
| DIOErr (rest : list record).

(* text files: _fill_record_buffer until a record with a non-zero count byte (or the end of the tape) *)
Fixpoint read_text (rest : list record) : dres :=
  match rest with
  | [] => DData [] []
  | r :: rest' =>
      match r with
      | [] => match rest' with [] => DData [] [] | _ :: rest'' => DIOErr rest'' end
      | b :: _ =>
          let n := hd 0 b in
          if cas_is_last n then DData (firstn (Z.to_nat (cas_last_take n)) (tl b)) rest'
          else match read_text rest' with
               | DData d rest'' => DData (tl b ++ d) rest''
               | DIOErr rest'' => DIOErr rest''
               end
      end
  end.

(* binary files: one multi-block record of the length given in the header *)
Definition read_binary (len : Z) (rest : list record) : dres :=
  match rest with
  | [] => DData [] []
  | r :: rest' =>
      match read_rec r len 0 with
      | Some d => DData (firstn (Z.to_nat len) d) rest'
      | None => match rest' with [] => DData [] [] | _ :: rest'' => DIOErr rest'' end
      end
  end.

(* reader state: whole tape (for rewinding), records ahead of the head, CassetteStream.filetype, is_open *)
Record rst := { r_tape : tape; r_rest : list record; r_type : Z; r_open : bool }.
Definition rst0 (t : tape) : rst := {| r_tape := t; r_rest := t; r_type := 0; r_open := false |}.

(* what a successful OPEN ... FOR INPUT + read to the end + CLOSE returns *)
Record rfile := { rf_name : list Z; rf_type : Z; rf_bin : bool; rf_seg : Z; rf_off : Z; rf_len : Z;
                  rf_data : list Z }.

Inductive ores :=
| OFile (f : rfile)
| OErr (e : Z).

(* CASDevice.open(mode 'I') + read everything + close *)
Definition open_read_all (st : rst) (nreq treq : list Z) : rst * list Z * ores :=
  if r_open st then (st, [], OErr 55)
  else if illegal_name nreq then (st, [], OErr 52)
  else
    match search nreq treq (r_type st) [] false (r_rest st) with
    | SEnd t msgs seen =>
        ({| r_tape := r_tape st; r_rest := r_tape st; r_type := t;
            r_open := seen && negb cas_search_eot_closes |}, msgs, OErr 24)
    | SIOErr t msgs seen rest =>
        ({| r_tape := r_tape st; r_rest := rest; r_type := t; r_open := seen |}, msgs, OErr 57)
    | SFound b t msgs rest =>
        let '(trunk, _, len, seg, offs) := parse_header b in
        let bin := negb (is_ad t) in
        match (if is_binary t then read_binary len rest else read_text rest) with
        | DData d rest' =>
            ({| r_tape := r_tape st; r_rest := rest'; r_type := t; r_open := false |}, msgs,
             OFile {| rf_name := trunk; rf_type := t; rf_bin := bin;
                      rf_seg := if bin then seg else 0; rf_off := if bin then offs else 0;
                      rf_len := if bin then len else 0; rf_data := d |})
        | DIOErr rest' =>
            ({| r_tape := r_tape st; r_rest := rest'; r_type := t; r_open := false |}, msgs, OErr 57)
        end
    end.

(* ---------------------------------------------------------------- bounded reads (INPUT$(n, #f)) *)

(* a text file being read: CassetteStream.record_stream (unread part), buffer_complete, records ahead *)
Record rdst := { rd_buf : list Z; rd_done : bool; rd_rest : list record }.

Inductive fres :=
| FOk (s : rdst)
| FEnd                          (* EndOfTape *)
| FErr (rest : list record).    (* unreadable (empty) record *)

(* _fill_record_buffer for text/data files *)
Definition fill_text (rest : list record) : fres :=
  match rest with
  | [] => FEnd
  | r :: rest' =>
      match r with
      | [] => match rest' with [] => FEnd | _ :: rest'' => FErr rest'' end
      | b :: _ =>
          let n := hd 0 b in
          if cas_is_last n
          then FOk {| rd_buf := firstn (Z.to_nat (cas_last_take n)) (tl b); rd_done := true; rd_rest := rest' |}
          else FOk {| rd_buf := tl b; rd_done := false; rd_rest := rest' |}
      end
  end.

Inductive rres :=
| ROk (c : list Z) (s : rdst)
| RErr (rest : list record).

(* CassetteStream.read(nbytes), nbytes >= 0:
     c += record_stream.read(nbytes-len(c)); if len(c) >= nbytes: return c
     if buffer_complete: return c;  _fill_record_buffer()  (EndOfTape: return c) *)
Fixpoint cs_read (fuel : nat) (n : nat) (c : list Z) (s : rdst) : rres :=
  let k := (n - length c)%nat in
  let c' := c ++ firstn k (rd_buf s) in
  let s' := {| rd_buf := skipn k (rd_buf s); rd_done := rd_done s; rd_rest := rd_rest s |} in
  if (n <=? length c')%nat then ROk c' s'
  else if rd_done s then ROk c' s'
  else match fuel with
       | O => ROk c' s'
       | S f => match fill_text (rd_rest s) with
                | FEnd => ROk c' s'
                | FErr rest => RErr rest
                | FOk s2 => cs_read f n c' s2
                end
       end.
Definition read_n (n : nat) (s : rdst) : rres := cs_read (S (length (rd_rest s))) n [] s.

(* the harness loop: requests of plan[i mod len] bytes until a request returns nothing *)
Fixpoint read_plan (fuel : nat) (plan : list nat) (i : nat) (s : rdst) (data lens : list Z)
  : option (list Z * list Z * list record) :=          (* None = Device I/O error *)
  match fuel with
  | O => Some (data, lens, rd_rest s)
  | S f =>
      match read_n (nth (i mod length plan) plan 1%nat) s with
      | RErr rest => None
      | ROk c s' =>
          match c with
          | [] => Some (data, lens ++ [0], rd_rest s')
          | _ => read_plan f plan (S i) s' (data ++ c) (lens ++ [zlen c])
          end
      end
  end.
Definition rd0 (rest : list record) : rdst := {| rd_buf := []; rd_done := false; rd_rest := rest |}.
Definition tape_bytes (rest : list record) : nat := length (concat (concat rest)).

(* CASDevice.open(mode 'I') + bounded reads to the end + close: as open_read_all, and the lengths returned *)
Definition open_read_plan (plan : list nat) (st : rst) (nreq treq : list Z) : rst * list Z * ores * list Z :=
  if r_open st then (st, [], OErr 55, [])
  else if illegal_name nreq then (st, [], OErr 52, [])
  else
    match search nreq treq (r_type st) [] false (r_rest st) with
    | SFound b t msgs rest =>
        if is_binary t then (open_read_all st nreq treq, [])
        else
          let '(trunk, _, len, seg, offs) := parse_header b in
          let bin := negb (is_ad t) in
          match read_plan (S (S (tape_bytes rest))) plan 0 (rd0 rest) [] [] with
          | Some (d, lens, rest') =>
              ({| r_tape := r_tape st; r_rest := rest'; r_type := t; r_open := false |}, msgs,
               OFile {| rf_name := trunk; rf_type := t; rf_bin := bin;
                        rf_seg := if bin then seg else 0; rf_off := if bin then offs else 0;
                        rf_len := if bin then len else 0; rf_data := d |}, lens)
          | None => (open_read_all st nreq treq, [])
          end
    | _ => (open_read_all st nreq treq, [])
    end.

(* ---------------------------------------------------------------- sequential read of a whole tape *)

(* open with no name and no type filter, read, close; until Device Timeout *)
Fixpoint read_seq (fuel : nat) (st : rst) : list rfile :=
  match fuel with
  | O => []
  | S f =>
      match open_read_all st [] [] with
      | (st', _, OFile rf) => rf :: read_seq f st'
      | (_, _, OErr _) => []
      end
  end.
Definition read_tape (t : tape) : list rfile := read_seq (S (length t)) (rst0 t).

(* ---------------------------------------------------------------- encodings for the harness *)

Fixpoint adler (l : list Z) (s1 s2 : Z) : Z * Z :=
  match l with
  | [] => (s1, s2)
  | b :: r => let s1' := (s1 + b) mod 65521 in adler r s1' ((s2 + s1') mod 65521)
  end.
Definition digest (l : list Z) : list Z :=
  let '(s1, s2) := adler l 1 0 in [zlen l; s1; s2] ++ firstn 18 l.

Definition tape_digest (t : tape) : list Z :=
  zlen t :: flat_map (fun r => zlen r :: digest (concat r)) t.

Definition enc_ores (o : ores) : list Z :=
  match o with
  | OErr e => [1; e]
  | OFile f => [0; rf_type f; rf_seg f; rf_off f; rf_len f] ++ digest (rf_data f)
  end.

Fixpoint read_reqs (plan : list nat) (st : rst) (reqs : list (list Z * list Z)) : list Z :=
  match reqs with
  | [] => []
  | (n, t) :: r =>
      let '(st', msgs, o, lens) := open_read_plan plan st n t in
      enc_ores o ++ (match lens with [] => [] | _ => digest lens end) ++ (zlen msgs :: msgs) ++ read_reqs plan st' r
  end.

(* content patterns (so that case literals stay small): n bytes from (a, b); no 0x1A when text *)
Definition pat_byte (noeof : bool) (a b i : Z) : Z :=
  let v := (a + i * b + i / 7) mod 256 in if noeof && (v =? 26) then 27 else v.
Fixpoint pat_from (noeof : bool) (a b i : Z) (n : nat) : list Z :=
  match n with
  | O => []
  | S n' => pat_byte noeof a b i :: pat_from noeof a b (i + 1) n'
  end.
Definition pat (noeof : bool) (a b : Z) (n : nat) : list Z := pat_from noeof a b 0 n.

(* cut a content into the given chunk lengths (the rest is the last chunk) *)
Fixpoint cut (l : list Z) (lens : list nat) : list (list Z) :=
  match lens with
  | [] => [l]
  | n :: r => firstn n l :: cut (skipn n l) r
  end.

(* a whole harness case: write the files to a fresh image, (digest the image), reopen, run the requests *)
Definition run_case (structure : bool) (fs : list wfile) (reqs : list (list Z * list Z)) (plan : list nat)
  : list Z :=
  let '(st, codes) := write_files wst0 fs in
  codes ++ (if structure then tape_digest (w_tape st) else []) ++ read_reqs plan (rst0 (w_tape st)) reqs.
