(* C28: the per-drive lock table of DiskDevice (diskfiles.Locks / LockingParameters) and how DiskDevice.open,
   close, KILL and NAME use it.  The table maps a file number to (DOS basename in upper case, mode, lock type,
   access); "the entries of a name" are the entries whose stored basename equals basename(name).upper().
   NO proofs here. *)
From Coq Require Import ZArith List Bool.
From PCB Require Import lib.Result lib.PyInt lib.Harness gen.Gen_dosnames model.DosNames model.Paths model.PathsNt.
Import ListNotations.
Open Scope Z_scope.

Record lentry : Type := { le_name : str; le_mode : Z; le_lock : str; le_access : str }.
Definition ltable : Type := list (Z * lentry).

Section Locks.
Variable basename : str -> str.      (* ntpath.basename: arbitrary in the theorems *)

Definition lock_key (name : str) : str := upper (basename name).

(* Locks.list_open(name) *)
Definition list_open (t : ltable) (name : str) : list lentry :=
  map snd (filter (fun ne => seqb (le_name (snd ne)) (lock_key name)) t).

Fixpoint lt_remove (n : Z) (t : ltable) : ltable :=
  match t with
  | [] => []
  | (k, e) :: r => if k =? n then lt_remove n r else (k, e) :: lt_remove n r
  end.
(* dict assignment: replace, or add at the end *)
Definition lt_set (n : Z) (e : lentry) (t : ltable) : ltable := lt_remove n t ++ [(n, e)].

Definition s_RW : str := [82; 87].
Definition s_SHARED : str := [83; 72; 65; 82; 69; 68].
Definition nonempty (s : str) : bool := match s with [] => false | _ :: _ => true end.
Definition inter (a b : str) : bool := existsb (fun c => mem c b) a.

(* the condition of Locks.open_file under which an already open file f refuses a new open *)
Definition lock_conflict (lock access : str) (f : lentry) : bool :=
  (negb (nonempty lock) && nonempty (le_lock f))
  || seqb lock s_RW
  || (nonempty lock && negb (nonempty (le_lock f)))
  || (nonempty lock && negb (seqb lock s_SHARED) && nonempty (le_access f) && inter lock (le_access f))
  || (nonempty (le_lock f) && negb (seqb (le_lock f) s_SHARED) &&
      ((nonempty access && inter (le_lock f) access)
       || (negb (nonempty access) && mem 82 (le_lock f) && mem 87 (le_lock f)
           && forallb (fun c => (c =? 82) || (c =? 87)) (le_lock f)))).

(* Locks.open_file *)
Definition open_file (t : ltable) (name : str) (number mode : Z) (lock access : str) : res ltable :=
  let already := list_open t name in
  if ((mode =? 79) || (mode =? 65)) && negb (Nat.eqb (length already) 0) then Err dn_E_FILE_ALREADY_OPEN
  else if number =? 0 then Ok t
  else if existsb (lock_conflict lock access) already then Err dn_E_PERMISSION_DENIED
  else
    let access' := if nonempty lock && negb (nonempty access) then s_RW else access in
    Ok (lt_set number {| le_name := lock_key name; le_mode := mode; le_lock := lock; le_access := access' |} t).

(* Locks.close_file *)
Definition close_file (t : ltable) (number : Z) : ltable := lt_remove number t.
Definition close_all (t : ltable) : ltable := fold_left close_file (map fst t) t.

(* DiskDevice.open around the table: the name is resolved first (failure: nothing registered), then the lock is
   taken, then the stream is opened and wrapped; if that raises, the entry is released again *)
Definition dev_open (t : ltable) (resolved : res unit) (name : str) (number mode : Z) (lock access : str)
                    (stream : res unit) : ltable * res unit :=
  match resolved with
  | Ok _ =>
      match open_file t name number mode lock access with
      | Ok t' =>
          match stream with
          | Ok _ => (t', Ok tt)
          | Err e => (close_file t' number, Err e)
          | Host x => (close_file t' number, Host x)
          | OutOfFuel => (close_file t' number, OutOfFuel)
          end
      | Err e => (t, Err e)
      | Host x => (t, Host x)
      | OutOfFuel => (t, OutOfFuel)
      end
  | Err e => (t, Err e)
  | Host x => (t, Host x)
  | OutOfFuel => (t, OutOfFuel)
  end.

(* DiskDevice.require_file_not_open: used by NAME (old and new name) and KILL (every file to be removed) *)
Definition require_not_open (t : ltable) (name : str) : res unit :=
  match list_open t name with [] => Ok tt | _ :: _ => Err dn_E_FILE_ALREADY_OPEN end.

End Locks.

(* ---------- correspondence: the table of drive C: along a history (harness/C28.py) ---------- *)
Definition nt_basename (name : str) : str := snd (nt_split name).

Definition enc_ltable (t : ltable) : list Z :=
  zlen t :: flat_map (fun ne => fst ne :: le_mode (snd ne) :: enc_str (le_name (snd ne)) ++ enc_str (le_lock (snd ne))
                                  ++ enc_str (le_access (snd ne))) t.

(* what one statement does to the table of drive C:, given the outcome of the statement in the path model.
   OPEN statements of the harness use file number 1 without LOCK / ACCESS clauses; LOAD, SAVE, ... use number 0 *)
Definition stmt_locks (cur : Z) (t : ltable) (st : stmt) (ok : bool) : ltable :=
  match st with
  | SOpen name mode program =>
      match open_device cur name with
      | Ok (l, spec) =>
          if l =? 67 then
            fst (dev_open nt_basename t (if ok then Ok tt else Err 0)
                          (defext_name spec (if program then s_BAS else [])) (if program then 0 else 1) mode [] []
                          (Ok tt))
          else t
      | _ => t
      end
  | _ => t
  end.

Fixpoint run_locks (s : state) (t : ltable) (last : snapshot) (steps : list (option snapshot * stmt)) : list Z :=
  match steps with
  | [] => []
  | (osn, st) :: r =>
      let sn := match osn with Some x => x | None => last end in
      let m := exec nt_normpath nt_split (sn_host sn) s st in
      let s' := match snd m with Ok (s', _) => s' | _ => s end in
      let t1 := stmt_locks (st_cur s) t st (is_ok (snd m)) in
      enc_ltable t1 ++ enc_ltable (close_all t1) ++ run_locks s' (close_all t1) sn r
  end.

(* the same in one pass together with the statement encoding of PathsNt.run_enc_opt:
   (statuses/traces/listings/final cwds, lock tables) *)
Fixpoint run_both (s : state) (t : ltable) (last : snapshot) (steps : list (option snapshot * stmt))
  : list Z * list Z :=
  match steps with
  | [] => (enc_cwds s, [])
  | (osn, st) :: r =>
      let sn := match osn with Some x => x | None => last end in
      let m := exec nt_normpath nt_split (sn_host sn) s st in
      let s' := match snd m with Ok (s', _) => s' | _ => s end in
      let out := match snd m with Ok (_, o) => o | _ => [] end in
      let t1 := stmt_locks (st_cur s) t st (is_ok (snd m)) in
      let '(a, b) := run_both s' (close_all t1) sn r in
      (enc_status (snd m) ++ enc_trace (fst m) ++ enc_strs out ++ a,
       enc_ltable t1 ++ enc_ltable (close_all t1) ++ b)
  end.
Definition run_enc_locks (s : state) (steps : list (option snapshot * stmt)) : list Z :=
  let '(a, b) := run_both s [] [] steps in a ++ b.
