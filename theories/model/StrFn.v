(* C09: executable model of the string functions and in-place string statements.
   values/values.py (len_ asc_ chr_ space_ StringFunctions.left_/right_/mid_/instr_/string_, add, eq/gt...),
   values/strings.py (String.add/eq/gt/lset/midset/asc/space, StringSpace.store),
   memory/memory.py (DataSegment.mid_/lset_/rset_).
   Strings are `list Z` of bytes.  A numeric argument is given by the integer nearest to it
   (`round_half_away` below maps an exact dyadic value m / 2^k, the form of every Integer, Single and
   Double, to that integer); `to_int` then is the Overflow check of numbers.Integer.from_int.
   Argument checks are in the order the code performs them; ranges / error numbers / the clipping
   arithmetic of midset / the length check of store are the regenerated gen.Gen_strfn.   NO proofs here. *)
From Coq Require Import ZArith List Bool.
From PCB Require Import lib.Result lib.PyInt lib.Harness gen.Gen_strfn.
Import ListNotations.
Open Scope Z_scope.

(* ---------------------------------------------------------------- numeric arguments *)

(* numbers.Float.to_int: nearest integer, halves away from zero, of the value m / 2^k (k >= 0) *)
Definition round_half_away (m k : Z) : Z :=
  let d := 2 ^ k in
  if 0 <=? m then (2 * m + d) / (2 * d) else - ((2 * (- m) + d) / (2 * d)).

(* to_integer(x).to_int(): numbers.Integer.from_int raises Overflow outside -32768..32767 *)
Definition to_int (z : Z) : res Z :=
  if (-32768 <=? z) && (z <=? 32767) then Ok z else Err strfn_OVERFLOW.

(* error.range_check(lo, hi, v) *)
Definition range_check (lo hi v : Z) : res unit :=
  if (lo <=? v) && (v <=? hi) then Ok tt else Err strfn_IFC.

(* ---------------------------------------------------------------- Python primitives *)

(* slice index normalisation of Python: negative counts from the end, then clip to 0..len *)
Definition norm_idx (len i : Z) : Z :=
  if i <? 0 then Z.max 0 (len + i) else Z.min i len.

(* s[lo:hi] *)
Definition py_slice (s : list Z) (lo hi : Z) : list Z :=
  let a := norm_idx (zlen s) lo in
  let b := norm_idx (zlen s) hi in
  firstn (Z.to_nat (b - a)) (skipn (Z.to_nat a) s).

(* big.startswith(small) *)
Fixpoint prefixb (small big : list Z) : bool :=
  match small, big with
  | [], _ => true
  | _ :: _, [] => false
  | x :: small', y :: big' => (x =? y) && prefixb small' big'
  end.

(* big.find(small): least index at which small occurs, -1 if none (the empty string occurs at 0) *)
Fixpoint find_from (i : Z) (big small : list Z) {struct big} : Z :=
  match big with
  | [] => if prefixb small [] then i else -1
  | _ :: r => if prefixb small big then i else find_from (i + 1) r small
  end.
Definition py_find (big small : list Z) : Z := find_from 0 big small.

(* char * num for bytes *)
Fixpoint bytes_mul (c : list Z) (n : nat) : list Z :=
  match n with O => [] | S n' => c ++ bytes_mul c n' end.

(* memoryview slice assignment view[lo:hi] = src: the lengths must agree, else ValueError *)
Definition slice_assign (t : list Z) (lo hi : Z) (src : list Z) : res (list Z) :=
  let a := norm_idx (zlen t) lo in
  let b := Z.max a (norm_idx (zlen t) hi) in
  if (b - a) =? zlen src then Ok (firstn (Z.to_nat a) t ++ src ++ skipn (Z.to_nat b) t)
  else Host host_ValueError.

(* String.from_str -> StringSpace.store: String too long above 255 bytes *)
Definition from_str (l : list Z) : res (list Z) :=
  do _ <- strfn_store_check l; Ok l.

(* ---------------------------------------------------------------- functions *)

Definition len_ (s : list Z) : res Z := Ok (zlen s).

Definition asc_ (s : list Z) : res Z :=
  match s with [] => Err strfn_IFC | c :: _ => Ok c end.

Definition chr_ (x : Z) : res (list Z) :=
  do val <- to_int x;
  do _ <- range_check strfn_chr_val_lo strfn_chr_val_hi val;
  from_str [val].

Definition space_ (x : Z) : res (list Z) :=
  do num <- to_int x;
  do _ <- range_check strfn_space_num_lo strfn_space_num_hi num;
  from_str (repeat 32 (Z.to_nat num)).

Definition left_ (s : list Z) (x : Z) : res (list Z) :=
  do stop <- to_int x;
  if stop =? 0 then Ok [] else
  do _ <- range_check strfn_left_stop_lo strfn_left_stop_hi stop;
  from_str (py_slice s 0 stop).

Definition right_ (s : list Z) (x : Z) : res (list Z) :=
  do stop <- to_int x;
  if stop =? 0 then Ok [] else
  do _ <- range_check strfn_right_stop_lo strfn_right_stop_hi stop;
  from_str (py_slice s (- stop) (zlen s)).

Definition mid_ (s : list Z) (xstart : Z) (xnum : option Z) : res (list Z) :=
  do start <- to_int xstart;
  do onum <- match xnum with None => Ok None | Some x => do n <- to_int x; Ok (Some n) end;
  let length := zlen s in
  let num := match onum with None => length | Some n => n end in
  do _ <- range_check strfn_mid_start_lo strfn_mid_start_hi start;
  do _ <- range_check strfn_mid_num_lo strfn_mid_num_hi num;
  if (num =? 0) || (start >? length) then Ok [] else
  let start := start - 1 in
  from_str (py_slice s start (start + num)).

Definition instr_ (xstart : option Z) (big small : list Z) : res Z :=
  do start <- match xstart with
              | None => Ok 1
              | Some x => do st <- to_int x;
                          do _ <- range_check strfn_instr_start_lo strfn_instr_start_hi st; Ok st
              end;
  if (zlen big =? 0) || (start >? zlen big) then Ok 0 else
  let find := py_find (py_slice big (start - 1) (zlen big)) small in
  if find =? -1 then Ok 0 else Ok (start + find).

(* second argument of STRING$: a number or a string *)
Inductive strarg := ArgNum (x : Z) | ArgStr (s : list Z).

Definition string_ (xnum : Z) (a : strarg) : res (list Z) :=
  do num <- to_int xnum;
  do _ <- range_check strfn_string_num_lo strfn_string_num_hi num;
  match a with
  | ArgStr s => from_str (bytes_mul (py_slice s 0 1) (Z.to_nat num))
  | ArgNum x =>
      do ascval <- to_int x;
      do _ <- range_check strfn_string_asc_lo strfn_string_asc_hi ascval;
      from_str (bytes_mul [ascval] (Z.to_nat num))
  end.

(* String.add *)
Definition concat (a b : list Z) : res (list Z) := from_str (a ++ b).

(* String.eq, String.gt (byte-wise loop over the common length, then the lengths) *)
Definition str_eq (a b : list Z) : bool := list_Z_eqb a b.

Fixpoint str_gt (l r : list Z) : bool :=
  match l, r with
  | x :: l', y :: r' => if x >? y then true else if x <? y then false else str_gt l' r'
  | _ :: _, [] => true
  | [], _ => false
  end.

(* the six comparison operators of values.py on strings; Values.from_bool gives -1 / 0 *)
Definition from_bool (b : bool) : Z := if b then -1 else 0.
Definition op_eq (a b : list Z) : Z := from_bool (str_eq a b).
Definition op_neq (a b : list Z) : Z := from_bool (negb (str_eq a b)).
Definition op_gt (a b : list Z) : Z := from_bool (str_gt a b).
Definition op_gte (a b : list Z) : Z := from_bool (negb (str_gt b a)).
Definition op_lte (a b : list Z) : Z := from_bool (negb (str_gt a b)).
Definition op_lt (a b : list Z) : Z := from_bool (str_gt b a).

(* ---------------------------------------------------------------- in-place statements *)

Definition ljust (s : list Z) (n : Z) : list Z := s ++ repeat 32 (Z.to_nat (n - zlen s)).
Definition rjust (s : list Z) (n : Z) : list Z := repeat 32 (Z.to_nat (n - zlen s)) ++ s.

(* String.lset: the new contents of the target buffer *)
Definition lset (target s : list Z) (justify_right : bool) : res (list Z) :=
  let length := zlen target in
  let cut := py_slice s 0 length in
  let in_str := if justify_right then rjust cut length else ljust cut length in
  slice_assign target 0 length in_str.

(* the byte-by-byte left-to-right copy of String.midset when source and target are the same buffer *)
Fixpoint seq_copy (n : nat) (i offset : Z) (buf : list Z) : res (list Z) :=
  match n with
  | O => Ok buf
  | S n' =>
      do buf' <- slice_assign buf (i + offset) (i + offset + 1) (py_slice buf i (i + 1));
      seq_copy n' (i + 1) offset buf'
  end.

(* String.midset; same = the source pointer equals the target pointer *)
Definition midset (target : list Z) (start num : Z) (val : list Z) (same : bool) : res (list Z) :=
  let '(offset, num) := strfn_midset_clip start num (zlen val) (zlen target) in
  if num <=? 0 then Ok target else
  if same then seq_copy (Z.to_nat num) 0 offset target
  else slice_assign target offset (offset + num) (py_slice val 0 num).

(* DataSegment.mid_ : MID$(target, start [, num]) = val *)
Definition mid_stmt (target : list Z) (xstart : Z) (xnum : option Z) (val : list Z) (same : bool)
  : res (list Z) :=
  do start <- to_int xstart;
  do num <- match xnum with None => Ok strfn_midstmt_default_num | Some x => to_int x end;
  do _ <- range_check strfn_midstmt_num_lo strfn_midstmt_num_hi num;
  do _ <- (if num >? 0 then range_check strfn_midstmt_start_lo (zlen target) start else Ok tt);
  midset target start num val same.

(* the same statement with the source given as an expression: the argument checks come first, then the
   source expression is evaluated (its errors propagate) and its VALUE - a fresh string, never the
   target's buffer - is copied in *)
Definition mid_stmt_src (target : list Z) (xstart : Z) (xnum : option Z) (src : res (list Z))
  : res (list Z) :=
  do start <- to_int xstart;
  do num <- match xnum with None => Ok strfn_midstmt_default_num | Some x => to_int x end;
  do _ <- range_check strfn_midstmt_num_lo strfn_midstmt_num_hi num;
  do _ <- (if num >? 0 then range_check strfn_midstmt_start_lo (zlen target) start else Ok tt);
  do val <- src;
  midset target start num val false.

(* DataSegment.lset_ / rset_ *)
Definition lset_stmt (target s : list Z) : res (list Z) := lset target s false.
Definition rset_stmt (target s : list Z) : res (list Z) := lset target s true.

(* LSET / RSET with the source given as an expression (evaluated first, errors propagate) *)
Definition lset_src (target : list Z) (src : res (list Z)) (justify_right : bool) : res (list Z) :=
  do s <- src; lset target s justify_right.

(* ---------------------------------------------------------------- storing a result when memory is short
   StringSpace.store with its free-space reservation: the 255-byte limit is tested first (gen: statement
   order checked), then DataSegment.check_free (regenerated) compares the free string space before and -
   if that is not more than the size - after a garbage collection with the size.  free_before / free_after
   are the two readings of DataSegment._get_free (the collector itself is C10's model). *)
Definition store_mem (free_before free_after : Z) (l : list Z) : res (list Z) :=
  do len <- strfn_store_check l;
  do _ <- strfn_check_free free_before free_after len strfn_OUT_OF_STRING_SPACE;
  Ok l.

(* String.add when memory is short *)
Definition concat_mem (free_before free_after : Z) (a b : list Z) : res (list Z) :=
  store_mem free_before free_after (a ++ b).
