(* C23 - RUN, CLEAR and NEW reset state; CHAIN keeps exactly the COMMON variables.
   Executable model, no proofs.

   1. the session state as a record of the components the property names;
   2. an interpreter of the REGENERATED reset table (gen/Gen_clear.v): every table of
      Implementation._clear_all / clear_ / new_ / run_ / chain_, Interpreter.clear /
      clear_stacks_and_pointers / _clear_stacks / _init_error_trapping, DataSegment.clear / clear_deftype /
      hold_garbage, Scalars.clear, Arrays.clear / clear_base, Randomiser.clear, StringSpace.clear / rebuild,
      UserFunctionManager.clear is executed operation by operation; the meaning of a target string is given
      here (prim_call / prim_assign), unknown strings are Unsupported (fail closed);
   3. a hand model of DataSegment.preserve_commons (memory.py) - copy COMMON scalars / arrays, migrate
      their strings into a fresh string space in descending address order, [yield], memory check, rebuild,
      re-allocate - and of Interpreter.gather_commons on parsed COMMON declarations. *)
From Coq Require Import ZArith List Bool String.
From RecordUpdate Require Import RecordSet.
From PCB Require Import lib.Result lib.PyInt lib.Harness lib.ClearTable gen.Gen_clear.
Import ListNotations RecordSetNotations.
Open Scope Z_scope.

Definition bytes := list Z.
Definition seq (a b : string) : bool := String.eqb a b.
Arguments seq (a b)%string_scope.

(* ------------------------------------------------------------------------------------------------ *)
(* dictionaries as association lists (first match wins; insertion of a new key appends) *)

Fixpoint alookup {V} (k : bytes) (l : list (bytes * V)) : option V :=
  match l with
  | [] => None
  | (k', v) :: r => if list_Z_eqb k k' then Some v else alookup k r
  end.
Definition amem {V} (k : bytes) (l : list (bytes * V)) : bool :=
  match alookup k l with Some _ => true | None => false end.
Fixpoint areplace {V} (k : bytes) (v : V) (l : list (bytes * V)) : list (bytes * V) :=
  match l with
  | [] => []
  | (k', v') :: r => if list_Z_eqb k k' then (k', v) :: r else (k', v') :: areplace k v r
  end.
Fixpoint nmem (k : bytes) (l : list bytes) : bool :=
  match l with [] => false | k' :: r => list_Z_eqb k k' || nmem k r end.
Fixpoint zlookup {V} (k : Z) (l : list (Z * V)) : option V :=
  match l with
  | [] => None
  | (k', v) :: r => if k =? k' then Some v else zlookup k r
  end.
Fixpoint plookup {V} (a b : Z) (l : list ((Z * Z) * V)) : option V :=
  match l with
  | [] => None
  | ((a', b'), v) :: r => if (a =? a') && (b =? b') then Some v else plookup a b r
  end.

(* ------------------------------------------------------------------------------------------------ *)
(* session state *)

Record state := mkState {
  (* memory geometry (memory.py DataSegment) *)
  m_total : Z;             (* total_memory *)
  m_stack : Z;             (* stack_size *)
  m_code_start : Z;        (* code_start *)
  m_prog_size : Z;         (* program.size() *)
  m_allow_collect : bool;  (* _allow_collect *)
  (* scalars.py *)
  sc_vars : list (bytes * bytes);       (* _vars : name -> value bytes, dict order *)
  sc_mem : list bytes;                  (* keys of _var_memory *)
  sc_current : Z;
  (* arrays.py *)
  ar_dims : list (bytes * list Z);      (* _dims *)
  ar_bufs : list (bytes * bytes);       (* _buffers *)
  ar_mem : list bytes;                  (* keys of _array_memory *)
  ar_current : Z;
  ar_base : option Z;                   (* _base *)
  ar_base_by_dim : bool;                (* _base_set_by_dim *)
  (* strings.py StringSpace *)
  ss_strs : list (Z * bytes);           (* _strings : address -> bytes *)
  ss_current : Z;
  foreign : list ((Z * Z) * bytes);     (* what view() returns for pointers below var_start
                                           (string literals in program code, FIELD buffers): (addr,len) -> bytes *)
  deftype : list Z;                     (* 26 sigils *)
  functions : list bytes;               (* keys of parser.user_functions._fn_dict *)
  (* interpreter.py *)
  gosub_stack : list Z;                 (* frames are opaque *)
  for_stack : list Z;
  while_stack : list Z;
  on_error : option Z;
  err_handle : bool;                    (* error_handle_mode *)
  err_resume : bool;                    (* error_resume is not None *)
  err_num : Z;
  err_pos : Z;
  stop_pos : option Z;
  data_pos : Z;
  run_mode : bool;
  tron : bool;
  seed : Z;                             (* randomiser._seed *)
  (* basicevents.py, by index in BasicEvents.all *)
  ev_enabled : list Z;
  ev_gosub : list Z;                    (* handlers with a GOSUB target *)
  ev_stopped : list Z;
  ev_suspend : bool;
  files : list Z;                       (* open file numbers *)
  stick_on : bool;
  def_seg : Z;                          (* DEF SEG (all_memory.segment): no command of this model touches it *)
  math_raise : bool                     (* values.error_handler._do_raise: Overflow / Division by zero stop the
                                           program (set by ON ERROR GOTO n) instead of message + machine infinity *)
}.

#[export] Instance eta_state : Settable _ := settable! mkState
  < m_total; m_stack; m_code_start; m_prog_size; m_allow_collect;
    sc_vars; sc_mem; sc_current; ar_dims; ar_bufs; ar_mem; ar_current; ar_base; ar_base_by_dim;
    ss_strs; ss_current; foreign; deftype; functions;
    gosub_stack; for_stack; while_stack; on_error; err_handle; err_resume; err_num; err_pos;
    stop_pos; data_pos; run_mode; tron; seed; ev_enabled; ev_gosub; ev_stopped; ev_suspend; files; stick_on; def_seg; math_raise >.

Definition stack_start (s : state) : Z := m_total s - m_stack s - 2.
Definition var_start (s : state) : Z := m_code_start s + m_prog_size s.
Definition var_current (s : state) : Z := var_start s + sc_current s.
Definition get_free (s : state) : Z := ss_current s - var_current s - ar_current s.

(* a separate StringSpace object (string_store in preserve_commons) *)
Record store := mkStore { st_strs : list (Z * bytes); st_cur : Z }.

(* ------------------------------------------------------------------------------------------------ *)
(* outcomes of commands: the state is kept on errors (the property talks about what is left) *)

Inductive out : Type :=
| Done (s : state)
| Raised (e : Z) (s : state)          (* BASICError e *)
| Crashed (h : Z) (s : state)         (* host exception class h (lib/Result.v) *)
| Unsupported (w : string)            (* outside the modelled fragment / unknown table entry *)
| NoFuel.

(* lift a pure `res` computation that reads state s *)
Definition lift {A} (r : res A) (s : state) (k : A -> out) : out :=
  match r with
  | Ok a => k a
  | Err e => Raised e s
  | Host h => Crashed h s
  | OutOfFuel => Unsupported "model"
  end.

(* ------------------------------------------------------------------------------------------------ *)
(* names, sizes *)

Definition last_byte (n : bytes) : Z := last n 0.
Definition is_str_name (n : bytes) : bool := last_byte n =? 36.
(* scalar records of DEF FN functions have their first character shifted by 128; they are no strings *)
Definition is_str_scalar (n : bytes) : bool :=
  is_str_name n && match n with c :: _ => c <? 128 | [] => false end.

(* values.size_bytes: TYPE_TO_SIZE[name[-1:]] *)
Definition size_bytes (n : bytes) : res Z :=
  match n with
  | [] => Host host_KeyError
  | _ => let c := last_byte n in
         if c =? 37 then Ok 2 else if c =? 33 then Ok 4 else if c =? 35 then Ok 8
         else if c =? 36 then Ok 3 else Host host_KeyError
  end.

Definition scalar_size (n : bytes) : res Z :=
  do sz <- size_bytes n; Ok (Z.max 3 (zlen n) + 1 + sz).

(* Arrays.index(dimensions, dimensions) + 1 *)
Fixpoint flat_index (base : Z) (dims : list Z) (big area : Z) : Z :=
  match dims with
  | [] => big
  | d :: r => flat_index base r (big + area * (d - base)) (area * (d + 1 - base))
  end.
Definition flat_length (base : option Z) (dims : list Z) : res Z :=
  match dims, base with
  | [], _ => Ok 1
  | _, None => Host host_TypeError
  | _, Some b => Ok (flat_index b dims 0 1 + 1)
  end.
Definition array_record_size (n : bytes) (dims : list Z) : Z :=
  1 + Z.max 3 (zlen n) + 3 + 2 * zlen dims.
Definition array_buffer_size (base : option Z) (n : bytes) (dims : list Z) : res Z :=
  do fl <- flat_length base dims; do sz <- size_bytes n; Ok (fl * sz).
Definition array_size (base : option Z) (n : bytes) (dims : list Z) : res Z :=
  do b <- array_buffer_size base n dims; Ok (array_record_size n dims + b).

(* struct.pack / unpack '<BH' *)
Definition pack3 (p : Z * Z) : res bytes :=
  let '(l, a) := p in
  if (0 <=? l) && (l <=? 255) && (0 <=? a) && (a <=? 65535)
  then Ok [l; a mod 256; a / 256] else Host host_StructError.
Definition unpack3 (b : bytes) : res (Z * Z) :=
  match b with
  | [l; lo; hi] => Ok (l, lo + 256 * hi)
  | _ => Host host_StructError
  end.

(* ------------------------------------------------------------------------------------------------ *)
(* StringSpace.view / store / copy_to *)

Definition view (s : state) (len addr : Z) : res bytes :=
  if len =? 0 then Ok []
  else if var_start s <=? addr then
    match zlookup addr (ss_strs s) with Some b => Ok b | None => Host host_KeyError end
  else
    match plookup addr len (foreign s) with Some b => Ok b | None => Host host_Other end.

(* DataSegment.check_free while garbage collection is held *)
Definition check_free_held (s : state) (size err : Z) : res unit :=
  if get_free s <=? size then
    (if m_allow_collect s then OutOfFuel (* would collect garbage: not part of this model *) else Err err)
  else Ok tt.

(* string_store.store(in_str): the free-memory check looks at the session's own string space *)
Definition store_put (s : state) (d : store) (b : bytes) : res ((Z * Z) * store) :=
  let len := zlen b in
  if 255 <? len then Err err_STRING_TOO_LONG else
  do _ <- check_free_held s len err_OUT_OF_STRING_SPACE;
  let cur := st_cur d - len in
  Ok ((len, cur + 1),
      mkStore (if 0 <? len then (cur + 1, b) :: st_strs d else st_strs d) cur).

(* StringSpace.copy_to (with the D23c bound) *)
Definition copy_to (s : state) (d : store) (len addr : Z) : res ((Z * Z) * store) :=
  do b <- view s len addr;
  if st_cur d - zlen b <? m_code_start s then Err err_OUT_OF_MEMORY else
  store_put s d b.

(* sorted(items, key=address, reverse=True): stable, descending *)
Section Migrate.
  Context {K : Type}.
  Definition item := (K * (Z * Z))%type.
  Definition iaddr (x : item) : Z := snd (snd x).
  Fixpoint ins_desc (x : item) (l : list item) : list item :=
    match l with
    | [] => [x]
    | y :: r => if iaddr y <=? iaddr x then x :: y :: r else y :: ins_desc x r
    end.
  Fixpoint sort_desc (l : list item) : list item :=
    match l with [] => [] | x :: r => ins_desc x (sort_desc r) end.

  (* copy every item, in the given order; result: new pointers in processing order *)
  Fixpoint migrate (s : state) (items : list item) (d : store) : res (list item * store) :=
    match items with
    | [] => Ok ([], d)
    | (k, (l, a)) :: r =>
        do pd <- copy_to s d l a;
        do rd <- migrate s r (snd pd);
        Ok ((k, fst pd) :: fst rd, snd rd)
    end.
End Migrate.

(* ------------------------------------------------------------------------------------------------ *)
(* preserve_commons, part before the yield *)

Record saved := mkSaved {
  sv_scalars : list (bytes * bytes);
  sv_arrays : list (bytes * (list Z * bytes));
  sv_store : store
}.

Fixpoint pick_scalars (cs : list bytes) (s : state) : list (bytes * bytes) :=
  match cs with
  | [] => []
  | n :: r => match alookup n (sc_vars s) with
              | Some v => (n, v) :: pick_scalars r s
              | None => pick_scalars r s
              end
  end.

Fixpoint pick_arrays (ca : list bytes) (s : state) : res (list (bytes * (list Z * bytes))) :=
  match ca with
  | [] => Ok []
  | n :: r => match alookup n (ar_dims s) with
              | Some d => match alookup n (ar_bufs s) with
                          | Some b => do t <- pick_arrays r s; Ok ((n, (d, b)) :: t)
                          | None => Host host_KeyError
                          end
              | None => pick_arrays r s
              end
  end.

Fixpoint scalar_items (l : list (bytes * bytes)) : res (list (bytes * (Z * Z))) :=
  match l with
  | [] => Ok []
  | (n, v) :: r =>
      if is_str_scalar n then
        do p <- unpack3 v; do t <- scalar_items r; Ok ((n, p) :: t)
      else scalar_items r
  end.

(* the 3-byte pointers of a string array buffer, with their byte offsets *)
Fixpoint chunk_items (n : bytes) (off : Z) (b : bytes) (fuel : nat) : res (list ((bytes * Z) * (Z * Z))) :=
  match fuel with
  | O => OutOfFuel
  | S f =>
    match b with
    | [] => Ok []
    | l :: lo :: hi :: r => do t <- chunk_items n (off + 3) r f; Ok (((n, off), (l, lo + 256 * hi)) :: t)
    | _ => Host host_StructError
    end
  end.

Fixpoint array_items (l : list (bytes * (list Z * bytes))) : res (list ((bytes * Z) * (Z * Z))) :=
  match l with
  | [] => Ok []
  | (n, (_, b)) :: r =>
      if is_str_name n then
        do c <- chunk_items n 0 b (S (List.length b)); do t <- array_items r; Ok (c ++ t)
      else array_items r
  end.

Fixpoint klookup (n : bytes) (l : list (bytes * (Z * Z))) : option (Z * Z) :=
  match l with
  | [] => None
  | (n', p) :: r => if list_Z_eqb n n' then Some p else klookup n r
  end.
Fixpoint k2lookup (n : bytes) (off : Z) (l : list ((bytes * Z) * (Z * Z))) : option (Z * Z) :=
  match l with
  | [] => None
  | ((n', o'), p) :: r => if list_Z_eqb n n' && (off =? o') then Some p else k2lookup n off r
  end.

(* common_scalars[name] = new_string().from_pointer(length, address) for every migrated scalar *)
Fixpoint patch_scalars (l : list (bytes * bytes)) (ptrs : list (bytes * (Z * Z))) : res (list (bytes * bytes)) :=
  match l with
  | [] => Ok []
  | (n, v) :: r =>
      do v' <- match klookup n ptrs with Some p => pack3 p | None => Ok v end;
      do t <- patch_scalars r ptrs; Ok ((n, v') :: t)
  end.

(* common_arrays[name][1][offset:offset+3] = struct.pack('<BH', length, address) for every element *)
Fixpoint patch_buffer (n : bytes) (off : Z) (b : bytes) (ptrs : list ((bytes * Z) * (Z * Z))) (fuel : nat)
  : res bytes :=
  match fuel with
  | O => OutOfFuel
  | S f =>
    match b with
    | b0 :: b1 :: b2 :: r =>
        do c <- match k2lookup n off ptrs with Some p => pack3 p | None => Ok [b0; b1; b2] end;
        do t <- patch_buffer n (off + 3) r ptrs f; Ok (c ++ t)
    | rest => Ok rest
    end
  end.
Fixpoint patch_arrays (l : list (bytes * (list Z * bytes))) (ptrs : list ((bytes * Z) * (Z * Z)))
  : res (list (bytes * (list Z * bytes))) :=
  match l with
  | [] => Ok []
  | (n, (d, b)) :: r =>
      do b' <- (if is_str_name n then patch_buffer n 0 b ptrs (S (List.length b)) else Ok b);
      do t <- patch_arrays r ptrs; Ok ((n, (d, b')) :: t)
  end.

Definition migrate_commons (cs ca : list bytes) (s : state) : res saved :=
  let scal := pick_scalars cs s in
  do arrs <- pick_arrays ca s;
  do sitems <- scalar_items scal;
  do aitems <- array_items arrs;
  let d0 := mkStore [] (stack_start s) in
  do r1 <- migrate s (sort_desc sitems) d0;
  do scal' <- patch_scalars scal (fst r1);
  do r2 <- migrate s (sort_desc aitems) (snd r1);
  do arrs' <- patch_arrays arrs (fst r2);
  Ok (mkSaved scal' arrs' (snd r2)).

(* ------------------------------------------------------------------------------------------------ *)
(* preserve_commons, part after the yield: Scalars.set / Arrays.allocate with garbage collection held *)

Fixpoint sum_scalar_sizes (l : list (bytes * bytes)) : res Z :=
  match l with
  | [] => Ok 0
  | (n, _) :: r => do a <- scalar_size n; do b <- sum_scalar_sizes r; Ok (a + b)
  end.
Fixpoint sum_array_sizes (base : option Z) (l : list (bytes * (list Z * bytes))) : res Z :=
  match l with
  | [] => Ok 0
  | (n, (d, _)) :: r => do a <- array_size base n d; do b <- sum_array_sizes base r; Ok (a + b)
  end.

(* Scalars.set(name, value) with a value of the variable's own type *)
Definition scalars_set (n v : bytes) (s : state) : out :=
  let store_value (s1 : state) : out :=
    match alookup n (sc_vars s1) with
    | Some old => if Nat.eqb (List.length old) (List.length v)
                  then Done (s1 <| sc_vars := areplace n v (sc_vars s1) |>)
                  else Crashed host_ValueError s1
    | None => Done (s1 <| sc_vars := sc_vars s1 ++ [(n, v)] |>)
    end in
  if nmem n (sc_mem s) then store_value s
  else
    lift (scalar_size n) s (fun size =>
    lift (check_free_held s size err_OUT_OF_MEMORY) s (fun _ =>
    store_value (s <| sc_current := sc_current s + size |> <| sc_mem := sc_mem s ++ [n] |>))).

Definition any_lt (x : Z) (l : list Z) : bool := existsb (fun d => d <? x) l.

(* Arrays.allocate(name, dimensions); view_full_buffer(name)[:] = buf *)
Definition arrays_restore (n : bytes) (dims : list Z) (buf : bytes) (s : state) : out :=
  match dims with
  | [] => Crashed host_KeyError s          (* DIM A does nothing; then view_full_buffer raises *)
  | _ =>
    if amem n (ar_dims s) then Raised err_DUPLICATE_DEFINITION s
    else if any_lt 0 dims then Raised err_IFC s
    else
      let s1 := match ar_base s with
                | None => s <| ar_base := Some 0 |> <| ar_base_by_dim := true |>
                | Some _ => s
                end in
      if (match ar_base s with Some b => any_lt b dims | None => false end)
      then Raised err_SUBSCRIPT_OUT_OF_RANGE s
      else
        lift (array_buffer_size (ar_base s1) n dims) s1 (fun abytes =>
        let total := array_record_size n dims + abytes in
        lift (check_free_held s1 total err_OUT_OF_MEMORY) s1 (fun _ =>
        let s2 := s1 <| ar_current := ar_current s1 + total |>
                     <| ar_mem := ar_mem s1 ++ [n] |>
                     <| ar_bufs := ar_bufs s1 ++ [(n, buf)] |>
                     <| ar_dims := ar_dims s1 ++ [(n, dims)] |> in
        if zlen buf =? abytes then Done s2
        else Crashed host_ValueError
               (s2 <| ar_bufs := ar_bufs s1 ++ [(n, repeat 0 (Z.to_nat abytes))] |>)))
  end.

Fixpoint restore_scalars (l : list (bytes * bytes)) (s : state) : out :=
  match l with
  | [] => Done s
  | (n, v) :: r => match scalars_set n v s with Done s1 => restore_scalars r s1 | o => o end
  end.
Fixpoint restore_arrays (l : list (bytes * (list Z * bytes))) (s : state) : out :=
  match l with
  | [] => Done s
  | (n, (d, b)) :: r => match arrays_restore n d b s with Done s1 => restore_arrays r s1 | o => o end
  end.

(* ------------------------------------------------------------------------------------------------ *)
(* Interpreter.gather_commons on the parsed COMMON declarations of the program:
   (name, 0) plain, (name, 1) with round brackets, (name, 2) with square brackets (ignored) *)

Definition upper (c : Z) : Z := if (97 <=? c) && (c <=? 122) then c - 32 else c.
Definition is_sigil (c : Z) : bool := (c =? 36) || (c =? 37) || (c =? 33) || (c =? 35).
Definition complete_name (dt : list Z) (n : bytes) : res bytes :=
  match n with
  | [] => Ok n
  | c :: _ =>
      if is_sigil (last_byte n) then Ok n
      else let i := upper c - 65 in
           if (0 <=? i) && (i <? zlen dt) then Ok (n ++ [nth (Z.to_nat i) dt 0])
           else if (- zlen dt <=? i) && (i <? 0) then Ok (n ++ [nth (Z.to_nat (zlen dt + i)) dt 0])
           else Host host_IndexError
  end.

Fixpoint gather (dt : list Z) (kind : Z) (decls : list (bytes * Z)) (acc : list bytes) : res (list bytes) :=
  match decls with
  | [] => Ok acc
  | (n, k) :: r =>
      if k =? kind then
        do n' <- complete_name dt n;
        gather dt kind r (if nmem n' acc then acc else acc ++ [n'])
      else gather dt kind r acc
  end.

Fixpoint nodupb (l : list bytes) : bool :=
  match l with [] => true | n :: r => negb (nmem n r) && nodupb r end.
Definition subset (a b : list bytes) : bool := forallb (fun n => nmem n b) a.
Definition same_set (a b : list bytes) : bool :=
  subset a b && subset b a && Nat.eqb (List.length a) (List.length b).

(* ------------------------------------------------------------------------------------------------ *)
(* local environments of table execution *)

Inductive val : Type :=
| VNone | VBool (b : bool) | VInt (z : Z)
| VNames (l : list bytes)
| VDecls (l : list (bytes * Z))
| VStore (d : store)
| VSaved (sv : saved).

Definition env := list (string * val).
Fixpoint elookup (k : string) (e : env) : option val :=
  match e with
  | [] => None
  | (k', v) :: r => if String.eqb k k' then Some v else elookup k r
  end.
Definition truthy (v : val) : bool :=
  match v with
  | VNone => false | VBool b => b | VInt z => negb (z =? 0)
  | VNames l => match l with [] => false | _ => true end
  | VDecls l => match l with [] => false | _ => true end
  | VStore _ | VSaved _ => true
  end.

Definition strip_prefix (p s : string) : option string :=
  if String.prefix p s then Some (String.substring (String.length p) (String.length s - String.length p) s)
  else None.
Definition strip_suffix (suf s : string) : option string :=
  let ls := String.length s in let lf := String.length suf in
  if Nat.leb lf ls && String.eqb (String.substring (ls - lf) lf s) suf
  then Some (String.substring 0 (ls - lf) s) else None.

Definition is_none (v : val) : bool := match v with VNone => true | _ => false end.

(* the expression vocabulary of the tables: constants, names, `not NAME`, `NAME is [not] None`, and a few
   fixed compound tests whose value is supplied by the caller under the full text as key *)
Definition eval_expr (e : env) (x : string) : option val :=
  if seq x "True" then Some (VBool true)
  else if seq x "False" then Some (VBool false)
  else if seq x "None" then Some VNone
  else if seq x "0" then Some (VInt 0)
  else if seq x "error.IFC" then Some (VInt err_IFC)
  else if seq x "common_scalars or common_arrays or preserve_all" then
    match elookup "common_scalars" e, elookup "common_arrays" e, elookup "preserve_all" e with
    | Some a, Some b, Some c => Some (VBool (truthy c || (truthy a || truthy b)))   (* same truth value *)
    | _, _, _ => None
    end
  else if seq x "self.program.protected and merge" then
    match elookup "self.program.protected" e, elookup "merge" e with
    | Some a, Some b => Some (VBool (truthy b && truthy a))      (* same truth value *)
    | _, _ => None
    end
  else if seq x "expr < 0" then
    match elookup "expr" e with Some (VInt z) => Some (VBool (z <? 0)) | _ => None end
  else
    match strip_prefix "not " x with
    | Some n => option_map (fun v => VBool (negb (truthy v))) (elookup n e)
    | None =>
      match strip_suffix " is not None" x with
      | Some n => option_map (fun v => VBool (negb (is_none v))) (elookup n e)
      | None =>
        match strip_suffix " is None" x with
        | Some n => option_map (fun v => VBool (is_none v)) (elookup n e)
        | None => elookup x e        (* a name, or a compound test supplied by the caller *)
        end
      end
    end.

(* a guard: "<finally>" is a marker (true), "!" negates *)
Definition eval_guard (e : env) (g : string) : option bool :=
  if seq g "<finally>" then Some true
  else match strip_prefix "!" g with
       | Some g' => option_map (fun v => negb (truthy v)) (eval_expr e g')
       | None => option_map truthy (eval_expr e g)
       end.
Fixpoint eval_guards (e : env) (gs : list string) : option bool :=
  match gs with
  | [] => Some true
  | g :: r => match eval_guard e g with
              | Some true => eval_guards e r
              | Some false => Some false
              | None => None
              end
  end.

Definition rhs_val (r : rhs) : option val :=
  match r with
  | RNone => Some VNone | RBool b => Some (VBool b) | RInt z => Some (VInt z)
  | _ => None
  end.

Definition arg_pos (args : list arg) (i : nat) : option string :=
  match nth_error (filter (fun a => match a with APos _ => true | _ => false end) args) i with
  | Some (APos x) => Some x
  | _ => None
  end.
Fixpoint arg_kw (args : list arg) (k : string) : option string :=
  match args with
  | [] => None
  | AKw k' x :: r => if String.eqb k k' then Some x else arg_kw r k
  | _ :: r => arg_kw r k
  end.

(* bind the parameters of a called table: positional, keyword, default *)
Fixpoint bind_params (e : env) (params : list (string * rhs)) (args : list arg) (i : nat) : option env :=
  match params with
  | [] => Some []
  | (p, d) :: r =>
      let v := match arg_pos args i with
               | Some x => eval_expr e x
               | None => match arg_kw args p with
                         | Some x => eval_expr e x
                         | None => rhs_val d
                         end
               end in
      match v, bind_params e r args (S i) with
      | Some v', Some t => Some ((p, v') :: t)
      | _, _ => None
      end
  end.

Fixpoint tlookup (k : string) (l : list (string * fn)) : option fn :=
  match l with
  | [] => None
  | (k', f) :: r => if String.eqb k k' then Some f else tlookup k r
  end.

(* ------------------------------------------------------------------------------------------------ *)
(* meaning of the table entries *)

Inductive action : Type :=
| ADo (o : out)                               (* a primitive with its outcome *)
| ASub (cls : string) (f : string)            (* run another table *)
| ANone (w : string).                         (* not understood *)

Definition unsup (cls t : string) : action := ANone (cls ++ "." ++ t)%string.

Definition arg_val (e : env) (args : list arg) (i : nat) : option val :=
  match arg_pos args i with Some x => eval_expr e x | None => None end.

(* self.<target>(args) in a method of class cls *)
Definition prim_call (cls t : string) (args : list arg) (e : env) (s : state) : action :=
  if seq cls "Implementation" then
    if seq t "files.close_all" then ADo (Done (s <| files := [] |>))
    else if seq t "memory.clear" then ASub "DataSegment" "clear"
    else if seq t "parser.user_functions.clear" then ASub "UserFunctionManager" "clear"
    else if seq t "sound.stop_all_sound" then ADo (Done s)       (* sound, graphics: not in the property *)
    else if seq t "sound.reset_play" then ADo (Done s)
    else if seq t "graphics.reset" then ADo (Done s)
    else if seq t "randomiser.clear" then ASub "Randomiser" "clear"
    else if seq t "interpreter.clear" then ASub "Interpreter" "clear"
    else if seq t "interpreter.clear_stacks_and_pointers" then ASub "Interpreter" "clear_stacks_and_pointers"
    else if seq t "_clear_all" then ASub "Implementation" "_clear_all"
    else if seq t "memory.set_basic_memory_size" then
      (* DataSegment.set_basic_memory_size *)
      match arg_val e args 0 with
      | Some (VInt n) =>
          ADo (if n <=? 0 then Raised err_IFC s
               else if m_total s <? n then Raised err_OUT_OF_MEMORY s
               else Done (s <| m_total := n |>))
      | _ => unsup cls t
      end
    else if seq t "memory.set_stack_size" then
      match arg_val e args 0 with
      | Some (VInt n) =>
          ADo (if n =? 0 then Raised err_IFC s else Done (s <| m_stack := n |>))
      | _ => unsup cls t
      end
    else if seq t "program.erase" then ADo (Done (s <| m_prog_size := 3 |>))
    else if seq t "program.load" then
      match elookup "<new_prog_size>" e with
      | Some (VInt n) => ADo (Done (s <| m_prog_size := n |>))
      | _ => unsup cls t
      end
    else if seq t "program.merge" then
      match elookup "<new_prog_size>" e with
      | Some (VInt n) => ADo (Done (s <| m_prog_size := n |>))
      | _ => unsup cls t
      end
    else if seq t "program.delete" then ADo (Done s)     (* the size is set by the merge that follows *)
    else if seq t "interpreter.set_pointer" then
      match arg_val e args 0 with
      | Some (VBool b) => ADo (Done (s <| run_mode := b |>))
      | _ => unsup cls t
      end
    else if seq t "interpreter.jump" then
      match arg_val e args 0, elookup "<jump_missing>" e with
      | Some VNone, _ => ADo (Done (s <| run_mode := true |>))
      | Some (VInt _), Some (VBool missing) =>
          match arg_kw args "err" with
          | None => ADo (if missing then Raised err_UNDEFINED_LINE_NUMBER s else Done (s <| run_mode := true |>))
          | Some x => match eval_expr e x with
                      | Some (VInt n) => ADo (if missing then Raised n s else Done (s <| run_mode := true |>))
                      | _ => unsup cls t
                      end
          end
      | _, _ => unsup cls t
      end
    else if seq t "strings.fix_temporaries" then ADo (Done s)   (* temporaries are not modelled *)
    else unsup cls t
  else if seq cls "Interpreter" then
    if seq t "_init_error_trapping" then ASub "Interpreter" "_init_error_trapping"
    else if seq t "_clear_stacks" then ASub "Interpreter" "_clear_stacks"
    else if seq t "_basic_events.reset" then
      ADo (Done (s <| ev_enabled := [] |> <| ev_gosub := [] |> <| ev_stopped := [] |> <| ev_suspend := false |>))
    else if seq t "_values.error_handler.suspend" then
      (* FloatErrorHandler.suspend(do_raise) (fix D23e) *)
      match arg_val e args 0 with
      | Some (VBool b) => ADo (Done (s <| math_raise := b |>))
      | _ => unsup cls t
      end
    else if seq t "_program_code.seek" then ADo (Done s)
    else if seq t "set_pointer" then
      match arg_val e args 0 with
      | Some (VBool b) => ADo (Done (s <| run_mode := b |>))
      | _ => unsup cls t
      end
    else unsup cls t
  else if seq cls "DataSegment" then
    if seq t "clear_deftype" then ASub "DataSegment" "clear_deftype"
    else if seq t "scalars.clear" then ASub "Scalars" "clear"
    else if seq t "arrays.clear" then ASub "Arrays" "clear"
    else if seq t "strings.clear" then ASub "StringSpace" "clear"
    else if seq t "arrays.clear_base" then ASub "Arrays" "clear_base"
    else if seq t "reset_fields" then ADo (Done s)               (* FIELD buffers: not in the property *)
    else if seq t "temp_values.clear" then ADo (Done s)          (* temporaries (fix D16): not modelled *)
    else unsup cls t
  else if seq cls "StringSpace" then
    if seq t "_strings.clear" then ADo (Done (s <| ss_strs := [] |>))
    else if seq t "clear" then ASub "StringSpace" "clear"
    else if seq t "_strings.update" then
      match arg_pos args 0, elookup "stringspace" e with
      | Some x, Some (VStore d) =>
          if seq x "stringspace._strings"
          then ADo (Done (s <| ss_strs := st_strs d ++ ss_strs s |>))  (* dict.update: new entries win *)
          else unsup cls t
      | _, _ => unsup cls t
      end
    else unsup cls t
  else if seq cls "UserFunctionManager" then
    if seq t "_fn_dict.clear" then ADo (Done (s <| functions := [] |>)) else unsup cls t
  else unsup cls t.

(* self.<target> = v in a method of class cls *)
Definition prim_assign (cls t : string) (v : rhs) (e : env) (s : state) : action :=
  if seq cls "Implementation" then
    match v with
    | RBool b =>
        if seq t "stick.is_on" then ADo (Done (s <| stick_on := b |>))
        else if seq t "interpreter.tron" then ADo (Done (s <| tron := b |>))
        else if seq t "interpreter.error_handle_mode" then ADo (Done (s <| err_handle := b |>))
        else unsup cls t
    | RInt z => if seq t "interpreter.on_error" then ADo (Done (s <| on_error := Some z |>)) else unsup cls t
    | _ => unsup cls t
    end
  else if seq cls "Interpreter" then
    match v with
    | RInt z =>
        if seq t "error_num" then ADo (Done (s <| err_num := z |>))
        else if seq t "error_pos" then ADo (Done (s <| err_pos := z |>))
        else if seq t "data_pos" then ADo (Done (s <| data_pos := z |>))
        else unsup cls t
    | REmptyList =>
        if seq t "for_stack" then ADo (Done (s <| for_stack := [] |>))
        else if seq t "while_stack" then ADo (Done (s <| while_stack := [] |>))
        else if seq t "gosub_stack" then ADo (Done (s <| gosub_stack := [] |>))
        else unsup cls t
    | RNone =>
        if seq t "stop_pos" then ADo (Done (s <| stop_pos := None |>))
        else if seq t "error_resume" then ADo (Done (s <| err_resume := false |>))
        else if seq t "on_error" then ADo (Done (s <| on_error := None |>))
        else unsup cls t
    | RBool b =>
        if seq t "error_handle_mode" then ADo (Done (s <| err_handle := b |>)) else unsup cls t
    | _ => unsup cls t
    end
  else if seq cls "DataSegment" then
    match v with
    | RBool b => if seq t "_allow_collect" then ADo (Done (s <| m_allow_collect := b |>)) else unsup cls t
    | RExpr x =>
        if seq t "deftype" && seq x "[values.SNG] * 26" then ADo (Done (s <| deftype := repeat 33 26 |>))
        else unsup cls t
    | _ => unsup cls t
    end
  else if seq cls "Scalars" then
    match v with
    | REmptyDict =>
        if seq t "_vars" then ADo (Done (s <| sc_vars := [] |>))
        else if seq t "_var_memory" then ADo (Done (s <| sc_mem := [] |>))
        else unsup cls t
    | RInt z => if seq t "current" then ADo (Done (s <| sc_current := z |>)) else unsup cls t
    | _ => unsup cls t
    end
  else if seq cls "Arrays" then
    match v with
    | REmptyDict =>
        if seq t "_dims" then ADo (Done (s <| ar_dims := [] |>))
        else if seq t "_buffers" then ADo (Done (s <| ar_bufs := [] |>))
        else if seq t "_array_memory" then ADo (Done (s <| ar_mem := [] |>))
        else unsup cls t
    | RInt z => if seq t "current" then ADo (Done (s <| ar_current := z |>)) else unsup cls t
    | RNone => if seq t "_base" then ADo (Done (s <| ar_base := None |>)) else unsup cls t
    | RBool b => if seq t "_base_set_by_dim" then ADo (Done (s <| ar_base_by_dim := b |>)) else unsup cls t
    | _ => unsup cls t
    end
  else if seq cls "Randomiser" then
    match v with
    | RInt z => if seq t "_seed" then ADo (Done (s <| seed := z |>)) else unsup cls t
    | _ => unsup cls t
    end
  else if seq cls "StringSpace" then
    match v with
    | RExpr x =>
        if seq t "current" && seq x "self._memory.stack_start()"
        then ADo (Done (s <| ss_current := stack_start s |>))
        else if seq t "current" && seq x "stringspace.current" then
          match elookup "stringspace" e with
          | Some (VStore d) => ADo (Done (s <| ss_current := st_cur d |>))
          | _ => unsup cls t
          end
        else unsup cls t
    | _ => unsup cls t
    end
  else unsup cls t.

(* ------------------------------------------------------------------------------------------------ *)
(* table execution *)

(* split the operations after an OEnter at its OExit *)
Fixpoint split_exit (t : string) (ops : list gop) : list gop * list gop :=
  match ops with
  | [] => ([], [])
  | g :: r => match g_op g with
              | OExit t' => if String.eqb t t' then ([], r)
                            else let '(a, b) := split_exit t r in (g :: a, b)
              | _ => let '(a, b) := split_exit t r in (g :: a, b)
              end
  end.
Fixpoint split_yield (ops : list gop) : list gop * list gop :=
  match ops with
  | [] => ([], [])
  | g :: r => match g_op g with
              | OYield => ([], r)
              | _ => let '(a, b) := split_yield r in (g :: a, b)
              end
  end.
Definition has_finally (g : gop) : bool := existsb (fun x => seq x "<finally>") (g_guards g).

(* DataSegment.hold_garbage, from its regenerated table: the part before the yield, and the part after it
   (on an exception only what stands in a `finally:` block runs) *)
Definition hold_enter_ops : list gop := fst (split_yield (fn_body tbl_DataSegment_hold_garbage)).
Definition hold_exit_ops (exceptional : bool) : list gop :=
  let after := snd (split_yield (fn_body tbl_DataSegment_hold_garbage)) in
  if exceptional then filter has_finally after else after.

(* the hand-modelled parts of the CHAIN path, as a record so that proofs about the table execution can be
   made for arbitrary ones (and then computed by vm_compute) *)
Record handlers := mkHandlers {
  h_gather : list Z -> Z -> list (bytes * Z) -> res (list bytes);   (* gather_commons, one kind *)
  h_setok : list bytes -> list bytes -> bool;         (* the supplied iteration order is the gathered set *)
  h_migrate : list bytes -> list bytes -> state -> res saved;       (* preserve_commons before the yield *)
  h_sizes : saved -> state -> res Z;                  (* scalar_size + array_size after the yield *)
  h_restore : saved -> state -> out                   (* scalars.set / arrays.allocate loops *)
}.

Definition sizes_of (sv : saved) (s : state) : res Z :=
  do a <- sum_scalar_sizes (sv_scalars sv);
  do b <- sum_array_sizes (ar_base s) (sv_arrays sv); Ok (a + b).
Definition restore_all (sv : saved) (s : state) : out :=
  match restore_scalars (sv_scalars sv) s with
  | Done s1 => restore_arrays (sv_arrays sv) s1
  | o => o
  end.

Definition real_handlers : handlers :=
  mkHandlers (fun dt k d => gather dt k d [])
             (fun g c => same_set g c && nodupb c)
             migrate_commons sizes_of restore_all.

Definition names_of (v : option val) : option (list bytes) :=
  match v with Some (VNames l) => Some l | _ => None end.

(* one fuel unit per operation and per call level.  Names bound by an OBind are visible to the operations
   that follow it in the same block (a with-body does not export bindings: a later use would be Unsupported) *)
Fixpoint exec_gen (h : handlers) (fuel : nat) (cls : string) (ops : list gop) (e : env) (s : state)
  {struct fuel} : out :=
  match fuel with
  | O => NoFuel
  | S f =>
    let sub := exec_gen h f in
    match ops with
    | [] => Done s
    | g :: rest =>
      match eval_guards e (g_guards g) with
      | None => Unsupported "guard"
      | Some false => exec_gen h f cls rest e s
      | Some true =>
        let continue (a : action) : out :=
          match a with
          | ADo (Done s1) => exec_gen h f cls rest e s1
          | ADo o => o
          | ASub c fname =>
              match tlookup (c ++ "." ++ fname)%string clear_tables with
              | Some tb =>
                  match bind_params e (fn_params tb)
                          (match g_op g with OCall _ a => a | _ => [] end) 0 with
                  | Some e' => match sub c (fn_body tb) e' s with
                               | Done s1 => exec_gen h f cls rest e s1
                               | o => o
                               end
                  | None => Unsupported "arguments"
                  end
              | None => Unsupported "table"
              end
          | ANone w => Unsupported w
          end in
        match g_op g with
        | OCall t args => continue (prim_call cls t args e s)
        | OAssign t v => continue (prim_assign cls t v e s)
        | ORaise n => Raised n s
        | OYield => Unsupported "yield"
        | OExit _ => Unsupported "exit"
        | OBind names t args =>
            if seq cls "Implementation" && seq t "interpreter.gather_commons" then
              match names, elookup "<decls>" e, names_of (elookup "<cs_order>" e), names_of (elookup "<ca_order>" e) with
              | [n1; n2], Some (VDecls decls), Some cs, Some ca =>
                  match h_gather h (deftype s) 0 decls with
                  | Ok gs =>
                      match h_gather h (deftype s) 1 decls with
                      | Ok ga =>
                          (* the caller supplies the iteration order of the two Python sets *)
                          if h_setok h gs cs && h_setok h ga ca
                          then exec_gen h f cls rest ((n1, VNames cs) :: (n2, VNames ca) :: e) s
                          else Unsupported "set order"
                      | Host x => Crashed x s
                      | _ => Unsupported "gather"
                      end
                  | Host x => Crashed x s
                  | _ => Unsupported "gather"
                  end
              | _, _, _, _ => Unsupported "gather_commons"
              end
            else Unsupported "bind"
        | OEnter t args =>
            let '(body, after) := split_exit t rest in
            if seq cls "Implementation" && seq t "files.open" then
              match elookup "<file_missing>" e with
              | Some (VBool true) => Raised err_FILE_NOT_FOUND s
              | Some (VBool false) =>
                  match exec_gen h f cls body e s with
                  | Done s1 => exec_gen h f cls after e s1
                  | o => o
                  end
              | _ => Unsupported "files.open"
              end
            else if seq cls "Implementation" && seq t "memory.preserve_commons" then
              (* DataSegment.preserve_commons: `with self.hold_garbage():` around everything, from the
                 regenerated table of hold_garbage (on an exception only its `finally:` part runs) *)
              let hold_exit (exceptional : bool) (s0 : state) : out :=
                sub "DataSegment"%string (hold_exit_ops exceptional) [] s0 in
              let fail_held (o : out) : out :=
                match o with
                | Raised n s0 => match hold_exit true s0 with Done s' => Raised n s' | x => x end
                | Crashed n s0 => match hold_exit true s0 with Done s' => Crashed n s' | x => x end
                | x => x
                end in
              match names_of (arg_val e args 0), names_of (arg_val e args 1), arg_val e args 2 with
              | Some cs, Some ca, Some all =>
                  let cs' := if truthy all then map fst (sc_vars s) else cs in
                  let ca' := if truthy all then map fst (ar_dims s) else ca in
                  match sub "DataSegment"%string hold_enter_ops [] s with
                  | Done s1 =>
                      match h_migrate h cs' ca' s1 with
                      | Ok sv =>
                          match exec_gen h f cls body e s1 with
                          | Done s2 =>
                              (* after the yield *)
                              match h_sizes h sv s2 with
                              | Ok sz =>
                                  if st_cur (sv_store sv) <=? var_start s2 + sz
                                  then fail_held (Raised err_OUT_OF_MEMORY s2)
                                  else
                                    match sub "StringSpace"%string (fn_body tbl_StringSpace_rebuild)
                                              [("stringspace"%string, VStore (sv_store sv))] s2 with
                                    | Done s3 =>
                                        match h_restore h sv s3 with
                                        | Done s4 => match hold_exit false s4 with
                                                     | Done s5 => exec_gen h f cls after e s5
                                                     | o => o
                                                     end
                                        | o => fail_held o
                                        end
                                    | o => fail_held o
                                    end
                              | Err n => fail_held (Raised n s2)
                              | Host n => fail_held (Crashed n s2)
                              | OutOfFuel => Unsupported "sizes"
                              end
                          | o => fail_held o     (* the body raised: the generator is closed at the yield *)
                          end
                      | Err n => fail_held (Raised n s1)
                      | Host n => fail_held (Crashed n s1)
                      | OutOfFuel => Unsupported "migrate"
                      end
                  | o => o
                  end
              | _, _, _ => Unsupported "preserve_commons"
              end
            else Unsupported "with"
        end
      end
    end
  end.

Definition exec := exec_gen real_handlers.

Definition FUEL : nat := 120.

Definition run_table_gen (h : handlers) (name : string) (e : env) (s : state) : out :=
  match tlookup name clear_tables with
  | Some tb => exec_gen h FUEL "Implementation" (fn_body tb) e s
  | None => Unsupported "table"
  end.
Definition run_table := run_table_gen real_handlers.

(* ------------------------------------------------------------------------------------------------ *)
(* the four commands, with the values of their parsed arguments *)

Definition ov (o : option Z) : val := match o with Some z => VInt z | None => VNone end.

(* CLEAR [expr][,[mem_size][,stack_size]] *)
Definition cmd_clear (intexp mem_size stack_size : option Z) (s : state) : out :=
  run_table "Implementation.clear_"
    [("<args>"%string, VBool true); ("intexp"%string, ov intexp); ("expr"%string, ov intexp);
     ("mem_size"%string, ov mem_size); ("stack_size"%string, ov stack_size); ("video_size"%string, VNone)] s.

Definition cmd_new (s : state) : out := run_table "Implementation.new_" [] s.

(* RUN [line] | RUN "file"[,R]: `file` = Some (missing, comma_r, size of the loaded program) *)
Definition cmd_run (jumpnum : option Z) (jump_missing : bool) (file : option (bool * bool * Z)) (s : state) : out :=
  run_table "Implementation.run_"
    [("jumpnum"%string, ov jumpnum);
     ("jumpnum not in self.program.line_numbers"%string, VBool jump_missing);
     ("<jump_missing>"%string, VBool jump_missing);
     ("<args>"%string, VBool (match file with Some _ => true | None => false end));
     ("<file_missing>"%string, VBool (match file with Some (m, _, _) => m | None => false end));
     ("comma_r"%string, VBool (match file with Some (_, r, _) => r | None => false end));
     ("<new_prog_size>"%string, VInt (match file with Some (_, _, n) => n | None => m_prog_size s end))] s.

Record chain_args := mkChain {
  c_merge : bool;
  c_all : bool;
  c_jumpnum : option Z;
  c_jump_missing : bool;        (* the target line does not exist in the new program *)
  c_delete : bool;              (* a DELETE range was given *)
  c_to_line_missing : bool;     (* ... and its last line is not a program line *)
  c_protected : bool;
  c_file_missing : bool;
  c_new_prog_size : Z;          (* program.size() after the load / merge *)
  c_decls : list (bytes * Z);   (* parsed COMMON declarations of the running program *)
  c_cs_order : list bytes;      (* iteration order of the two Python sets *)
  c_ca_order : list bytes
}.

Definition cmd_chain_gen (h : handlers) (a : chain_args) (s : state) : out :=
  run_table_gen h "Implementation.chain_"
    [("merge"%string, VBool (c_merge a)); ("preserve_all"%string, VBool (c_all a));
     ("jumpnum"%string, ov (c_jumpnum a)); ("<jump_missing>"%string, VBool (c_jump_missing a));
     ("delete_lines"%string, VBool (c_delete a));
     ("to_line is not None and to_line not in self.program.line_numbers"%string,
        VBool (c_delete a && c_to_line_missing a));
     ("self.program.protected"%string, VBool (c_protected a));
     ("<file_missing>"%string, VBool (c_file_missing a));
     ("<new_prog_size>"%string, VInt (c_new_prog_size a));
     ("<decls>"%string, VDecls (c_decls a));
     ("<cs_order>"%string, VNames (c_cs_order a)); ("<ca_order>"%string, VNames (c_ca_order a))] s.

Definition cmd_chain := cmd_chain_gen real_handlers.

(* ------------------------------------------------------------------------------------------------ *)
(* the freshly constructed session (Implementation.__init__) for a memory geometry *)

Definition init_state (total stack code_start prog_size : Z) : state :=
  mkState total stack code_start prog_size true
          [] [] 0 [] [] [] 0 None false
          [] (total - stack - 2) [] (repeat 33 26) []
          [] [] [] None false false 0 0 None 0 false false 5228370
          [] [] [] false [] false 5037 false.

(* ------------------------------------------------------------------------------------------------ *)
(* observation: canonical encoding for the correspondence harness *)

Definition enc_opt (o : option Z) : Z := match o with Some z => z | None => -1 end.
Definition enc_bytes (b : bytes) : list Z := zlen b :: b.

Definition deref (s : state) (v : bytes) : list Z :=
  match unpack3 v with
  | Ok (l, a) => match view s l a with
                 | Ok b => l :: enc_bytes b
                 | _ => [l; -1]
                 end
  | _ => [-2]
  end.

Fixpoint deref_chunks (s : state) (b : bytes) (fuel : nat) : list Z :=
  match fuel with
  | O => []
  | S f => match b with
           | b0 :: b1 :: b2 :: r => deref s [b0; b1; b2] ++ deref_chunks s r f
           | _ => []
           end
  end.

Definition enc_scalar (s : state) (n : bytes) : list Z :=
  match alookup n (sc_vars s) with
  | None => [0]
  | Some v => 1 :: enc_bytes v ++ (if is_str_scalar n then deref s v else [])
  end.
Definition enc_array (s : state) (n : bytes) : list Z :=
  match alookup n (ar_dims s), alookup n (ar_bufs s) with
  | Some d, Some b => 1 :: enc_bytes d ++ enc_bytes b ++ (if is_str_name n then deref_chunks s b (List.length b) else [])
  | None, None => [0]
  | _, _ => [-1]
  end.

Definition enc_state (names : list bytes) (s : state) : list Z :=
  [m_total s; m_stack s; m_prog_size s; enc_bool (m_allow_collect s);
   zlen (sc_vars s); zlen (sc_mem s); sc_current s;
   zlen (ar_dims s); zlen (ar_bufs s); zlen (ar_mem s); ar_current s;
   enc_opt (ar_base s); enc_bool (ar_base_by_dim s);
   zlen (ss_strs s); ss_current s]
  ++ deftype s
  ++ [zlen (functions s); zlen (gosub_stack s); zlen (for_stack s); zlen (while_stack s);
      enc_opt (on_error s); enc_bool (err_handle s); enc_bool (err_resume s); err_num s; err_pos s;
      enc_opt (stop_pos s); data_pos s; enc_bool (run_mode s); enc_bool (tron s); seed s;
      zlen (ev_enabled s); zlen (ev_gosub s); zlen (ev_stopped s); enc_bool (ev_suspend s);
      enc_bool (stick_on s); def_seg s; enc_bool (math_raise s)]
  ++ enc_bytes (files s)
  ++ List.concat (map (enc_scalar s) names)
  ++ List.concat (map (enc_array s) names).

Definition enc_out (names : list bytes) (o : out) : list Z :=
  match o with
  | Done s => 0 :: enc_state names s
  | Raised e s => 1 :: e :: enc_state names s
  | Crashed h s => 2 :: h :: enc_state names s
  | Unsupported _ => [4]
  | NoFuel => [3]
  end.

(* ------------------------------------------------------------------------------------------------ *)
(* the VALUE of a variable, as the property means it: numbers by their bytes, strings by content,
   arrays by dimensions and contents (used in the statements of props/C23.v) *)

Definition str_of (s : state) (v : bytes) : res bytes :=
  do p <- unpack3 v; view s (fst p) (snd p).

Definition scalar_value (s : state) (n : bytes) : option (res bytes) :=
  match alookup n (sc_vars s) with
  | None => None
  | Some v => Some (if is_str_scalar n then str_of s v else Ok v)
  end.

Fixpoint buf_strs (s : state) (b : bytes) : res (list bytes) :=
  match b with
  | [] => Ok []
  | l :: lo :: hi :: r => do x <- view s l (lo + 256 * hi); do t <- buf_strs s r; Ok (x :: t)
  | _ => Host host_StructError
  end.

Definition array_value (s : state) (n : bytes) : option (list Z * res (list bytes)) :=
  match alookup n (ar_dims s), alookup n (ar_bufs s) with
  | Some d, Some b => Some (d, if is_str_name n then buf_strs s b else Ok [b])
  | _, _ => None
  end.

(* invariant of Arrays.allocate: no dimension below the OPTION BASE *)
Definition dims_ok (s : state) : Prop :=
  forall n d b, In (n, d) (ar_dims s) -> ar_base s = Some b -> Forall (fun x => b <= x) d.

(* the invariant of the variable dictionaries: Python dicts have distinct keys; Arrays.allocate admits no
   negative dimension and none below the OPTION BASE.  It holds in init_state and is kept by Scalars.set,
   Arrays.allocate (the bottom of LET and DIM) and by the four commands (props/C23.v, theorems C23_wf_...) *)
Definition wf (s : state) : Prop :=
  NoDup (map fst (sc_vars s)) /\ NoDup (map fst (ar_dims s))
  /\ (forall n d, In (n, d) (ar_dims s) -> Forall (fun x => 0 <= x) d)
  /\ dims_ok s.

(* invariant of Arrays.allocate: every array has dimensions and a buffer of the size they determine *)
Definition bufs_ok (s : state) : Prop :=
  forall n d b, alookup n (ar_dims s) = Some d -> alookup n (ar_bufs s) = Some b ->
    d <> [] /\ forall bb, ar_base s = Some bb -> array_buffer_size (Some bb) n d = Ok (zlen b).
