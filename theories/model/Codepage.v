(* C41 - executable model of pcbasic/basic/codepage.py: Codepage lookups (unicode_to_bytes, _split_unicode,
   _from_unicode, codepoint_to_unicode) over the tables REGENERATED from the real Codepage objects
   (gen/Gen_codepages.v, gen/Gen_codepages_dbcs.v) and the streaming Converter state machine
   (_process cases 0-4, _process_nobox, _flush, _mark, to_unicode_list).  No proofs in this file.

   Bytes and code points are Z.  A codepage point is a list of 1 or 2 bytes; its `keycode` is
   b for [b] and 65536 + 256*l + t for [l;t] (the encoding used by the table dumper).
   unicodedata.normalize('NFC', .) is NOT modelled: the model functions take the normalised string
   (the dumper checks that every table value is NFC-normal, the harness normalises before calling the model). *)
From Coq Require Import String ZArith List Bool FMapPositive.
From PCB Require Import lib.Result lib.PyInt lib.Harness gen.Gen_codepages gen.Gen_codepages_dbcs.
Import ListNotations.
Open Scope Z_scope.

(* ------------------------------------------------------------------------------------------------ *)
(* small helpers *)

Definition mem (x : Z) (l : list Z) : bool := existsb (Z.eqb x) l.
Definition mem_seq (x : list Z) (l : list (list Z)) : bool := existsb (list_Z_eqb x) l.
Definition nonempty {A} (l : list A) : bool := match l with [] => false | _ => true end.

Definition assoc_seq {B} (k : list Z) (l : list (list Z * B)) : option B :=
  match find (fun p => list_Z_eqb (fst p) k) l with Some p => Some (snd p) | None => None end.

Definition starts_with (pre l : list Z) : bool := list_Z_eqb (firstn (List.length pre) l) pre.

(* dict keyed by a non-negative Z *)
Definition zfind {A} (k : Z) (m : PositiveMap.t A) : option A :=
  if k <? 0 then None else PositiveMap.find (Z.to_pos (k + 1)) m.
Definition zadd {A} (k : Z) (v : A) (m : PositiveMap.t A) : PositiveMap.t A :=
  PositiveMap.add (Z.to_pos (k + 1)) v m.

Definition keycode (bs : list Z) : option Z :=
  match bs with
  | [b] => if byteb b then Some b else None
  | [l; t] => if byteb l && byteb t then Some (65536 + 256 * l + t) else None
  | _ => None
  end.
Definition key_bytes (k : Z) : list Z :=
  if k <? 65536 then [k] else [Z.shiftr (k - 65536) 8; Z.land k 255].

(* ------------------------------------------------------------------------------------------------ *)
(* tables of one codepage, built from the dumped literals *)

Record tables := {
  t_name : string;
  t_dbcs : bool;                              (* Codepage.dbcs *)
  t_entries : list (list Z * list Z);         (* _cp_to_unicode as a list (codepage point, cluster) *)
  t_c2u : PositiveMap.t (list Z);             (* _cp_to_unicode, by keycode *)
  t_u2c1 : PositiveMap.t (list Z);            (* _unicode_to_cp on single code points *)
  t_u2cn : list (list Z * list Z);            (* _unicode_to_cp on longer clusters *)
  t_lead : list Z;  t_trail : list Z;
  t_box_left0 : list Z;  t_box_left1 : list Z;
  t_box_right0 : list Z;  t_box_right1 : list Z;
  t_subst : list (list Z * list Z);           (* _substitutes: codepage point -> glyph cluster *)
  t_invsubst : list (list Z * list Z);        (* _inverse_substitutes *)
  t_clusters : list (list Z)                  (* _unicode_clusters *)
}.

Fixpoint expand_run (k : Z) (vs : list Z) : list (Z * list Z) :=
  match vs with [] => [] | v :: r => (k, [v]) :: expand_run (k + 1) r end.
Definition expand_runs (runs : list (Z * list Z)) : list (Z * list Z) :=
  flat_map (fun kv => expand_run (fst kv) (snd kv)) runs.

Fixpoint c2u1_entries (i : Z) (l : list Z) (n : list (Z * list Z)) : list (Z * list Z) :=
  match l with
  | [] => []
  | v :: r =>
      (i, if v <? 0
          then match find (fun p => fst p =? i) n with Some p => snd p | None => [] end
          else [v]) :: c2u1_entries (i + 1) r n
  end.

Definition dbcs_part (name : string) : list (Z * list Z) * list (Z * list Z) :=
  match find (fun p => String.eqb (fst p) name) dbcs_tables with Some p => snd p | None => ([], []) end.

(* _cp_to_unicode by keycode *)
Definition kentries (r : raw_codepage) : list (Z * list Z) :=
  let d := dbcs_part r.(rc_name) in
  c2u1_entries 0 r.(rc_c2u1) r.(rc_c2u1n) ++ expand_runs (fst d) ++ snd d.

Definition build_c2u (ke : list (Z * list Z)) : PositiveMap.t (list Z) :=
  fold_left (fun m kv => zadd (fst kv) (snd kv) m) ke (PositiveMap.empty _).

(* _unicode_to_cp: reverse of _cp_to_unicode; where a cluster has several preimages the dumped winner
   (rc_u2c_multi, read from the real _unicode_to_cp) overrides *)
Definition build_u2c1 (ke : list (Z * list Z)) (multi : list (list Z * Z)) : PositiveMap.t (list Z) :=
  let base := fold_left (fun m kv => match snd kv with [c] => zadd c (key_bytes (fst kv)) m | _ => m end)
                        ke (PositiveMap.empty _) in
  fold_left (fun m uk => match fst uk with [c] => zadd c (key_bytes (snd uk)) m | _ => m end) multi base.

Definition is_single (u : list Z) : bool := match u with [_] => true | _ => false end.

Definition build_u2cn (ke : list (Z * list Z)) (multi : list (list Z * Z)) : list (list Z * list Z) :=
  map (fun uk => (fst uk, key_bytes (snd uk))) (filter (fun uk => negb (is_single (fst uk))) multi)
  ++ map (fun kv => (snd kv, key_bytes (fst kv))) (filter (fun kv => negb (is_single (snd kv))) ke).

Definition tables_of (r : raw_codepage) : tables :=
  let ke := kentries r in
  {| t_name := r.(rc_name);
     t_dbcs := r.(rc_dbcs);
     t_entries := map (fun kv => (key_bytes (fst kv), snd kv)) ke;
     t_c2u := build_c2u ke;
     t_u2c1 := build_u2c1 ke r.(rc_u2c_multi);
     t_u2cn := build_u2cn ke r.(rc_u2c_multi);
     t_lead := r.(rc_lead);  t_trail := r.(rc_trail);
     t_box_left0 := r.(rc_box_left0);  t_box_left1 := r.(rc_box_left1);
     t_box_right0 := r.(rc_box_right0);  t_box_right1 := r.(rc_box_right1);
     t_subst := map (fun kv => (key_bytes (fst kv), snd kv)) r.(rc_subst);
     t_invsubst := map (fun uk => (fst uk, key_bytes (snd uk))) r.(rc_invsubst);
     t_clusters := r.(rc_clusters) |}.

(* every shipped codepage + the built-in default *)
Definition all_codepages : list tables := map tables_of raw_codepages.

Definition find_codepage (name : string) : option tables :=
  option_map tables_of (find (fun r => String.eqb r.(rc_name) name) raw_codepages).

Definition empty_tables : tables :=
  {| t_name := ""%string; t_dbcs := false; t_entries := []; t_c2u := PositiveMap.empty _;
     t_u2c1 := PositiveMap.empty _; t_u2cn := []; t_lead := []; t_trail := [];
     t_box_left0 := []; t_box_left1 := []; t_box_right0 := []; t_box_right1 := [];
     t_subst := []; t_invsubst := []; t_clusters := [] |}.
Definition get_codepage (name : string) : tables :=
  match find_codepage name with Some t => t | None => empty_tables end.

(* the characters of the codepage: values of _cp_to_unicode = keys of _unicode_to_cp *)
Definition repertoire (t : tables) : list (list Z) := map snd t.(t_entries).

(* ------------------------------------------------------------------------------------------------ *)
(* unicode -> codepage bytes *)

Inductive errmode := Ignore | Replace | Strict.

(* uc.encode('ascii', errors=...) ; UnicodeEncodeError is a host exception of class `other` *)
Definition ascii_encode (mode : errmode) (uc : list Z) : res (list Z) :=
  match mode with
  | Ignore => Ok (filter (fun c => c <? 128) uc)
  | Replace => Ok (map (fun c => if c <? 128 then c else 63) uc)
  | Strict => if forallb (fun c => c <? 128) uc then Ok uc else Host host_Other
  end.

Definition c2u_lookup (t : tables) (seq : list Z) : option (list Z) :=
  match keycode seq with Some k => zfind k t.(t_c2u) | None => None end.

Definition u2c_lookup (t : tables) (uc : list Z) : option (list Z) :=
  match uc with
  | [c] => zfind c t.(t_u2c1)
  | _ => assoc_seq uc t.(t_u2cn)
  end.

(* Codepage._from_unicode *)
Definition from_unicode (t : tables) (mode : errmode) (uc : list Z) : res (list Z) :=
  match uc with
  | 0 :: _ => Ok (map (fun c => Z.min 255 c) uc)
  | _ =>
      match assoc_seq uc t.(t_invsubst) with
      | Some b => Ok b
      | None =>
          match u2c_lookup t uc with
          | Some b => Ok b
          | None => ascii_encode mode uc
          end
      end
  end.

(* length of the next cluster in Codepage._split_unicode *)
Definition match_len (t : tables) (ucs : list Z) : nat :=
  match find (fun cl => starts_with cl ucs) t.(t_clusters) with
  | Some cl => List.length cl
  | None => 1%nat
  end.
Definition cluster_len (t : tables) (ucs : list Z) : nat :=
  match ucs with
  | 0 :: c :: _ => if c <? 256 then 2%nat else match_len t ucs
  | _ => match_len t ucs
  end.

(* Codepage._split_unicode on an NFC-normal string; `while ucs:` with fuel *)
Fixpoint split_unicode_fuel (fuel : nat) (t : tables) (ucs : list Z) : res (list (list Z)) :=
  match ucs with
  | [] => Ok []
  | _ =>
      match fuel with
      | O => OutOfFuel
      | S f =>
          let n := cluster_len t ucs in
          do rest <- split_unicode_fuel f t (skipn n ucs);
          Ok (firstn n ucs :: rest)
      end
  end.
Definition split_unicode (t : tables) (ucs : list Z) : res (list (list Z)) :=
  split_unicode_fuel (List.length ucs) t ucs.

Fixpoint join_from_unicode (t : tables) (mode : errmode) (cl : list (list Z)) : res (list Z) :=
  match cl with
  | [] => Ok []
  | uc :: r =>
      do b <- from_unicode t mode uc;
      do rest <- join_from_unicode t mode r;
      Ok (b ++ rest)
  end.

(* Codepage.unicode_to_bytes (on an NFC-normal string) *)
Definition unicode_to_bytes (t : tables) (mode : errmode) (ucs : list Z) : res (list Z) :=
  do cl <- split_unicode t ucs;
  join_from_unicode t mode cl.

(* ------------------------------------------------------------------------------------------------ *)
(* the streaming Converter: abstract parameters (any lead / trail / box sets / preserve set) *)

Record cparams := {
  p_lead : Z -> bool;                  (* c in self._cp.lead *)
  p_trail : Z -> bool;                 (* c in self._cp.trail *)
  p_connects : Z -> Z -> Z -> bool;    (* self._cp.connects(c, d, bset) on single bytes *)
  p_preserve : Z -> bool;              (* c in self._preserve *)
  p_box : bool                         (* self._box_protect *)
}.

Record cstate := {
  s_buf : list Z;                      (* self._buf *)
  s_bset : Z;                          (* self._bset *)
  s_last : option Z                    (* self._last : b'' or one byte *)
}.
Definition init_state : cstate := {| s_buf := []; s_bset := -1; s_last := None |}.

Definition with_buf (st : cstate) (b : list Z) : cstate :=
  {| s_buf := b; s_bset := st.(s_bset); s_last := st.(s_last) |}.

(* Converter._flush(num) *)
Definition flush_n (st : cstate) (num : nat) : list (list Z) * cstate :=
  ((if nonempty st.(s_buf) then [firstn num st.(s_buf)] else []), with_buf st (skipn num st.(s_buf))).
(* Converter._flush() *)
Definition flush (st : cstate) : list (list Z) * cstate := flush_n st (List.length st.(s_buf)).

(* connects(self._last, c, bset) where _last may be b'' (which is in no set) *)
Definition connects_last (p : cparams) (l : option Z) (c bset : Z) : bool :=
  match l with Some b => p.(p_connects) b c bset | None => false end.

(* Converter._process_nobox *)
Definition process_nobox (p : cparams) (st : cstate) (c : Z) : list (list Z) * cstate :=
  if p.(p_preserve) c then
    let (o, st1) := flush st in (o ++ [[c]], st1)
  else if nonempty st.(s_buf) then
    if p.(p_trail) c then flush (with_buf st (st.(s_buf) ++ [c]))
    else
      let (o, st1) := flush st in
      if p.(p_lead) c then (o, with_buf st1 [c]) else (o ++ [[c]], st1)
  else
    if p.(p_lead) c then ([], with_buf st [c]) else ([[c]], st).

(* Converter._process with box protection; the `not allowed` branches drop the byte like the code does *)
Definition process_box (p : cparams) (st : cstate) (c : Z) : list (list Z) * cstate :=
  if p.(p_preserve) c then
    let (o, st1) := flush st in
    (o ++ [[c]], {| s_buf := st1.(s_buf); s_bset := -1; s_last := None |})
  else if st.(s_bset) =? -1 then
    match st.(s_buf) with
    | [] =>                                   (* case 0 *)
        if negb (p.(p_lead) c) then ([[c]], st) else ([], with_buf st [c])
    | [b0] =>                                 (* case 1 *)
        if negb (p.(p_trail) c) then
          let (o, st1) := flush st in (o ++ [[c]], st1)
        else if p.(p_connects) b0 c 0 then
          ([], {| s_buf := [b0; c]; s_bset := 0; s_last := st.(s_last) |})
        else if p.(p_connects) b0 c 1 then
          ([], {| s_buf := [b0; c]; s_bset := 1; s_last := st.(s_last) |})
        else ([], with_buf st [b0; c])
    | [b0; b1] =>                             (* case 2 *)
        if negb (p.(p_lead) c) then
          let (o, st1) := flush st in (o ++ [[c]], st1)
        else if p.(p_connects) b1 c 0 then
          let (o, st1) := flush_n st 1 in
          (o, {| s_buf := st1.(s_buf) ++ [c]; s_bset := 0; s_last := st.(s_last) |})
        else if p.(p_connects) b1 c 1 then
          let (o, st1) := flush_n st 1 in
          (o, {| s_buf := st1.(s_buf) ++ [c]; s_bset := 1; s_last := st.(s_last) |})
        else
          let (o, st1) := flush st in (o, with_buf st1 (st1.(s_buf) ++ [c]))
    | _ => ([], st)                           (* buffer corrupted: not allowed *)
    end
  else
    match st.(s_buf) with
    | [b0; b1] =>                             (* case 3 *)
        if negb (p.(p_lead) c) then
          let (o, st1) := flush st in (o ++ [[c]], st1)
        else if p.(p_connects) b1 c st.(s_bset) then
          let (o1, st1) := flush_n st 1 in
          let (o2, st2) := flush_n st1 1 in
          (o1 ++ o2 ++ [[c]], {| s_buf := st2.(s_buf); s_bset := st.(s_bset); s_last := Some b1 |})
        else
          let (o, st1) := flush st in
          (o, {| s_buf := [c]; s_bset := -1; s_last := st.(s_last) |})
    | [] =>                                   (* case 4 *)
        if negb (p.(p_lead) c) then ([[c]], st)
        else if connects_last p st.(s_last) c st.(s_bset) then
          ([[c]], {| s_buf := []; s_bset := st.(s_bset); s_last := Some c |})
        else ([], {| s_buf := [c]; s_bset := -1; s_last := st.(s_last) |})
    | _ => ([], st)                           (* buffer corrupted: not allowed *)
    end.

(* Converter._process *)
Definition process (p : cparams) (st : cstate) (c : Z) : list (list Z) * cstate :=
  if p.(p_box) then process_box p st c else process_nobox p st c.

(* [seq for c in iterchar(s) for seq in self._process(c)] *)
Fixpoint process_all (p : cparams) (st : cstate) (s : list Z) : list (list Z) * cstate :=
  match s with
  | [] => ([], st)
  | c :: r =>
      let (o, st1) := process p st c in
      let (o2, st2) := process_all p st1 r in
      (o ++ o2, st2)
  end.

(* Converter._mark *)
Definition mark (p : cparams) (dbcs : bool) (st : cstate) (s : list Z) (fl : bool)
  : list (list Z) * cstate :=
  if negb dbcs then (map (fun c => [c]) s, st)
  else
    let (o, st1) := process_all p st s in
    if fl then let (o2, st2) := flush st1 in (o ++ o2, st2) else (o, st1).

(* successive calls self._mark(piece) (no flush) on one Converter object *)
Fixpoint mark_pieces (p : cparams) (dbcs : bool) (st : cstate) (pieces : list (list Z))
  : list (list Z) * cstate :=
  match pieces with
  | [] => ([], st)
  | s :: r =>
      let (o, st1) := mark p dbcs st s false in
      let (o2, st2) := mark_pieces p dbcs st1 r in
      (o ++ o2, st2)
  end.

(* the states a Converter can be in: box mode cases 0-4, no-box mode at most a pending lead byte *)
Definition wf_box (st : cstate) : Prop :=
  (st.(s_bset) = -1 /\ (List.length st.(s_buf) <= 2)%nat) \/
  (st.(s_bset) <> -1 /\ (List.length st.(s_buf) = 0 \/ List.length st.(s_buf) = 2)%nat).
Definition wf_nobox (st : cstate) : Prop := (List.length st.(s_buf) <= 1)%nat.
Definition wf_state (p : cparams) (st : cstate) : Prop :=
  if p.(p_box) then wf_box st else wf_nobox st.

(* a non-DBCS converter never buffers *)
Definition wf_mark (p : cparams) (dbcs : bool) (st : cstate) : Prop :=
  if dbcs then wf_state p st else st.(s_buf) = [].

(* every emitted sequence is one byte or a pair *)
Definition seq_ok (q : list Z) : Prop := List.length q = 1%nat \/ List.length q = 2%nat.

(* ------------------------------------------------------------------------------------------------ *)
(* a concrete Converter over a codepage *)

Record converter := {
  cv_t : tables;
  cv_cpbox : bool;                 (* Codepage.box_protect *)
  cv_preserve : list (list Z);     (* preserve, a collection of bytes objects *)
  cv_boxarg : bool;                (* truth value of the box_protect argument of Converter() *)
  cv_subst : bool                  (* use_substitutes *)
}.

(* Codepage.connects *)
Definition connects (t : tables) (c d bset : Z) : bool :=
  if bset =? 0 then mem c t.(t_box_right0) && mem d t.(t_box_left0)
  else if bset =? 1 then mem c t.(t_box_right1) && mem d t.(t_box_left1)
  else false.

Definition params_of (cv : converter) : cparams :=
  {| p_lead := fun c => mem c cv.(cv_t).(t_lead);
     p_trail := fun c => mem c cv.(cv_t).(t_trail);
     p_connects := connects cv.(cv_t);
     p_preserve := fun c => mem_seq [c] cv.(cv_preserve);
     p_box := cv.(cv_boxarg) || cv.(cv_cpbox) |}.     (* box_protect or self._cp.box_protect *)

(* Codepage.codepoint_to_unicode(cp, replace=u'', use_substitutes) *)
Definition codepoint_to_unicode (t : tables) (seq : list Z) (us : bool) : list Z :=
  match (if us && nonempty t.(t_subst) then assoc_seq seq t.(t_subst) else None) with
  | Some g => g
  | None => match c2u_lookup t seq with Some u => u | None => [] end
  end.

Definition seq_to_unicode (cv : converter) (seq : list Z) : list Z :=
  if mem_seq seq cv.(cv_preserve) then filter (fun c => c <? 128) seq
  else codepoint_to_unicode cv.(cv_t) seq cv.(cv_subst).

(* fullwidth marked by a trailing empty sequence *)
Definition with_marks (seqs : list (list Z)) : list (list Z) :=
  flat_map (fun seq => if (List.length seq =? 1)%nat then [seq] else [seq; []]) seqs.

(* Converter.to_unicode_list *)
Definition to_unicode_list (cv : converter) (st : cstate) (s : list Z) (fl : bool)
  : list (list Z) * cstate :=
  let (seqs, st1) := mark (params_of cv) cv.(cv_t).(t_dbcs) st s fl in
  (map (seq_to_unicode cv) (with_marks seqs), st1).

(* Converter.to_unicode *)
Definition to_unicode (cv : converter) (st : cstate) (s : list Z) (fl : bool) : list Z * cstate :=
  let (l, st1) := to_unicode_list cv st s fl in (concat l, st1).

(* successive calls conv.to_unicode_list(piece, flush) on one Converter object *)
Fixpoint run_pieces (cv : converter) (st : cstate) (pieces : list (list Z * bool))
  : list (list (list Z)) * cstate :=
  match pieces with
  | [] => ([], st)
  | (s, fl) :: r =>
      let (o, st1) := to_unicode_list cv st s fl in
      let (os, st2) := run_pieces cv st1 r in
      (o :: os, st2)
  end.

(* the same without flushing, outputs appended *)
Fixpoint unicode_pieces (cv : converter) (st : cstate) (pieces : list (list Z))
  : list (list Z) * cstate :=
  match pieces with
  | [] => ([], st)
  | s :: r =>
      let (o, st1) := to_unicode_list cv st s false in
      let (o2, st2) := unicode_pieces cv st1 r in
      (o ++ o2, st2)
  end.

Definition default_converter (t : tables) : converter :=
  {| cv_t := t; cv_cpbox := true; cv_preserve := []; cv_boxarg := false; cv_subst := false |}.

(* Codepage.bytes_to_unicode(cps) of a default Codepage object (box_protect=True) *)
Definition bytes_to_unicode (t : tables) (s : list Z) : list Z :=
  fst (to_unicode (default_converter t) init_state s true).

Definition bytes_to_unicode_subst (t : tables) (s : list Z) : list Z :=
  fst (to_unicode {| cv_t := t; cv_cpbox := true; cv_preserve := []; cv_boxarg := false; cv_subst := true |}
                  init_state s true).

(* ------------------------------------------------------------------------------------------------ *)
(* encodings for the correspondence harness *)

Definition enc_strs (l : list (list Z)) : list Z :=
  zlen l :: flat_map (fun u => zlen u :: u) l.
Definition enc_state (st : cstate) : list Z :=
  (zlen st.(s_buf) :: st.(s_buf)) ++ [st.(s_bset); match st.(s_last) with Some b => b | None => -1 end].
Definition enc_run (r : list (list (list Z)) * cstate) : list Z :=
  flat_map enc_strs (fst r) ++ enc_state (snd r).
Definition enc_mark (r : list (list Z) * cstate) : list Z := enc_strs (fst r) ++ enc_state (snd r).

Definition mk_conv (name : string) (cpbox : bool) (preserve : list (list Z)) (boxarg subst : bool) : converter :=
  {| cv_t := get_codepage name; cv_cpbox := cpbox; cv_preserve := preserve; cv_boxarg := boxarg;
     cv_subst := subst |}.

(* one row of the table: codepoint_to_unicode / bytes_to_unicode of prefix ++ [b] for b = 0..255 *)
Definition row_lookup (t : tables) (pre : list Z) (us : bool) : list Z :=
  enc_strs (map (fun b => codepoint_to_unicode t (pre ++ [b]) us) (map Z.of_nat (seq 0 256))).
Definition row_convert (t : tables) (pre : list Z) : list Z :=
  enc_strs (map (fun b => bytes_to_unicode t (pre ++ [b])) (map Z.of_nat (seq 0 256))).

(* --- harness entry points *)

(* only the sets the state machine needs (no conversion tables): cheap to build *)
Definition light_tables_of (r : raw_codepage) : tables :=
  {| t_name := r.(rc_name); t_dbcs := r.(rc_dbcs); t_entries := []; t_c2u := PositiveMap.empty _;
     t_u2c1 := PositiveMap.empty _; t_u2cn := [];
     t_lead := r.(rc_lead);  t_trail := r.(rc_trail);
     t_box_left0 := r.(rc_box_left0);  t_box_left1 := r.(rc_box_left1);
     t_box_right0 := r.(rc_box_right0);  t_box_right1 := r.(rc_box_right1);
     t_subst := []; t_invsubst := []; t_clusters := [] |}.
Definition get_light (name : string) : tables :=
  match find (fun r => String.eqb r.(rc_name) name) raw_codepages with
  | Some r => light_tables_of r
  | None => empty_tables
  end.

(* successive calls conv._mark(piece, flush) on one Converter object *)
Fixpoint run_marks (p : cparams) (dbcs : bool) (st : cstate) (pieces : list (list Z * bool))
  : list (list (list Z)) * cstate :=
  match pieces with
  | [] => ([], st)
  | (s, fl) :: r =>
      let (o, st1) := mark p dbcs st s fl in
      let (os, st2) := run_marks p dbcs st1 r in
      (o :: os, st2)
  end.

Definition op_mark (name : string) (cpbox : bool) (preserve : list (list Z)) (boxarg : bool)
           (pieces : list (list Z * bool)) : list Z :=
  let t := get_light name in
  let cv := {| cv_t := t; cv_cpbox := cpbox; cv_preserve := preserve; cv_boxarg := boxarg; cv_subst := false |} in
  enc_run (run_marks (params_of cv) t.(t_dbcs) init_state pieces).

Definition frame (l : list Z) : list Z := zlen l :: l.

(* Converter(cp, preserve, boxarg, subst).to_unicode_list(piece, flush) ... *)
Definition op_conv (t : tables) (cpbox : bool) (preserve : list (list Z)) (boxarg subst : bool)
           (pieces : list (list Z * bool)) : list Z :=
  frame (enc_run (run_pieces {| cv_t := t; cv_cpbox := cpbox; cv_preserve := preserve;
                               cv_boxarg := boxarg; cv_subst := subst |} init_state pieces)).

(* cp.get_converter(preserve, subst).to_unicode(piece, flush) ...: one joined string per piece *)
Definition op_conv_joined (t : tables) (cpbox : bool) (preserve : list (list Z)) (subst : bool)
           (pieces : list (list Z * bool)) : list Z :=
  let r := run_pieces {| cv_t := t; cv_cpbox := cpbox; cv_preserve := preserve;
                         cv_boxarg := cpbox; cv_subst := subst |} init_state pieces in
  frame (enc_strs (map (@concat Z) (fst r)) ++ enc_state (snd r)).

(* cp.bytes_to_unicode(s, preserve, box_protect=boxarg, use_substitutes=subst) *)
Definition op_b2u (t : tables) (cpbox : bool) (preserve : list (list Z)) (boxarg subst : bool)
           (s : list Z) : list Z :=
  frame (fst (to_unicode {| cv_t := t; cv_cpbox := cpbox; cv_preserve := preserve;
                            cv_boxarg := boxarg; cv_subst := subst |} init_state s true)).

Definition op_u2b (t : tables) (mode : errmode) (ucs : list Z) : list Z :=
  frame (enc_res (unicode_to_bytes t mode ucs)).

Definition op_row (t : tables) (pre : list Z) (us : bool) : list Z :=
  frame (row_lookup t pre us ++ row_convert t pre).

Definition op_size (t : tables) : list Z := frame [zlen t.(t_entries)].

Definition mk_conv_light (name : string) (cpbox : bool) (preserve : list (list Z)) (boxarg subst : bool)
  : converter :=
  {| cv_t := get_light name; cv_cpbox := cpbox; cv_preserve := preserve; cv_boxarg := boxarg;
     cv_subst := subst |}.
