"""Shared helpers for the implementation adapters (run inside /venv python with PYTHONPATH=/repo)."""
import io
import os
import shutil
import tempfile

from vlib import core

WORKDIR = os.path.join(core.WORK, 'tmp')


def tmpdir(prefix='t'):
    os.makedirs(WORKDIR, exist_ok=True)
    return tempfile.mkdtemp(prefix=prefix, dir=WORKDIR)


def rmtree(d):
    shutil.rmtree(d, ignore_errors=True)


def new_session(**kw):
    """A real pcbasic Session without stdio."""
    from pcbasic.basic import Session
    kw.setdefault('input_streams', None)
    kw.setdefault('output_streams', None)
    return Session(**kw)


def basic_error_number(exc):
    from pcbasic.basic.base import error
    if isinstance(exc, error.BASICError):
        return exc.err
    return None


def canon_exc(exc):
    """Canonical result for an exception: [1, n] for BASICError n, [2, k] for host exceptions."""
    from pcbasic.basic.base import error
    if isinstance(exc, error.BASICError):
        return [1, exc.err]
    table = {ValueError: 1, KeyError: 2, TypeError: 3, IndexError: 4, OverflowError: 5,
             ZeroDivisionError: 6}
    for t, k in table.items():
        if type(exc) is t:
            return [2, k]
    import struct
    if isinstance(exc, struct.error):
        return [2, 7]
    return [2, 8]


# boundary-dense pools
INT16_POOL = [0, 1, -1, 2, -2, 127, 128, 255, 256, 257, 32766, 32767, -32767, -32768, 16384, -16384, 10, 100, 1000]
BYTE_POOL = [0, 1, 2, 9, 10, 13, 26, 31, 32, 34, 44, 58, 127, 128, 129, 254, 255]


def rand_bytes(rng, n, pool_bias=0.3):
    return [rng.choice(BYTE_POOL) if rng.random() < pool_bias else rng.randrange(256) for _ in range(n)]


def rand_len(rng, maxlen=300):
    r = rng.random()
    if r < 0.15:
        return rng.choice([0, 1, 2, 142, 143, 144, 254, 255, 256, 286, 287])
    if r < 0.6:
        return rng.randrange(0, 20)
    return rng.randrange(0, maxlen)
