"""C01 - No BASIC input ever produces an internal interpreter error (PARTIAL: funnel + anchored mechanisms
proved; everything else searched by fuzzing)."""
import errno
import glob
import hashlib
import os
import traceback

from vlib import core
from harness import common, progen

ARGS = ['0', '1', '-1', '255', '256', '32767', '-32768', '32768', '65535', '65536', '1E38', '-1E38', '1D300', '""', '"A"',
        'CHR$(0)', 'CHR$(255)', 'STRING$(255,"x")', 'A$', 'X', 'A(1)', '&HFFFF', '1.5', '-0.5', '#1', '3.4E38', '1/0',
        '&H3C5', '&H3CF', '&H3C4', '&H3CE', '&H3D8', '&H3D9', '&H201', '&H61', '&H60', '&H3DA', '&O1 2', '&H F', '&O', '&H', '&O8',
        '1 2', '1E', '1D+', '.', '1..2', '&HFFFFF', '&O777777', '1E39', '1D309', '-32769', '65536.5', '1!#', 'A$(1)', 'A(1,2)',
        '"C:"', '"A:X"', '"X.Y.Z"', '"\\"', '".. "', '"SCRN:"', '"KYBD:"', '"LPT1:"', '"COM1:"', '"CAS1:"', '"@:"']
FUNCS = ['ABS', 'ASC', 'ATN', 'CDBL', 'CHR$', 'CINT', 'COS', 'CSNG', 'CVI', 'CVS', 'CVD', 'EOF', 'EXP', 'FIX', 'FRE', 'HEX$',
         'INPUT$', 'INSTR', 'INT', 'LEFT$', 'LEN', 'LOC', 'LOF', 'LOG', 'LPOS', 'MID$', 'MKI$', 'MKS$', 'MKD$', 'OCT$',
         'PEEK', 'POINT', 'POS', 'RIGHT$', 'RND', 'SGN', 'SIN', 'SPACE$', 'SPC', 'SQR', 'STR$', 'STRING$', 'TAB', 'TAN',
         'VAL', 'VARPTR', 'SCREEN', 'PMAP', 'STICK', 'STRIG', 'PEN', 'ENVIRON$', 'ERDEV', 'IOCTL$', 'PLAY', 'TIMER',
         'INP', 'VARPTR$', 'CSRLIN', 'DATE$', 'TIME$', 'INKEY$', 'ERL', 'ERR', 'FNA']
STMTS = ['BEEP', 'CIRCLE', 'CLS', 'COLOR', 'DRAW', 'LINE', 'LOCATE', 'PAINT', 'PALETTE', 'PALETTE USING', 'PCOPY', 'PLAY',
         'PSET', 'PRESET', 'PUT', 'GET', 'SCREEN', 'SOUND', 'VIEW', 'VIEW PRINT', 'WIDTH', 'WINDOW', 'KEY', 'POKE', 'OUT',
         'WAIT', 'DEF SEG=', 'ERASE', 'DIM', 'OPTION BASE', 'RANDOMIZE', 'SWAP', 'LSET', 'RSET', 'MID$', 'OPEN', 'CLOSE',
         'FIELD', 'KILL', 'NAME', 'FILES', 'CHDIR', 'MKDIR', 'RMDIR', 'LOCK', 'UNLOCK', 'WRITE', 'PRINT USING',
         'INPUT#', 'LINE INPUT#', 'ON', 'ERROR', 'RESUME', 'CLEAR', 'CHAIN', 'COMMON', 'DATE$=', 'TIME$=', 'ENVIRON',
         'NOISE', 'MOTOR', 'LCOPY', 'DELETE', 'RENUM', 'LIST', 'LLIST', 'AUTO', 'EDIT', 'LOAD', 'SAVE', 'MERGE',
         'BLOAD', 'BSAVE', 'TRON', 'TROFF', 'PEN ON', 'STRIG ON', 'COM(1) ON', 'TIMER ON', 'KEY(1) ON', 'PLAY ON', 'IOCTL',
         'CALL', 'DEF FNA(X)=', 'DEF USR=', 'LPRINT', 'RESET', 'CONT', 'STOP', 'END', 'NEW', 'RUN', 'GOTO', 'GOSUB',
         'RETURN', 'NEXT', 'WEND', 'WHILE', 'FOR I=', 'READ', 'RESTORE', 'DATA', 'INPUT', 'LINE INPUT', 'ON ERROR GOTO',
         'ON KEY(1) GOSUB', 'ON TIMER(1) GOSUB', 'DEFINT', 'DEFSTR', 'LET']
SOUP = ['PRINT', '(', ')', ',', ';', '"', '1', 'A$', '=', '+', '-', '*', '/', '^', '\\', ' ', 'MOD', 'AND', 'NOT', '#', '&H', '&O',
        '!', '%', '$', '.', 'E', 'D', ':', 'THEN', 'ELSE', 'GOTO', 'FOR', 'TO', 'NEXT', 'USING', '\x00', '\xff', '?', "'", 'REM',
        'FN', 'USR', 'AS', 'STEP', 'TAB(', 'SPC(', 'OFF', 'ON', 'STOP', '\x0e', '\x1c', '\xfd', '\xfe', '9999999999999999999']
SKIP = ('SYSTEM', 'SHELL', 'TERM')

ALLOWED_EXC = ('BASICError', 'Break', 'Exit', 'Reset')


def corpus_statements():
    """statements harvested from the recorded GW-BASIC corpus in /repo/tests (for mutation)"""
    res = []
    for f in sorted(glob.glob(os.path.join(core.REPO, 'tests/basic/*/*/TEST.BAS')))[:400]:
        try:
            txt = open(f, 'rb').read().decode('latin1')
        except IOError:
            continue
        if txt[:1] in ('\xff', '\xfe', '\xfc'):
            continue
        for line in txt.replace('\r', '').split('\n'):
            line = line.strip('\x1a ')
            if line and line[0].isdigit() and len(line) < 200:
                res.append(line)
    return res


class C01(core.Check):
    ID = 'C01'
    GEN = ['gen_funnel']
    PROPS = 'props/C01.v'
    MODEL_IMPORTS = ['gen.Gen_funnel', 'model.Funnel']
    QUICK_CASES = 370
    THOROUGH_CASES = 8000
    PARTIAL = ('proved only for the exception funnel, float_safe/FloatErrorHandler, OS error translation, TIME$/DATE$/'
               'ENVIRON validation and the PEEK preset table (plus, in C10/C14/C20, string-pointer dereference and '
               'RENUM trap remapping); the host-exception freedom of the remaining ~300 statement and function '
               'callbacks depends on CPython runtime behaviour at every subscript and conversion and is only '
               'searched by grammar-driven fuzzing, which is testing, not proof')
    TRUSTED = ['catch tables regenerated from the AST of disk.py / values.py / devicebase.py / implementation.py (gen_funnel)',
               'Python subclass relation of the exception classes modelled by hand (model/Funnel.v isinst), tied by correspondence',
               'fuzz search: programs, direct statements, token soup, corpus mutations and random program files through '
               'Session.execute with default keyword arguments']
    RULE = ('funnel cases: every modelled exception class raised inside the real _handle_exceptions / float_safe / '
            'handle_oserror / safe_io, outcome compared with the model. search cases (model term is the constant '
            '"no host exception"): generated statements over all statement/function keywords with boundary '
            'arguments, token soup, generated programs, mutated lines of the recorded GW-BASIC corpus, random '
            'bytes LOADed as tokenised/protected/ASCII files, multi-step error-trap scenarios (program arms ON ERROR, direct-mode faults, unusual handler statements, follow-up commands). non-trivial = at least one statement executed without '
            'BASIC error; distinct by hash')

    def __init__(self, tier, seed):
        core.Check.__init__(self, tier, seed)
        self._corpus = None

    # ------------------------------------------------------------------ cases
    def corpus(self):
        c = []
        for e in ([10, 5], [10, 2], [10, 11], [11, 0], [12, 0], [13, 0], [1, 0], [2, 0], [3, 0], [4, 0], [5, 2], [9, 2], [9, 3]):
            c.append({'k': 'he', 'e': e})
            c.append({'k': 'sio', 'err': 57, 'e': e})
            for dr in (0, 1):
                for con in (0, 1):
                    c.append({'k': 'fs', 'dr': dr, 'con': con, 'e': e})
        for n in list(range(0, 135)) + [-1, 1000]:
            c.append({'k': 'os', 'n': n})
        # witnesses of defects that were found and fixed (must stay quiet now)
        for lines in (['PRINT PEEK(0)'], ['TIME$="-1:00:00"'], ['ENVIRON "A="+CHR$(0)'], ['PRINT 1 IMP "A"'],
                      ['10 ON ERROR GOTO 10', '20 RENUM 100,20', 'RUN'], ['PRINT HEX$(-70000)'],
                      ['10 DEF FNA$(X$)=LEFT$(X$+X$+X$,3)+STR$(FRE(""))', '20 X$="glob"+"al"', '30 Z$=FNA$("arg")', '40 PRINT X$', 'RUN'],
                      ['A$=LEFT$("abc"+"defghijkl",0)', 'CLEAR', 'PRINT FRE("")'],
                      ['CHDIR "AB:X"'], ['FILES ":"'], ['OUT &H3C5,1'], ['OUT &H3CF,1'], ['PRINT &O1 2'],
                      ['SCREEN 1', 'VIEW (10,10)-(50,50)', 'SCREEN 1,,0,0'], ['KEY ON', 'LOCATE 1,60', 'WIDTH 40'],
                      ['SCREEN 1', 'VIEW (100,100)-(200,150)', 'PRINT POINT(300,10)'], ['SCREEN 1', 'DRAW "C256 U5"'],
                      ['OPEN "NUL" FOR INPUT AS 1', 'PRINT LOF(1)'], ['OPEN "NUL" FOR RANDOM AS 1', 'GET#1'], ['OPEN "NUL" FOR INPUT AS 1', 'INPUT#1,A$'],
                      ['OPEN "SCRN:" FOR RANDOM AS 1', 'INPUT#1,A$'], ['OPEN "SCRN:" FOR RANDOM AS 1', 'PUT#1'], ['BLOAD "NUL"'], ['BLOAD "KYBD:"'],
                      ['SCREEN 1', 'DIM A%(0)', 'PUT (0,0),A%'],
                      ['OPEN "CON" FOR APPEND AS 1'], ['OPEN "R",1,"CON"'], ['OPEN "CON" FOR RANDOM AS 1 LEN=8', 'FIELD #1,2 AS A$', 'CLOSE'],
                      ['PRINT INP(&H379)'], ['OUT &H37A,1'], ['SCREEN 1', 'DEF SEG=0', 'PRINT PEEK(1126)'],
                      ['DEF SEG=&HF000', 'BSAVE "ROM.BIN",0,100', 'BLOAD "ROM.BIN"'], ['DEF SEG=&HB800', 'BSAVE "Y.BIN",65000,1000'],
                      ['DEF SEG=0', 'FOR I=1040 TO 1090:POKE I,0:X=PEEK(I):NEXT', 'FOR I=1040 TO 1090:POKE I,224:X=PEEK(I):NEXT'],
                      ['PRINT PEEK(4073)'], ['POKE 4073,1'], ['FOR I=3900 TO 4750:X=PEEK(I):POKE I,X:NEXT'],
                      ['BSAVE "LOW.BIN",0,32767'], ['FOR X=1E38 TO 1.7E38 STEP 1E38:NEXT']):
            c.append({'k': 'prog', 'lines': lines, 'default': True})
        # interactive histories (Session.interact): stale EDIT prompt after the line is gone (D01i), AUTO over existing lines
        c.append({'k': 'prog', 'lines': ['10 PRINT 1 +* 2', 'RUN', 'NEW'], 'keys': ['PRINT 1'], 'default': True})
        c.append({'k': 'prog', 'lines': ['10 PRINT 1 +* 2', 'RUN', '10 REM'], 'keys': ['PRINT 1'], 'default': True})
        c.append({'k': 'prog', 'lines': ['10 PRINT 1', '20 PRINT 2'], 'keys': ['AUTO', 'PRINT 3', '\x03', 'RUN', 'EDIT 20', '', 'LIST'], 'default': True})
        c.append({'k': 'file', 'bytes': [0xfe], 'name': 'X'})
        c.append({'k': 'file', 'bytes': [0xfe, 0x1a], 'name': 'X'})
        c.append({'k': 'file', 'bytes': [0xff], 'name': 'X'})
        c.append({'k': 'file', 'bytes': [0xfc, 1, 2, 3], 'name': 'X'})
        c.append({'k': 'file', 'bytes': [0xff, 0x7a, 0x12, 10, 0, 0x91, 0x20, 0x11, 0, 0, 0, 0x0e, 1], 'name': 'X'})     # D14b: junk behind the seal
        c.append({'k': 'file', 'bytes': [254, 194, 2, 82, 129, 234, 9, 230], 'name': 'X'})     # D01j: constant cut short by the end of the text
        c.append({'k': 'file', 'bytes': [0xff, 0x7a, 0x12, 10, 0, 0x91, 0x20, 0x1d], 'name': 'X'})
        c.append({'k': 'file', 'bytes': [0xff, 0x7a, 0x12, 10, 0, 0x89, 0x20, 0x0e, 5], 'name': 'X'})
        import struct as _st
        def _tok(lines):
            o, a = b'\xff', 0x126e + 1
            for n, b in lines:
                r = _st.pack('<HH', (a + 4 + len(b) + 1) & 0xffff, n) + b + b'\0'
                a += len(r); o += r
            return list(o + b'\0\0\x1a')
        c.append({'k': 'file', 'bytes': _tok([(10, b'\x91 1'), (65535, b'\x91 2')]), 'name': 'X'})
        c.append({'k': 'file', 'bytes': _tok([(i + 1, b'\x8f' + b'x' * 240) for i in range(280)]), 'name': 'X'})
        c.append({'k': 'prog', 'lines': ['WIDTH 40', 'SCREEN 0,,5,5', 'WIDTH 80', 'PRINT "x"'], 'default': False, 'video': 'vga'})
        c.append({'k': 'prog', 'lines': ['SCREEN 1', 'WINDOW (0,0)-(1,1)', 'VIEW (10,10)-(10,50)', 'PRINT POINT(2)', 'PRINT PMAP(1,2)', 'PSET STEP(1,1)', 'DRAW "P1,1"'], 'default': True})
        c.append({'k': 'prog', 'lines': ['SCREEN 1', 'VIEW SCREEN (5,5)-(60,5)', 'WINDOW SCREEN (0,0)-(100,100)', 'LINE -STEP(2,2)', 'PRINT POINT(3)'], 'default': True})
        c.append({'k': 'prog', 'lines': ['1 ON ERROR GOTO 9000', '2 DIM ZZ%(INT((FRE(0)-17)/2))', '10 FOR I=1 TO 3', '20 PRINT I', '30 NEXT', '40 END', '9000 RESUME NEXT', 'RUN', 'GOTO 30'],
                  'default': True})
        c.append({'k': 'prog', 'lines': ['SCREEN 7,,6,6', 'SCREEN 9', 'SCREEN 0,,0,0', 'PRINT "x"'], 'default': False, 'video': 'vga'})
        return c

    def stmt(self):
        rng = self.rng
        r = rng.random()
        if r < 0.3:
            f = rng.choice(FUNCS)
            n = rng.randrange(0, 4)
            return 'PRINT ' + f + ('(' + ','.join(rng.choice(ARGS) for _ in range(n)) + ')' if n else '')
        if r < 0.62:
            s = rng.choice(STMTS)
            n = rng.randrange(0, 5)
            sep = rng.choice([',', ',', ';', ' ', '-', ' TO ', ' AS ', '#', ')-(', ' STEP '])
            return s + ' ' + sep.join(rng.choice(ARGS) for _ in range(n))
        if r < 0.75:
            return progen.statement(rng, [10, 20, 30])
        if r < 0.87 and self._corpus:
            line = rng.choice(self._corpus)
            # mutate: replace a number or drop/duplicate a char
            b = list(line)
            for _ in range(rng.randrange(0, 3)):
                if not b:
                    break
                p = rng.randrange(len(b))
                q = rng.random()
                if q < 0.4:
                    b[p] = rng.choice('0123456789,;()"$%!#-')
                elif q < 0.7:
                    del b[p]
                else:
                    b.insert(p, rng.choice(SOUP))
            s = ''.join(b)
            return s if rng.random() < 0.5 else s.lstrip('0123456789 ')
        return ''.join(rng.choice(SOUP) for _ in range(rng.randrange(1, 12)))

    HANDLER = ['STOP', 'END', 'RESUME', 'RESUME NEXT', 'RESUME 30', 'PRINT ERR;ERL', 'ERROR 5', 'ON ERROR GOTO 0', 'RETURN',
               'CLEAR', 'NEW', 'RUN', 'GOTO 20', 'CONT', 'ERROR ERR', 'PRINT 1/0', 'LIST', 'DELETE 100', 'RENUM', 'ON ERROR GOTO 100',
               'A$=A$+A$', 'GOSUB 100', 'CHAIN "X"', 'LOAD "X"', 'WEND', 'NEXT', 'X=ERL/0', 'SYSTEM1']
    FAULT = ['ERROR 5', 'ERROR 255', 'ERROR 0', 'PRINT 1/0', 'A=SQR(-1)', 'DIM A(-1)', 'GOTO 9999', 'NEXT', 'RETURN', 'WEND',
             'X$=MID$("",0)', 'A%=32768', 'PRINT CHR$(256)', 'OPEN "NOSUCH" FOR INPUT AS 1', 'READ Q', 'RESUME', 'FIELD #1,1 AS A$',
             'PRINT USING "";1', 'LOCATE 99', 'KILL "NOSUCH"', 'PRINT 1E38*1E38', 'DEF FNA(X)=X', 'X=FNQ(1)', 'CONT', 'STOP']
    GFX_HIST = ['VIEW (10,10)-(10,50)', 'VIEW SCREEN (5,5)-(60,5)', 'VIEW (0,0)-(1,1)', 'VIEW (319,199)-(318,198)', 'WINDOW (0,0)-(0,1)', 'WINDOW (1,1)-(1,1)',
                'WINDOW (-1E38,-1E38)-(1E38,1E38)', 'WINDOW (0,0)-(1E-38,1E-38)', 'PRINT POINT(2);POINT(3)', 'PRINT PMAP(1,2);PMAP(1,3);PMAP(1,0);PMAP(1,1)',
                'PSET STEP(1,1)', 'LINE -STEP(2,2)', 'DRAW "P1,1"', 'CIRCLE STEP(0,0),5', 'PAINT STEP(1,1)', 'GET STEP(0,0)-STEP(2,2),A', 'PUT STEP(1,1),A',
                'SCREEN 0,,5,5', 'SCREEN ,,7,7', 'SCREEN ,,4,6', 'SCREEN 7,,6,6', 'SCREEN 8,,3,3', 'SCREEN 9,,1,1', 'SCREEN 0,,0,0', 'WIDTH 40', 'WIDTH 80',
                'PCOPY 5,0', 'PCOPY 0,7', 'SCREEN 1', 'SCREEN 2', 'SCREEN 7', 'SCREEN 9', 'SCREEN 0', 'SCREEN 1,,0,0', 'SCREEN 7,,1,0', 'SCREEN 7,,0,1', 'SCREEN ,,1,1',
                'SCREEN ,,0,0', 'VIEW (10,10)-(50,50)', 'VIEW SCREEN (1,1)-(5,5),1,2', 'VIEW', 'WINDOW (0,0)-(1,1)', 'WINDOW SCREEN (-1,-1)-(1,1)',
                'WINDOW', 'PCOPY 1,0', 'PCOPY 0,1', 'WIDTH 40', 'WIDTH 80', 'KEY ON', 'KEY OFF', 'CLS', 'PSET (5,5)', 'LINE (0,0)-(400,300),1,BF',
                'CIRCLE (20,20),500', 'PAINT (1,1)', 'PRINT POINT(300,10)', 'GET (0,0)-(5,5),A', 'PUT (0,0),A', 'DIM A(100)', 'DRAW "C1U5"',
                'LOCATE 25,1', 'LOCATE 1,60', 'VIEW PRINT 2 TO 5', 'VIEW PRINT', 'OUT &H3C5,1', 'OUT &H3CF,2', 'OUT &H3D8,0', 'DEF SEG=&HB800:POKE 0,65',
                'DEF SEG=&HA000:POKE 100,255', 'PRINT PEEK(0)', 'BSAVE "V",0,100', 'BLOAD "V"', 'PALETTE 1,2', 'COLOR 1,2,3', 'PRINT PMAP(1,0)']

    def gfx_history(self):
        """display histories: mode / page / viewport / window changes interleaved with drawing and memory access"""
        rng = self.rng
        if rng.random() < 0.35:
            # coordinate systems: graphics mode, VIEW (also thin or degenerate) and WINDOW (also degenerate or huge) in either order,
            # then statements that convert between physical and logical coordinates (seed C01f)
            c = lambda m: rng.choice([0, 1, 5, 10, 10, 50, 60, m - 1, m, rng.randrange(m)])
            vx0, vy0, vx1, vy1 = c(320), c(200), c(320), c(200)
            q = rng.random()
            if q < 0.2:
                vx1 = vx0          # one pixel wide
            elif q < 0.4:
                vy1 = vy0          # one pixel high
            view = 'VIEW %s(%d,%d)-(%d,%d)%s' % (rng.choice(['', 'SCREEN ']), vx0, vy0, vx1, vy1, rng.choice(['', ',1', ',1,2', ',,3']))
            win = 'WINDOW %s(%s,%s)-(%s,%s)' % tuple([rng.choice(['', 'SCREEN '])] + [rng.choice(['0', '1', '-1', '100', '1E-38', '1E38', '-1E38', '.5', '319']) for _ in range(4)])
            obs = ['PRINT POINT(2);POINT(3)', 'PRINT PMAP(1,2);PMAP(1,3)', 'PRINT PMAP(1,0);PMAP(1,1)', 'PSET STEP(1,1)', 'LINE -STEP(2,2)', 'DRAW "P1,1"', 'CIRCLE STEP(0,0),5',
                   'PAINT STEP(1,1)', 'PRINT POINT(0);POINT(1)', 'PSET (0,0)', 'LINE (0,0)-(1,1),,BF', 'GET (0,0)-(1,1),A', 'PUT (0,0),A', 'VIEW', 'WINDOW', 'CLS']
            mid = rng.choice([[win, view], [view, win], [view], [win], [win, view, win]])
            return ['SCREEN %d' % rng.choice([1, 1, 2, 7, 9]), 'DIM A(50)'] + mid + [rng.choice(obs) for _ in range(rng.randrange(2, 6))]
        return [rng.choice(self.GFX_HIST) for _ in range(rng.randrange(2, 10))]

    def memwalk(self):
        """PEEK and POKE-back over a stretch of addresses in one segment (region boundaries of the memory map: D01e), after a
        little history that populates the regions (open file with FIELD, variables, arrays, a program line, a graphics mode)"""
        rng = self.rng
        pre = rng.sample(['OPEN "MW" FOR RANDOM AS 1 LEN=%d:FIELD #1,2 AS A$' % rng.choice([2, 32, 128]), 'DIM A(20):B$="xy"+"z"',
                          'SCREEN %d' % rng.choice([0, 1, 2, 7, 9]), '10 REM walk', 'KEY ON', 'WIDTH 40', 'CLEAR ,%d' % rng.choice([2000, 8000, 30000])],
                         rng.randrange(0, 4))
        seg = rng.choice(['', '', '', '=0', '=&H40', '=&HB800', '=&HA000', '=&HB000', '=&HC000', '=&HF000', '=&HFFFF', '=%d' % rng.randrange(65536)])
        if rng.random() < 0.15:
            # machine ports: read every port of a stretch, write a value to every port of a stretch (D01f)
            a = rng.choice([0, 0x60, 0x200, 0x270, 0x2f0, 0x370, 0x3b0, 0x3c0, 0x3d0, 0x3f0, rng.randrange(0, 65536)])
            b = min(65535, a + rng.randrange(16, 300))
            return pre + ['FOR I!=%d TO %d:X=INP(I!):NEXT' % (a, b), 'FOR I!=%d TO %d:OUT I!,%d:NEXT' % (a, b, rng.choice([0, 1, 255, rng.randrange(256)])),
                          'FOR I!=%d TO %d:X=INP(I!):NEXT' % (a, b), 'PRINT "x"', 'CLOSE']
        a = rng.choice([rng.randrange(0, 65536), rng.randrange(0, 6000), rng.choice([0, 1000, 1000, 3800, 4000, 4500, 4700, 65000, 32500, 16000])])
        n = rng.randrange(200, 700)
        b = min(65535, a + n)
        body = rng.choice(['X=PEEK(I%s)', 'X=PEEK(I%s):POKE I%s,X', 'POKE I%s,255-PEEK(I%s) AND 255',
                           'POKE I%%s,%d:X=PEEK(I%%s)' % rng.choice([0, 0, 224, 255, 13, rng.randrange(256)])]).replace('%s', '!')
        lines = pre + ['DEF SEG%s' % seg, 'FOR I!=%d TO %d:%s:NEXT' % (a, b, body)]
        if rng.random() < 0.3:
            lines.append('BSAVE "MW.BIN",%d,%d' % (a, n))
            lines.append('BLOAD "MW.BIN"')
        return lines + ['DEF SEG', 'CLOSE']

    TYPED = ['AUTO', 'AUTO 100,5', 'AUTO 10', 'EDIT 10', 'EDIT 20', 'EDIT .', '10 PRINT 1 +* 2', '20 PRINT "two"', '10', '20', 'RUN', 'NEW', 'LIST',
             'CONT', 'KEY ON', 'KEY OFF', 'CLS', 'RENUM', 'DELETE 10', 'INPUT A$', 'LINE INPUT B$', 'PRINT INKEY$', 'A$=INPUT$(2)', 'LOCATE 24,1',
             'LOCATE 25,70', 'WIDTH 40', 'SCREEN 1', 'SCREEN 0', 'KEY 1,"LIST"+CHR$(13)', 'ON ERROR GOTO 100', 'STOP', 'END', 'SYSTEM1',
             '\x03', '\x1b', '\x0e', '\x05', '\x0b', '\x0c', '\x1c\x1c\x1d', '\x1e\x1e', '\x1f', '\x08\x08', '\x7f', '\x12', '\x02', '\x06',
             '\x0a', '\x09', 'PRINT STRING$(255,"x")', 'x' * 254, '1 ' + 'x' * 250, '65529 PRINT', '65530 PRINT', '0 PRINT', '.5 PRINT']

    def typed(self):
        """lines typed at the interactive prompt (AUTO mode, EDIT prompts, editing keys, type-ahead for INPUT)"""
        rng = self.rng
        out = []
        for _ in range(rng.randrange(1, 7)):
            r = rng.random()
            if r < 0.6:
                out.append(rng.choice(self.TYPED))
            elif r < 0.8:
                out.append(self.stmt())
            else:
                out.append(rng.choice(self.FAULT + self.AFTER))
        return out

    LOWMEM_BODY = ['FOR I=1 TO 3:PRINT I:NEXT', 'FOR J%=1 TO 2', 'NEXT', 'NEXT J%', 'WHILE W<2:W=W+1:WEND', 'A$=STRING$(40,"x")+"y"', 'B$=A$+A$', 'DIM NEWARR(5)',
                   'NEWARR2(3)=1', 'DEF FNA(X)=X+1', 'PRINT FNA(2)', 'GOSUB 8000', 'X1=1:X2=2:X3=3', 'D#=1.5#', 'READ R1,R2$', 'DATA 5,"five"', 'SWAP A$,B$',
                   'LSET A$="q"', 'MID$(A$,1)="zz"', 'INPUT$(0)', 'OPEN "LM" FOR OUTPUT AS 1:PRINT#1,"x":CLOSE', 'FIELD #1,2 AS F$', 'ERASE NEWARR', 'CLEAR', 'CHAIN "X"',
                   'COMMON A$,X1', 'ON X1 GOSUB 8000', 'KEY 1,"abc"', 'PLAY "C"', 'DRAW "U5"', 'LINE INPUT L$', 'RANDOMIZE 1', 'PRINT USING "##";1', 'WRITE A$,X1',
                   'GET (0,0)-(3,3),NEWARR', 'S$=SPACE$(255)', 'T$=S$+S$', 'PRINT FRE("")', 'OPTION BASE 1', 'DEFINT A-Z:NEWV=1', 'CALL NEWSUB', 'POKE VARPTR(X1),1']

    def lowmem(self):
        """variable memory nearly full: every statement that allocates (new scalars, FOR counters, arrays, strings, DEF FN, file
        buffers) can fail with Out of memory part-way; the program goes on through ON ERROR ... RESUME NEXT or from direct mode"""
        rng = self.rng
        # k = 13..18 leaves 1..7 bytes: too few for a new scalar (8 bytes and up), k = 19..30 room for one or two
        k = rng.choice([rng.randrange(12, 20)] * 3 + [rng.randrange(19, 32)] * 2 + [44, 60, 100, 200])
        prog = ['1 ON ERROR GOTO 9000'] if rng.random() < 0.7 else []
        prog.append('2 DIM ZZ%%(INT((FRE(0)-%d)/2))' % k if rng.random() < 0.8 else '2 ZZ$=STRING$(200,"z"):CLEAR ,%d' % rng.choice([5200, 5400, 6000, 8000]))
        n = 10
        if rng.random() < 0.4:
            loop = rng.choice([['FOR I=1 TO 3', 'PRINT I', 'NEXT'], ['FOR J%=1 TO 2', 'NEXT J%'], ['WHILE NW<2', 'NW=NW+1', 'WEND'], ['GOSUB 8000', 'NG=1']])
            for l in loop:
                prog.append('%d %s' % (n, l))
                n += 10
        for _ in range(rng.randrange(2, 8)):
            prog.append('%d %s' % (n, rng.choice(self.LOWMEM_BODY)))
            n += 10
        prog += ['8000 RETURN', '9000 RESUME NEXT']
        after = [rng.choice(['GOTO %d' % rng.choice(range(10, n, 10)), 'CONT', 'PRINT FRE(0)', 'RUN', 'NEXT', 'ERASE ZZ%', rng.choice(self.LOWMEM_BODY)])
                 for _ in range(rng.randrange(1, 4))]
        return prog + ['RUN'] + after

    DEVS = ['NUL', 'CON', 'PRN', 'AUX', 'SCRN:', 'KYBD:', 'LPT1:', 'LPT2:', 'LPT3:', 'COM1:', 'COM2:', 'CAS1:', 'CAS1:X', 'C:DV', 'DV', '@:DV', 'A:DV', 'LPT1:X', 'SCRN:X']
    DEVOPS = ['PRINT LOF(1);LOC(1);EOF(1)', 'PRINT#1,"x";1', 'WRITE#1,"y",2', 'INPUT#1,A$', 'LINE INPUT#1,B$', 'C$=INPUT$(1,#1)', 'GET#1', 'PUT#1', 'GET#1,2', 'PUT#1,2',
              'FIELD #1,2 AS F$', 'LSET F$="ab"', 'WIDTH #1,40', 'LOCK #1', 'UNLOCK #1', 'PRINT#1,USING "##";3', 'CLOSE #1', 'PRINT LPOS(1);POS(0)', 'IOCTL #1,"x"',
              'PRINT IOCTL$(1)', 'PRINT EOF(0)', 'PRINT LOF(0)', 'SEEK #1,1']
    DEVFILE = ['BLOAD "%s"', 'BSAVE "%s",0,16', 'LOAD "%s"', 'SAVE "%s"', 'SAVE "%s",A', 'SAVE "%s",P', 'MERGE "%s"', 'CHAIN "%s"', 'RUN "%s"', 'KILL "%s"', 'NAME "%s" AS "Q"',
               'FILES "%s"', 'LIST ,"%s"', 'OPEN "%s" FOR INPUT AS 2', 'MKDIR "%s"', 'CHDIR "%s"']

    def devices(self):
        """every file statement on every device in every open mode (D01k, D27c)"""
        rng = self.rng
        dev = rng.choice(self.DEVS)
        mode = rng.choice(['FOR INPUT', 'FOR OUTPUT', 'FOR APPEND', 'FOR RANDOM', '', 'FOR RANDOM ACCESS READ', 'FOR INPUT SHARED'])
        lines = ['10 PRINT 1'] if rng.random() < 0.3 else []
        lines.append(rng.choice(['OPEN "%s" %s AS 1' % (dev, mode), 'OPEN "%s",1,"%s"' % (rng.choice('IOARX'), dev), 'OPEN "%s" %s AS 1 LEN=%d' % (dev, mode, rng.choice([1, 2, 128, 32767]))]))
        for _ in range(rng.randrange(1, 6)):
            lines.append(rng.choice(self.DEVOPS) if rng.random() < 0.75 else rng.choice(self.DEVFILE) % rng.choice(self.DEVS))
        return lines + ['CLOSE']

    def tokfile(self):
        rng = self.rng
        import struct
        big = rng.random() < 0.3
        n = rng.randrange(230, 300) if big else rng.randrange(1, 8)
        out, addr = b'\xff', 0x126e + 1
        num = rng.choice([0, 1, 10, 65000, 65520])
        for i in range(n):
            body = (b'\x8f' + b'x' * 238) if big else rng.choice([b'\x91 1', b'\x89 \x0e\xff\xff', b'\x8f', b'\x89 \x0e\x0a\x00', b'\x8d \x0e\xfa\xff:\x8e'])
            rec = struct.pack('<HH', (addr + 4 + len(body) + 1) & 0xffff, num & 0xffff) + body + b'\0'
            addr += len(rec)
            out += rec
            num = rng.choice([num + 1, num + 10, 65529, 65530, 65535, num, max(0, num - 5)]) if not big else num + 1
        junk = rng.choice([b'', b'', b'\x0e', b'\x0e\x01', b'\x1d\x00', b'\x0f', b'xx\x1c\x05', bytes(rng.randrange(256) for _ in range(rng.randrange(1, 6)))])
        return list(out + b'\0\0' + junk + rng.choice([b'\x1a', b'']))

    AFTER = ['CONT', 'RUN', 'LIST', 'PRINT ERR;ERL', 'RESUME', 'RESUME NEXT', 'EDIT 20', 'NEW', 'RENUM', 'GOTO 100', 'RETURN', 'STOP']

    def scenario(self):
        """multi-step histories around error traps: a program arms ON ERROR (and maybe ends with the trap armed), direct-mode
        statements fault, the handler does something unusual, then more direct-mode commands"""
        rng = self.rng
        prog = ['10 ON ERROR GOTO 100', '20 %s' % rng.choice(self.FAULT + ['PRINT "ok"', 'PRINT "ok"']),
                '30 %s' % rng.choice(['END', 'PRINT "x"', 'STOP', 'GOTO 20', 'RETURN']),
                '100 %s' % rng.choice(self.HANDLER), '110 %s' % rng.choice(self.HANDLER)]
        if rng.random() < 0.3:
            prog.insert(1, '15 ON KEY(1) GOSUB 100:KEY(1) ON')
        lines = prog + ['RUN']
        for _ in range(rng.randrange(1, 4)):
            lines.append(rng.choice(self.FAULT if rng.random() < 0.6 else self.AFTER))
        return lines

    def gen_cases(self, n):
        rng = self.rng
        if self._corpus is None:
            self._corpus = corpus_statements()
        hist = {'funnel': 0, 'direct': 0, 'program': 0, 'file': 0, 'corpus_lines_available': len(self._corpus)}
        out = []
        for i in range(n):
            r = rng.random()
            if r < 0.05:
                e = rng.choice([[10, rng.randrange(1, 80)], [11, 0], [12, 0], [13, 0], [1, 0], [2, 0], [3, 0], [4, 0],
                                [5, rng.randrange(0, 130)], [9, rng.randrange(1, 9)]])
                out.append(rng.choice([{'k': 'he', 'e': e}, {'k': 'sio', 'err': rng.choice([57, 24, 25]), 'e': e},
                                       {'k': 'fs', 'dr': rng.randrange(2), 'con': rng.randrange(2), 'e': e}]))
                hist['funnel'] += 1
            elif r < 0.075:
                out.append({'k': 'prog', 'lines': self.memwalk(), 'default': rng.random() < 0.5})
                hist['memwalk'] = hist.get('memwalk', 0) + 1
            elif r < 0.1:
                out.append({'k': 'prog', 'lines': self.devices(), 'default': rng.random() < 0.3})
                hist['devices'] = hist.get('devices', 0) + 1
            elif r < 0.125:
                out.append({'k': 'prog', 'lines': self.lowmem(), 'default': rng.random() < 0.3})
                hist['lowmem'] = hist.get('lowmem', 0) + 1
            elif r < 0.155:
                pre = rng.choice([[], self.scenario(), ['10 PRINT 1 +* 2', 'RUN'], ['10 PRINT 1', '20 GOTO 10'], [self.stmt()]])
                out.append({'k': 'prog', 'lines': pre, 'keys': self.typed(), 'default': rng.random() < 0.5})
                hist['interactive'] = hist.get('interactive', 0) + 1
            elif r < 0.2:
                out.append({'k': 'prog', 'lines': self.scenario(), 'default': rng.random() < 0.5})
                hist['scenario'] = hist.get('scenario', 0) + 1
            elif r < 0.3:
                out.append({'k': 'prog', 'lines': self.gfx_history(), 'default': False, 'video': rng.choice(['vga', 'ega', 'cga', 'tandy', 'hercules', 'mda', 'pcjr'])})
                hist['gfx_history'] = hist.get('gfx_history', 0) + 1
            elif r < 0.6:
                out.append({'k': 'prog', 'lines': [self.stmt() for _ in range(rng.randrange(1, 5))], 'default': rng.random() < 0.5})
                hist['direct'] += 1
            elif r < 0.88:
                prog = progen.program(rng, rng.randrange(1, 7))
                lines = ['%d %s' % (ln, b) for ln, b in prog]
                if rng.random() < 0.5:
                    lines.insert(rng.randrange(len(lines) + 1), '%d %s' % (rng.randrange(1, 60000), self.stmt()))
                out.append({'k': 'prog', 'lines': lines + [rng.choice(['RUN', 'RUN', 'LIST', 'RENUM', 'SAVE "T"', 'RUN:LIST'])],
                            'default': rng.random() < 0.5})
                hist['program'] += 1
            elif r > 0.97:
                # well-formed tokenised files with unusual line numbers (65530..65535, descending, duplicates) or of a size
                # around / beyond program memory (D14a, D13c)
                out.append({'k': 'file', 'bytes': self.tokfile(), 'name': 'X'})
                hist['file_wellformed'] = hist.get('file_wellformed', 0) + 1
            else:
                magic = rng.choice([[0xff], [0xfe], [0xfc], [0xfd], [], [ord('1'), ord('0'), 32]])
                body = common.rand_bytes(rng, rng.randrange(0, 80), pool_bias=0.5)
                out.append({'k': 'file', 'bytes': magic + body, 'name': 'X'})
                hist['file'] += 1
        self.histogram = hist
        return out

    # ------------------------------------------------------------------ implementation
    def mk_exc(self, e):
        from pcbasic.basic.base import error
        c, a = e
        return {10: lambda: error.BASICError(a), 11: lambda: error.Break(), 12: lambda: error.Exit(), 13: lambda: error.Reset(),
                1: lambda: ValueError('x'), 2: lambda: FloatingPointError('x'), 3: lambda: OverflowError('x'),
                4: lambda: ZeroDivisionError('x'), 5: lambda: OSError(a, 'x'),
                9: lambda: [KeyError, TypeError, IndexError, AttributeError, RuntimeError, AssertionError, EOFError,
                            NotImplementedError, StopIteration][(a - 1) % 9]('x')}[c]()

    def enc_exc(self, x, orig):
        from pcbasic.basic.base import error
        if isinstance(x, error.BASICError):
            return [10, x.err]
        if isinstance(x, error.Reset):
            return [13, 0]
        if isinstance(x, error.Exit):
            return [12, 0]
        if isinstance(x, error.Break):
            return [11, 0]
        if isinstance(x, ValueError) and not isinstance(x, UnicodeError):
            return [1, 0]
        if isinstance(x, OverflowError):
            return [3, 0]
        if isinstance(x, ZeroDivisionError):
            return [4, 0]
        if isinstance(x, ArithmeticError):
            return [2, 0]
        if isinstance(x, OSError):
            return [5, x.errno if x.errno is not None else 0]
        return [9, orig[1]]

    def impl(self, case):
        k = case['k']
        if k == 'he':
            s = common.new_session()
            s.start()
            try:
                with s._impl._handle_exceptions():
                    raise self.mk_exc(case['e'])
            except BaseException as x:
                return [1] + self.enc_exc(x, case['e'])
            finally:
                s.close()
            return [0]
        if k == 'fs':
            from pcbasic.basic.values import values as vmod
            s = common.new_session()
            s.start()
            try:
                h = vmod.FloatErrorHandler(s._impl.console if case['con'] else None)
                h.suspend(bool(case['dr']))

                class Arg(object):
                    error_handler = h
                exc = self.mk_exc(case['e'])
                if case['e'][0] in (3, 4):
                    # real callers attach the maximum Float of the result type to the exception
                    exc = type(exc)(s._impl.values.new_single())

                def callee(a):
                    raise exc
                try:
                    vmod.float_safe(callee)(Arg())
                except BaseException as x:
                    return [1] + self.enc_exc(x, case['e'])
                return [0]
            finally:
                s.close()
        if k == 'os':
            from pcbasic.basic.devices import disk
            try:
                disk.handle_oserror(OSError(case['n'], 'x'))
            except BaseException as x:
                return self.enc_exc(x, [5, case['n']])
            return [0]
        if k == 'sio':
            from pcbasic.basic.devices import devicebase
            try:
                with devicebase.safe_io(case['err']):
                    raise self.mk_exc(case['e'])
            except BaseException as x:
                return self.enc_exc(x, case['e'])
            return [0]
        return self.run_search(case)

    def run_search(self, case):
        from pcbasic.basic.base import error
        top = common.tmpdir('c01')
        d = os.path.join(top, 'a', 'b', 'mount')
        os.makedirs(d)
        saved_env = dict(os.environ)
        kw = {} if case.get('default') else {'devices': {'C': d}, 'current_device': 'C:'}
        if case.get('video'):
            kw['video'] = case['video']
        if case.get('keys'):
            import io
            kw['input_streams'] = io.BytesIO(b''.join(k.encode('latin1', 'replace') + b'\r' for k in case['keys']))
        s = common.new_session(**kw)
        self._ran_ok = 0
        try:
            if case['k'] == 'file':
                with open(os.path.join(d, case['name'] + '.BAS'), 'wb') as f:
                    f.write(bytes(case['bytes']))
                if case.get('default'):
                    return [0]
                lines = ['LOAD "%s"' % case['name'], 'LIST', 'RENUM 65529', 'RENUM', 'LIST', 'RUN', 'MERGE "%s"' % case['name'], 'CHAIN "%s"' % case['name'],
                         'SAVE "Y"', 'LOAD "Y"', 'DELETE 65530-', 'EDIT 65535']
            else:
                lines = case['lines']
            for l in lines:
                if l.lstrip('0123456789 ').upper().startswith(SKIP):
                    continue
                try:
                    with core.time_limit(5):
                        out = s.execute(l.encode('latin1', 'replace'))
                    self._ran_ok += 1
                except TimeoutError:
                    break
                except (error.Exit, error.Break, error.Reset):
                    break
                except error.BASICError:
                    break
                except BaseException as x:
                    tb = traceback.extract_tb(x.__traceback__)[-1]
                    sig = '%s@%s:%d' % (type(x).__name__, os.path.basename(tb.filename), tb.lineno)
                    h = int(hashlib.sha1(sig.encode()).hexdigest()[:6], 16)
                    self.__dict__.setdefault('_sigs', {})[h] = sig + ' ' + str(x)[:100] + ' at statement ' + repr(l)
                    return [2, h]
            if case.get('keys'):
                # interactive phase: the remaining lines are typed at the prompt (Session.interact until the input runs out)
                try:
                    with core.time_limit(10):
                        s.interact()
                    self._ran_ok += 1
                except TimeoutError:
                    pass
                except (error.Exit, error.Break, error.Reset, error.BASICError):
                    pass
                except BaseException as x:
                    tb = traceback.extract_tb(x.__traceback__)[-1]
                    sig = '%s@%s:%d' % (type(x).__name__, os.path.basename(tb.filename), tb.lineno)
                    h = int(hashlib.sha1(sig.encode()).hexdigest()[:6], 16)
                    self.__dict__.setdefault('_sigs', {})[h] = sig + ' ' + str(x)[:100] + ' in Session.interact typing ' + repr(case['keys'])
                    return [2, h]
            return [0]
        finally:
            try:
                s.close()
            except BaseException:
                pass
            os.environ.clear()
            os.environ.update(saved_env)
            common.rmtree(top)

    # ------------------------------------------------------------------ model
    def model_term(self, case):
        k = case['k']
        if k == 'he':
            return '(enc_verdict (handle_exceptions (dec_exn %d %d)))' % tuple(case['e'])
        if k == 'fs':
            return '(enc_out (float_safe %s %s (dec_exn %d %d)))' % (
                'true' if case['dr'] else 'false', 'true' if case['con'] else 'false', case['e'][0], case['e'][1])
        if k == 'os':
            return '(enc_exn (handle_oserror %s))' % ('(%d)' % case['n'] if case['n'] < 0 else case['n'])
        if k == 'sio':
            return '(enc_exn (safe_io %d (dec_exn %d %d)))' % (case['err'], case['e'][0], case['e'][1])
        return '[0]'

    def oracle(self, case, out):
        k = case['k']
        if k in ('prog', 'file'):
            if out[:1] == [2]:
                return 'host exception escaped from Session.execute: %s' % self.__dict__.get('_sigs', {}).get(out[1], out)
            return None
        if k == 'he':
            # property: BASICError/Break are reported, Exit/Reset propagate, nothing else is converted
            c = case['e'][0]
            if c in (10, 11) and out != [0]:
                return 'BASIC error / break raised below the funnel was not reported: %r' % out
            return None
        if k == 'fs':
            if case['e'][0] in (1, 3, 4) and out[:1] == [1] and out[1] != 10:
                return 'float_safe let a host exception through: %r' % out
            return None
        if k == 'os':
            if out[0] != 10:
                return 'handle_oserror(%d) did not raise a BASIC error: %r' % (case['n'], out)
        return None

    def nontrivial(self, case, out):
        if case['k'] in ('prog', 'file'):
            return getattr(self, '_ran_ok', 0) > 0
        return True

    def shrink_candidates(self, case):
        if case['k'] == 'prog':
            ls = case['lines']
            for i in range(len(ls)):
                d = dict(case)
                d['lines'] = ls[:i] + ls[i + 1:]
                if d['lines']:
                    yield d
            for i, l in enumerate(ls):
                for cut in (l[:len(l) // 2], l[len(l) // 2:], l[:-1], l[1:]):
                    if cut and cut != l:
                        d = dict(case)
                        d['lines'] = ls[:i] + [cut] + ls[i + 1:]
                        yield d
        elif case['k'] == 'file':
            b = case['bytes']
            for i in range(1, len(b)):
                d = dict(case)
                d['bytes'] = b[:i] + b[i + 1:]
                yield d


CHECK = C01
