"""C13 - The stored program matches the entered lines after any edit history."""
import atexit
import copy
import os
import re
import struct

from vlib import core
from harness import common, progen

# memory sizes used for the sessions: the default and two small ones (to reach Out of memory quickly)
MEMS = [65534, 6200, 5600]

_SESS = {}
_MSG = {}


def session(mem):
    """One reusable Session per memory size (creating one costs 0.25 s); NEW resets the program."""
    s = _SESS.get(mem)
    if s is None:
        d = common.tmpdir('c13d')
        atexit.register(common.rmtree, d)
        s = common.new_session(max_memory=mem, devices={'C': d}, current_device='C:')
        s.execute(b'NEW')
        s._c13_dir = d
        _SESS[mem] = s
    return s


def drop_session(mem):
    _SESS.pop(mem, None)


def err_of(out):
    """BASIC error number shown in direct-mode output, or 0."""
    if not _MSG:
        from pcbasic.basic.base import error
        for n in range(1, 256):
            try:
                m = error.BASICError(n).message
            except Exception:
                continue
            _MSG.setdefault(bytes(m), n)
    if not out:
        return 0
    for line in out.replace(b'\xff', b'').split(b'\r'):
        line = line.strip(b'\n ')
        if line in _MSG:
            return _MSG[line]
        mo = re.match(br'^(.*) in \d+$', line)
        if mo and mo.group(1) in _MSG:
            return _MSG[mo.group(1)]
    return 0


def tokenise(s, num, text):
    """Line buffer the real tokeniser produces for `num text` (input to the model: the tokeniser is C17)."""
    buf = s._impl.tokeniser.tokenise_line(b'%d %s' % (num, text))
    return list(bytearray(buf.getvalue()))


def txt(t):
    return t.encode('latin1', 'replace') if isinstance(t, str) else bytes(t)


def state_obs(p):
    """Same canonical observation as Program.obs."""
    codeb = list(bytearray(p.bytecode.getvalue()))
    ln = sorted(p.line_numbers.items())
    flat = []
    for k, v in ln:
        flat += [k, v]
    return [len(codeb), code_hash(codeb)] + [len(ln)] + flat + [p.last_stored]


def code_hash(bs):
    h = 0
    for b in bs:
        h = (h * 257 + b + 1) % 1000000007
    return h


def zl_rle(l):
    """Coq list literal with long runs written as zrep n x."""
    parts, cur, i = [], [], 0
    while i < len(l):
        j = i
        while j < len(l) and l[j] == l[i]:
            j += 1
        if j - i >= 12:
            if cur:
                parts.append(core.zl(cur))
                cur = []
            parts.append('zrep %d %d' % (j - i, l[i]))
        else:
            cur += l[i:j]
        i = j
    if cur or not parts:
        parts.append(core.zl(cur))
    return '(' + ' ++ '.join(parts) + ')'


def opt(x):
    return 'None' if x is None else '(Some %d)' % x


SPECIAL_TEXTS = [
    b'PRINT "\x8f":X=&H0:PRINT "ten"', b'PRINT "\x8f":GOTO 10', b'X=&H0:Y=&O0', b"' \x8f \"", b'REM "unclosed',
    b'PRINT "unclosed', b'DATA "a,b",c:PRINT 1', b'X=0:Y=10:Z=255:W=256:V=1.5:U=1D0', b'A$="\x0e\x0f\x1c"',
    b'IF X THEN 10 ELSE 20', b'ON X GOTO 10,20,30', b'PRINT CHR$(34);"\x8f\x8f";&HFF00', b'X=65535!:Y=.0',
    b'?', b':', b'GOTO 0', b'ON ERROR GOTO 0', b'FOR I=1 TO 10:NEXT', b'PRINT "' + b'x' * 230 + b'"',
    b'REM ' + b'y' * 240, b'X=&H0', b'"', b'""""', b'PRINT "a";\x8f;"b"',
]
# how the LAST line of an ASCII program file ends (files written by SAVE ,A end CR LF ^Z; files from editors may
# end with a bare CR, with no line end at all, or with ^Z straight after the text)
FILE_ENDS = {'crlf': b'\r\n', 'crlfz': b'\r\n\x1a', 'cr': b'\r', 'none': b'', 'z': b'\x1a'}


def ascii_file(lines, end):
    body = b'\r\n'.join(b'%d %s' % (n, txt(t)) for n, t in lines)
    return body + FILE_ENDS[end or 'crlf']


NUM_POOL = [0, 1, 2, 9, 10, 11, 255, 256, 257, 8224, 32767, 32768, 65528, 65529]


class C13(core.Check):
    ID = 'C13'
    GEN = ['gen_program']
    PROPS = 'props/C13.v'
    MODEL_IMPORTS = ['gen.Gen_program', 'model.Program', 'model.Renum', 'model.Edit']
    QUICK_CASES = 170
    THOROUGH_CASES = 3000
    TRUSTED = ['hand model model/Program.v of program.py store_line/find_pos_line_dict/update_line_dict/delete/'
               'erase/rebuild_line_dict/list_lines and codestream.skip_to, tied by correspondence on real '
               'Sessions (bytecode, line_numbers, last_stored, LIST order, per-command error); token-length '
               'table regenerated (gen_program); tokenised line bytes come from the real tokeniser (C17) and '
               'are checked against wf_body on every case']
    PARTIAL = ('for histories with RENUM / SAVE+LOAD / MERGE the theorem is preservation of the invariant WF '
               '(C13_ext_invariant: some reference map is represented) plus C13_save_load; which map results from '
               'RENUM is C14, from MERGE it is a prefix of the file lines (only tested); protected programs, '
               'CHAIN MERGE (= MERGE + DELETE range, both modelled) and AUTO/EDIT (= store_line) are not run through '
               'the harness')
    RULE = ('edit histories (store/replace/delete-by-empty-line/DELETE ranges/NEW/rebuild/RENUM accepted and rejected/SAVE+LOAD/MERGE of ASCII files; after every command the index is compared with a rescan) of up to 200 ops '
            '(thorough: 300) over line numbers 0..65529 with generated and special statement text, run through '
            'Session.execute; compared with the model on per-command error, bytecode, line_numbers, last_stored, '
            'LIST order; oracle = independent Python dict reference + layout/links/PEEK walk. non-trivial = at '
            'least 3 successful edits; distinct by hash')
    histogram = None

    # ---- cases
    def corpus(self):
        big = [['S', n, 'REM ' + 'x' * 240] for n in range(300, 30, -1)]
        return [
            {'mem': 65534, 'ops': []},
            {'mem': 65534, 'ops': [['S', 10, 'PRINT 1'], ['S', 10, '']]},
            {'mem': 65534, 'ops': [['S', 10, '']]},
            {'mem': 65534, 'ops': [['D', None, None]]},
            {'mem': 65534, 'ops': [['S', 10, 'PRINT 1'], ['S', 5, 'GOTO 10'], ['S', 20, 'END'], ['S', 10, 'PRINT 12345'],
                                   ['D', 5, 10], ['S', 15, 'X=1'], ['D', None, 15], ['R'], ['N'], ['S', 0, 'REM']]},
            {'mem': 65534, 'ops': [['S', 65529, 'END'], ['S', 0, 'END'], ['D', 1, 65528], ['D', 0, 0], ['D', 65529, None]]},
            # D13a: REM token byte inside a string literal, then a 00 inside a number token; rescan must agree
            {'mem': 65534, 'ops': [['S', 10, 'PRINT "\x8f":X=&H0:PRINT "ten"'], ['S', 20, 'PRINT "twenty"'], ['R']]},
            # D13b: lines inserted before existing code bypassed the memory check
            {'mem': 5600, 'ops': [['S', n, 'REM ' + 'x' * 200] for n in (50, 40, 30, 20, 10)]},
            {'mem': 65534, 'ops': big},
            # seed C13e: the last line of an ASCII file is not CR-terminated (MERGE keeps the stale line / LOAD drops it)
            {'mem': 65534, 'ops': [['S', 20, 'PRINT "old"'], ['M', [[10, 'PRINT 1'], [20, 'PRINT 2']], 'none'], ['S', 30, 'END']]},
            {'mem': 65534, 'ops': [['S', 5, 'END'], ['A', [[10, 'GOTO 20'], [20, 'PRINT 2']], 'z'], ['X', None, None, None]]},
            {'mem': 65534, 'ops': [['A', [[10, 'PRINT 1']], 'none'], ['M', [[10, 'PRINT 9'], [5, 'END']], 'cr'], ['A', [[7, 'END']], 'crlfz']]},
            # seed C13b: RENUM rejected half-way (second line would pass 65529) must leave code and index consistent
            {'mem': 65534, 'ops': [['S', 10, 'GOTO 20'], ['S', 20, 'GOTO 10'], ['X', 65529, None, 1], ['S', 15, 'END']]},
            {'mem': 65534, 'ops': [['S', 10, 'GOTO 20'], ['S', 20, 'END'], ['L'], ['S', 15, 'PRINT 1'], ['L'],
                                   ['M', [[12, 'PRINT 2'], [30, ''], [40, 'END']]], ['X', 0, None, 1]]},
        ]

    def gen_ops(self, rng, nops, files=True):
        ops = []
        have = []
        for _ in range(nops):
            r = rng.random()
            if r < 0.55 or not have:
                q = rng.random()
                if q < 0.25 and have:
                    n = rng.choice(have)
                elif q < 0.40:
                    n = rng.choice(NUM_POOL)
                elif q < 0.8:
                    n = 10 * rng.randrange(1, 40)
                else:
                    n = rng.randrange(0, 65530)
                if rng.random() < 0.2:
                    t = rng.choice(SPECIAL_TEXTS).decode('latin1')
                else:
                    t = progen.line_body(rng, have or [10])
                ops.append(['S', n, t])
                if n not in have:
                    have.append(n)
            elif r < 0.72:
                n = rng.choice(have) if rng.random() < 0.7 else rng.randrange(0, 65530)
                ops.append(['S', n, rng.choice(['', '', ' ', '  '])])
            elif r < 0.93:
                a = rng.choice(have + NUM_POOL) if rng.random() < 0.7 else rng.randrange(0, 65530)
                b = rng.choice(have + NUM_POOL) if rng.random() < 0.7 else rng.randrange(0, 65530)
                q = rng.random()
                if q < 0.5:
                    ops.append(['D', min(a, b), max(a, b)])
                elif q < 0.6:
                    ops.append(['D', max(a, b), min(a, b)])
                elif q < 0.75:
                    ops.append(['D', a, a])
                elif q < 0.85:
                    ops.append(['D', None, a])
                elif q < 0.95:
                    ops.append(['D', a, None])
                else:
                    ops.append(['D', None, None])
            elif r < 0.945:
                ops.append(['R'])
            elif r < 0.965:
                pool = [None, 0, 1, 10, 100, 1000, 65000, 65520, 65529] + have
                ops.append(['X', rng.choice(pool), rng.choice([None, None] + have + [rng.randrange(65530)]),
                            rng.choice([None, None, 1, 2, 10, 100, 1000, 0])])
                have = []          # numbers change; later ops draw fresh ones
            elif not files and r < 0.985:
                ops.append(['R'])     # small-memory sessions: opening a file may itself run out of memory
            elif r < 0.975:
                ops.append(['L'])
            elif r < 0.985:
                ls = []
                for _ in range(rng.randrange(1, 6)):
                    n = rng.choice(have + NUM_POOL) if rng.random() < 0.6 else 10 * rng.randrange(1, 40)
                    t = '' if rng.random() < 0.1 else progen.line_body(rng, have or [10])
                    t = t.replace('\x1a', ' ')
                    ls.append([n, t])
                    if n not in have:
                        have.append(n)
                ops.append([rng.choice(['M', 'M', 'A']), ls, rng.choice(['crlf', 'crlfz', 'cr', 'none', 'none', 'z', 'z'])])
                if ops[-1][0] == 'A':
                    have = [n for n, _ in ls]
            else:
                ops.append(['N'])
                have = []
        return ops

    def gen_cases(self, n):
        rng = self.rng
        hist = {'S': 0, 'S_empty': 0, 'D': 0, 'N': 0, 'R': 0, 'X': 0, 'L': 0, 'M': 0, 'A': 0, 'file_last_line_without_CR': 0, 'small_memory': 0}
        out = []
        maxops = 300 if self.tier == 'thorough' else 200
        for i in range(n):
            r = rng.random()
            nops = rng.randrange(1, 15) if r < 0.6 else rng.randrange(15, 60) if r < 0.9 else rng.randrange(60, maxops + 1)
            mem = MEMS[0] if rng.random() < 0.8 else rng.choice(MEMS[1:])
            ops = self.gen_ops(rng, nops, files=(mem == MEMS[0]))
            if rng.random() < 0.1:
                # RENUM-focused history (seed C13c): a handful of lines that jump to one another, then a partial RENUM
                # that is accepted (start line in the middle, new number above the last line that keeps its number), a
                # second RENUM or an edit afterwards
                nums = sorted(rng.sample(range(1, 400), rng.randrange(3, 9)))
                ops = [['S', k, rng.choice(['GOTO %d' % rng.choice(nums), 'GOSUB %d:PRINT %d' % (rng.choice(nums), k),
                                            'IF X THEN %d ELSE %d' % (rng.choice(nums), rng.choice(nums)),
                                            'ON X GOTO %d,%d' % (rng.choice(nums), rng.choice(nums)), 'PRINT %d' % k,
                                            progen.line_body(rng, nums)])] for k in nums]
                rng.shuffle(ops)
                start = rng.choice(nums[1:])
                below = max(k for k in nums if k < start)
                ops.append(['X', rng.choice([below + 1, start, 500, 1000, rng.randrange(below + 1, 2000)]), start, rng.choice([None, 1, 7, 10, 100])])
                ops.append(rng.choice([['X', None, None, None], ['S', 5, 'GOTO 1000'], ['D', None, below], ['R'], ['X', 10, None, 3]]))
            for o in ops:
                k = o[0]
                if k == 'S' and not o[2].strip():
                    hist['S_empty'] += 1
                else:
                    hist[k] += 1
                if k in ('M', 'A') and len(o) > 2 and o[2] in ('none', 'z'):
                    hist['file_last_line_without_CR'] += 1
            hist['small_memory'] += mem != MEMS[0]
            out.append({'mem': mem, 'ops': ops})
        self.histogram = hist
        return out

    # ---- implementation
    def _run(self, case):
        """Run the history; returns (statuses, linebufs, program object snapshot data)."""
        key = core.sha(case)
        cache = self.__dict__.setdefault('_runs', {})
        if key in cache:
            return cache[key]
        mem = case['mem']
        s = session(mem)
        res = {'status': [], 'bufs': [], 'host': None}
        try:
            with core.time_limit(120):
                s.execute(b'NEW')
                p = s._impl.program
                res['cs'] = s._impl.memory.code_start
                res['limit'] = s._impl.memory.stack_start()
                for o in case['ops']:
                    try:
                        if o[0] == 'S':
                            t = txt(o[2])
                            res['bufs'].append(tokenise(s, o[1], t))
                            out = s.execute(b'%d %s' % (o[1], t))
                        elif o[0] == 'D':
                            res['bufs'].append(None)
                            a = b'' if o[1] is None else b'%d' % o[1]
                            b = b'' if o[2] is None else b'%d' % o[2]
                            out = s.execute(b'DELETE' if o[1] is None and o[2] is None else b'DELETE ' + a + b'-' + b)
                        elif o[0] == 'N':
                            res['bufs'].append(None)
                            out = s.execute(b'NEW')
                        elif o[0] == 'X':
                            res['bufs'].append(None)
                            a = [b'' if x is None else b'%d' % x for x in o[1:4]]
                            cmd = b'RENUM ' + a[0]
                            if o[2] is not None or o[3] is not None:
                                cmd += b',' + a[1]
                            if o[3] is not None:
                                cmd += b',' + a[2]
                            out = s.execute(cmd)
                        elif o[0] == 'L':
                            res['bufs'].append(None)
                            out = s.execute(b'SAVE "T"')
                            if not err_of(out):
                                out = s.execute(b'LOAD "T"')
                        elif o[0] in ('M', 'A'):
                            res['bufs'].append([tokenise(s, n, txt(t)) for n, t in o[1]])
                            with open(os.path.join(s._c13_dir, 'M.BAS'), 'wb') as f:
                                f.write(ascii_file(o[1], o[2] if len(o) > 2 else 'crlf'))
                            out = s.execute(b'MERGE "M"' if o[0] == 'M' else b'LOAD "M"')
                        else:
                            res['bufs'].append(None)
                            p.rebuild_line_dict()
                            out = b''
                        res['status'].append(0 if not err_of(out) else 100 + err_of(out))
                        # after ANY command, failed or not: the index equals a rescan of the code
                        if 'broken_at' not in res:
                            q = copy.copy(p)
                            q.bytecode = copy.deepcopy(p.bytecode)
                            q.line_numbers = dict(p.line_numbers)
                            q.rebuild_line_dict()
                            if (bytes(q.bytecode.getvalue()), q.line_numbers) != (bytes(p.bytecode.getvalue()), p.line_numbers):
                                res['broken_at'] = len(res['status']) - 1
                    except Exception as e:           # host exception escaped from the interpreter
                        res['status'].append(200 + common.canon_exc(e)[1])
                        res['host'] = '%s: %s' % (type(e).__name__, e)
                        drop_session(mem)
                        break
                res['obs'] = state_obs(p)
                res['code'] = bytes(p.bytecode.getvalue())
                res['lines'] = dict(p.line_numbers)
                if res['host'] is None:
                    lst = s.execute(b'LIST')
                    res['list'] = [int(re.match(br'\s*(\d+)', l).group(1)) for l in lst.split(b'\r\n')
                                   if re.match(br'\s*\d+', l)]
                    res['peek'] = [p.get_memory(res['cs'] + i) for i in range(len(res['code']))]
                    # incremental index versus a fresh rescan on a copy
                    q = copy.copy(p)
                    q.bytecode = copy.deepcopy(p.bytecode)
                    q.line_numbers = dict(p.line_numbers)
                    q.rebuild_line_dict()
                    res['rescan'] = (bytes(q.bytecode.getvalue()), dict(q.line_numbers))
                    res['fre'] = res['limit'] - (res['cs'] + len(res['code']))
                else:
                    res['list'] = []
        except Exception:
            drop_session(mem)
            raise
        cache[key] = res
        return res

    def impl(self, case):
        r = self._run(case)
        return [len(r['status'])] + r['status'] + r['obs'] + [len(r['list'])] + r['list'] + [1]

    def model_term(self, case):
        r = self._run(case)
        ops = []
        bodies = []
        for o, buf in zip(case['ops'], r['bufs']):
            if o[0] == 'S':
                ops.append('XBase (OStore %s)' % zl_rle(buf))
            elif o[0] == 'D':
                ops.append('XBase (ODelete %s %s)' % (opt(o[1]), opt(o[2])))
            elif o[0] == 'N':
                ops.append('XBase ONew')
            elif o[0] == 'X':
                ops.append('XRenum %s %s %s' % (opt(o[1]), opt(o[2]), opt(o[3])))
            elif o[0] == 'L':
                ops.append('XSaveLoad')
            elif o[0] in ('M', 'A'):
                ops.append('%s [%s]' % ('XMerge' if o[0] == 'M' else 'XLoadAscii', '; '.join(zl_rle(b) for b in buf)))
            else:
                ops.append('XBase ORebuild')
        return ('(xtrace {| cs := %d; limit := %d |} [%s])' % (r['cs'], r['limit'], '; '.join(ops)))

    # ---- property oracle: independent dict reference
    def reference(self, case, r):
        """Independent dict reference: returns (lines or None when no longer determined, 1A bytes behind the
        terminator, complaint)."""
        ref, ntail = {}, 0

        def store(n, body, st, what):
            if body.strip(b' \t\n') == b'':
                if n in ref:
                    if st not in (0, None):
                        return 'deleting existing line %d reported error %d' % (n, st - 100)
                    del ref[n]
                    return None
                return 'stop108'
            ref[n] = body
            return None

        for o, buf, st in zip(case['ops'], r['bufs'], r['status']):
            if st >= 200:
                break
            if o[0] == 'S':
                body = bytes(bytearray(buf[5:]))
                if st == 107:
                    continue        # Out of memory: program unchanged (size is checked below)
                blank = body.strip(b' \t\n') == b''
                if blank and o[1] not in ref:
                    if st != 108:
                        return None, 0, 'deleting missing line %d: expected Undefined line number, got %d' % (o[1], st)
                    continue
                if st != 0:
                    return None, 0, 'storing line %d reported error %d' % (o[1], st - 100)
                store(o[1], body, st, 'S')
            elif o[0] == 'D':
                lo = o[1] if o[1] is not None else 0
                hi = o[2] if o[2] is not None else 65535
                sel = [k for k in ref if lo <= k <= hi]
                if not sel:
                    if st != 105:
                        return None, 0, 'DELETE of an empty range: expected Illegal function call, got %d' % st
                else:
                    if st != 0:
                        return None, 0, 'DELETE %s-%s reported error %d' % (o[1], o[2], st - 100)
                    for k in sel:
                        del ref[k]
            elif o[0] == 'N':
                ref, ntail = {}, 0
            elif o[0] == 'X':
                from harness import C14 as c14
                m = c14.C14.expected_map(sorted(ref), list(o[1:4]))
                if m is None:
                    if st != 105:
                        return None, 0, 'RENUM %s must be rejected with Illegal function call, got %d' % (o[1:4], st)
                    continue
                if st != 0:
                    return None, 0, 'RENUM %s must be accepted, got error %d' % (o[1:4], st - 100)
                new = {}
                for k, body in ref.items():
                    b2 = bytearray(body)
                    for off, jn, ex in c14.parse_refs(body):
                        if not ex and jn in m:
                            b2[off:off + 2] = struct.pack('<H', m[jn])
                    new[m.get(k, k)] = bytes(b2)
                ref = new
            elif o[0] == 'L':
                if st != 0:
                    return None, 0, 'SAVE/LOAD reported error %d' % (st - 100)
                ntail += 1
            elif o[0] in ('M', 'A'):
                if o[0] == 'A':
                    ref, ntail = {}, 0          # LOAD erases first, whatever happens afterwards
                if st == 107:
                    return None, ntail, None          # Out of memory somewhere in the file: not determined
                stopped = False
                for (n, _t), lb in zip(o[1], buf):
                    if store(n, bytes(bytearray(lb[5:])), None, 'M') == 'stop108':
                        stopped = True
                        break
                if st != (108 if stopped else 0):
                    return None, 0, 'MERGE/LOAD of an ASCII file: expected status %d, got %d' % (108 if stopped else 0, st)
        return ref, ntail, None

    def oracle(self, case, out):
        r = self._run(case)
        if r['host']:
            return 'host exception escaped: %s' % r['host']
        if 'broken_at' in r:
            return ('after command %d (%s) the line index differs from a rescan of the code'
                    % (r['broken_at'], case['ops'][r['broken_at']][0]))
        ref, ntail, why = self.reference(case, r)
        if why:
            return why
        if r['fre'] < 0:
            return 'program of %d bytes exceeds program memory by %d bytes without Out of memory' % (
                len(r['code']), -r['fre'])
        if ref is None:
            return None
        cs = r['cs']
        # expected memory image: 00 | link | num | body ... 00 00 00
        img = b''
        pos = {}
        for k in sorted(ref):
            pos[k] = len(img)
            nxt = len(img) + 5 + len(ref[k])
            img += b'\0' + struct.pack('<H', cs + 1 + nxt) + struct.pack('<H', k) + ref[k]
        pos[65536] = len(img)
        img += b'\0\0\0' + b'\x1a' * ntail
        if r['code'] != img:
            return 'program memory differs from the layout of the reference lines'
        if r['lines'] != pos:
            return 'line index differs from the positions of the reference lines'
        if r['list'] != sorted(k for k in ref):
            return 'LIST does not show the reference lines in ascending order'
        for k in ref:       # GOTO k lands on line k
            p = r['lines'].get(k)
            if p is None or r['code'][p + 3:p + 5] != struct.pack('<H', k):
                return 'GOTO %d does not land on line %d' % (k, k)
        # PEEK walk of the link chain
        peek = r['peek']
        p, seen = 0, []
        for _ in range(len(ref) + 2):
            link = peek[p + 1] + 256 * peek[p + 2]
            if link == 0:
                break
            seen.append(peek[p + 3] + 256 * peek[p + 4])
            p = link - (cs + 1)
            if not (0 <= p and p + 3 <= len(peek)):
                return 'link chain leaves the program'
        else:
            return 'link chain does not end'
        if seen != sorted(ref) or p != pos[65536]:
            return 'link chain does not visit the lines in order up to the terminator'
        if r['rescan'] != (r['code'], r['lines']):
            return 'incremental index differs from a fresh rescan (rebuild_line_dict) of the same memory'
        if r['fre'] < 0:
            return 'program of %d bytes exceeds program memory by %d bytes without Out of memory' % (
                len(r['code']), -r['fre'])
        return None

    def nontrivial(self, case, out):
        r = self._run(case)
        return sum(1 for st in r['status'] if st == 0) >= 3


CHECK = C13
