"""C11 - Variable storage is faithfully exposed and never aliased."""
import itertools
import struct

from vlib import core
from harness import common
from harness import arrays_util as au

FIRST = 'QXZJKVW'
REST = 'QXZJKVW0123456789.'
DATA_SEG = None


def trunc(name):
    """read_name: only the first 40 characters count, the sigil is kept"""
    if name[-1] in au.SIGILS:
        return name[:-1][:40] + name[-1]
    return name[:40]


def canon(name):
    return au.complete(trunc(name.upper()))


class RefVars(object):
    """Independent reference: scalars in a dict, arrays in RefArrays; values are byte lists, for strings
    the python text (descriptor bytes are checked by length and by PEEKing the characters)."""

    def __init__(self):
        self.scalars = {}       # canonical name -> value (bytes list | str)
        self.arr = au.RefArrays()

    @staticmethod
    def zero(name):
        return '' if name[-1] == '$' else [0] * au.SIZE[name[-1]]

    def get(self, name, idx):
        if not idx:
            return self.scalars[name]
        return self.arr.vals.get((name, tuple(idx)), self.zero(name))

    def put(self, name, idx, v):
        if not idx:
            self.scalars[name] = v
        else:
            self.arr.vals[(name, tuple(idx))] = v

    def place(self, name, idx, free, empty_err):
        """_view_buffer: create what is missing; error number or 0"""
        if not idx:
            if name not in self.scalars:
                self.scalars[name] = self.zero(name)
                if empty_err:
                    return 5
            return 0
        return self.arr.access(name, idx, free)

    def cells(self):
        """all existing (name, idx) cells"""
        out = [(n, ()) for n in self.scalars]
        b = self.arr.base or 0
        for n, dims in self.arr.shapes.items():
            for tup in itertools.product(*[range(b, d + 1) for d in dims]):
                out.append((n, tup))
        return out


class C11(core.Check):
    ID = 'C11'
    GEN = ['gen_arrays']
    PROPS = 'props/C11.v'
    MODEL_IMPORTS = ['gen.Gen_arrays', 'model.Arrays', 'model.VarMem']
    QUICK_CASES = 150
    THOROUGH_CASES = 2500
    TRUSTED = ['hand model model/VarMem.v + model/Arrays.v of Scalars.set/get_memory, Arrays.get_memory (as fixed by '
               'fixes/D6.patch), DataSegment.let_/swap_/varptr_/varptr_str_/_get_var_memory tied by correspondence '
               'through a real Session; record/size/index arithmetic and get_name_in_memory regenerated from the '
               'AST; string values are opaque 3-byte descriptors supplied by the environment (string space, '
               'collection: C10); strings.current is an input of every operation; var_start is constant in a '
               'history (no program edits); PEEK outside [var_start, strings.current] is other properties']
    RULE = ('random direct-mode histories in a real Session(peek_values={}): scalars of all four types with names '
            'of 1..40 (and 45, truncated) characters, arrays of 1-3 dimensions, LET, SWAP, ERASE, DIM, OPTION '
            'BASE, CLEAR, string reassignment, FRE("") compaction; after every step the whole variable area is '
            'PEEKed and compared with the model, VARPTR / VARPTR$ / PEEK(VARPTR+i) go through the BASIC '
            'functions. Oracle: dict reference; every cell must read back its value at VARPTR, ranges disjoint '
            'and inside the variable area. non-trivial = a second array or >= 3 variables were checked')
    PARTIAL = ('the characters of string variables (PEEK at the descriptor address, before and after a collection) '
               'are checked by the oracle on the implementation only - the theorems treat descriptors as opaque bytes '
               '(string space is proved in C10); the deep copy of LET between string variables (seed C11f) is tested by the '
               'oracle, not a theorem of this model')
    histogram = None

    def __init__(self, tier, seed):
        core.Check.__init__(self, tier, seed)
        self.sess = au.Sess()
        self._traces = {}

    # ------------------------------------------------------------------ cases
    def corpus(self):
        c = []
        # D6 witness: PEEK into the second array
        c.append({'ops': [['dim', [['A%', [3]]]], ['dim', [['B%', [3]]]], ['lete', 'B%', [0], 0x4321],
                          ['peekv', 'B%', [0], 0], ['peekv', 'B%', [0], 1], ['dump']]})
        # scalar created after arrays shifts the array area; ERASE of the first array shifts the second
        c.append({'ops': [['dim', [['Q%', [2]], ['X#', [1, 1]]]], ['lete', 'X#', [1, 0], [1, 2, 3, 4, 5, 6, 7, 129]],
                          ['lets', 'Z!', [9, 8, 7, 130]], ['varptr', 'X#', [1, 0]], ['dump'],
                          ['erase', ['Q%']], ['varptr', 'X#', [1, 0]], ['peekv', 'X#', [1, 0], 7], ['dump']]})
        # names of 1, 2, 3, 4, 40 and 45 characters; VARPTR$; undefined scalar
        long40 = 'Q' + 'X123456789' * 3 + 'ZJKVW.0.1'
        c.append({'ops': [['lets', 'Q%', -2], ['lets', 'QX', [1, 2, 3, 4]], ['lets', 'QXZ#', [8, 7, 6, 5, 4, 3, 2, 1]],
                          ['lets', 'QXZJ$', 'abc'], ['lets', long40 + '%', 258], ['lets', long40 + 'TAIL!', [5, 5, 5, 5]],
                          ['varptrs', 'QXZJ$', []], ['varptrs', long40 + '%', []], ['varptr', 'NOPE', []],
                          ['peekv', 'QXZJ$', [], 0], ['dump']]})
        # SWAP creates a missing left scalar, a missing right scalar is created and then IFC; type mismatch
        c.append({'ops': [['lets', 'Q%', 7], ['swap', 'X%', [], 'Q%', []], ['swap', 'Q%', [], 'Z%', []],
                          ['swap', 'Q%', [], 'Q!', []], ['lete', 'K%', [3], 9], ['swap', 'K%', [3], 'X%', []],
                          ['swap', 'K%', [3], 'K%', [3]], ['swap', 'K%', [4], 'K%', [11]], ['dump']]})
        # string reallocation and compaction
        c.append({'ops': [['lets', 'Q$', 'one'], ['lete', 'X$', [2], 'two'], ['lets', 'Q$', 'three'],
                          ['lets', 'Z$', 'four'], ['lets', 'Q$', 'x'], ['fre'], ['dump'], ['clear'], ['dump']]})
        # string variables typed by DEFSTR (written without a sigil): S = T must give S a copy of its own, so that
        # MID$(S,..)= leaves T alone and the two descriptors hold different addresses (seed C11f)
        c.append({'defstr': True,
                  'ops': [['lets', 'Q$', 'hello'], ['copy', 'X$', [], 'Q$', []], ['dump'], ['midset', 'X$', [], 1, 'ZZ'],
                          ['dump'], ['peekv', 'Q$', [], 1], ['peekv', 'X$', [], 1], ['copy', 'ZK$', [2], 'Q$', []],
                          ['midset', 'Q$', [], 2, 'Q'], ['dump'], ['lets', 'W%', 5], ['lets', 'V', [1, 2, 3, 129]],
                          ['dump']]})
        # SWAP whose second operand is an element of a not yet dimensioned string array, with too little memory
        # for the implicit DIM: the collector runs inside SWAP and moves the first operand's text (seed C11e)
        c.append({'ops': [['clearmem', 5368], ['lets', 'Z$', 'xba'], ['lets', 'X$', 'bcyczb'], ['lets', 'K%', -39], ['lets', 'W%', -4],
                          ['lets', 'Q$', 'xzyzcxb'], ['lete', 'VW%', [2], -1], ['swap', 'J$', [], 'QX$', [10]], ['lets', 'X$', 'abyyc'], ['dump']]})
        c.append({'ops': [['clearmem', 4720 + 514 + 115], ['lets', 'Q$', 'gggggggg'], ['lets', 'X$', 'AAAAA'],
                          ['lets', 'Z$', 'xxxxxxxx'], ['lets', 'KV$', 'CCCCC'], ['lets', 'Q$', ''], ['lets', 'Z$', ''],
                          ['dump'], ['swap', 'X$', [], 'QX$', [3]], ['dump'], ['peekv', 'QX$', [3], 0],
                          ['peekv', 'KV$', [], 0], ['swap', 'QX$', [3], 'KV$', []], ['dump']]})
        # a computed empty string next to the lowest live string must stay empty through a collection (seed C11b)
        c.append({'ops': [['lets', 'Q$', 'abcdef'], ['lets', 'X$', ''], ['lete', 'Z$', [2], ''], ['fre'], ['dump'],
                          ['peekv', 'X$', [], 0], ['peekv', 'Z$', [2], 0], ['peekv', 'Q$', [], 0]]})
        return c

    def rand_name(self, rng):
        r = rng.random()
        if r < 0.5:
            ln = rng.choice([1, 1, 2, 2, 3, 3, 4, 5])
        elif r < 0.85:
            ln = rng.randint(1, 40)
        else:
            ln = rng.choice([38, 39, 40, 40, 41, 45])
        nm = rng.choice(FIRST) + ''.join(rng.choice(REST) for _ in range(ln - 1))
        sig = rng.choice(['%', '!', '#', '$', '%', '$', ''])
        if rng.random() < 0.1:
            nm = nm.lower()
        return nm + sig

    def gen_cases(self, n):
        rng = self.rng
        out = []
        hist = {'ops': 0}
        for k in range(n):
            ops = self.pressure_ops(rng) if k % 7 == 3 else self.hist_ops(rng)
            defstr = k % 7 != 3 and rng.random() < 0.4
            for o in ops:
                hist[o[0]] = hist.get(o[0], 0) + 1
            hist['ops'] += len(ops)
            out.append({'ops': ops, 'defstr': True} if defstr else {'ops': ops})
        self.histogram = hist
        return out

    def pressure_ops(self, rng):
        """A history in a few hundred bytes of memory (CLEAR ,n): implicit DIMs and new variables then run
        the string collector INSIDE statements (SWAP, LET, VARPTR) or end in Out of memory."""
        ops = [['clearmem', 4720 + 514 + rng.randint(95, 190)]]
        strs = rng.sample(['Q$', 'X$', 'Z$', 'KV$', 'J$'], rng.randint(3, 4))
        nums = rng.sample(['W%', 'K%'], rng.randint(0, 2))
        sarr = rng.sample(['QX$', 'ZJ$'], rng.randint(1, 2))
        narr = ['VW%']

        def text():
            return ''.join(rng.choice('abcxyz') for _ in range(rng.randint(3, 7)))
        # all scalars exist before memory gets tight
        for nm in strs:
            ops.append(['lets', nm, text()])
        for nm in nums:
            ops.append(['lets', nm, rng.randint(-99, 99)])
        # garbage above the live strings
        for _ in range(rng.randint(1, 4)):
            ops.append(['lets', rng.choice(strs), text() if rng.random() < 0.7 else ''])
        ops.append(['dump'])
        for _ in range(rng.randint(3, 7)):
            r = rng.random()
            if r < 0.4:
                a, b = (rng.choice(strs), []), (rng.choice(sarr), [rng.choice([0, 1, 3, 10, 10, 11])])
                if rng.random() < 0.3:
                    a, b = b, a
                ops.append(['swap', a[0], a[1], b[0], b[1]])
            elif r < 0.5 and nums:
                ops.append(['swap', rng.choice(nums), [], narr[0], [rng.randint(0, 10)]])
            elif r < 0.6:
                ops.append(['lete', narr[0], [rng.randint(0, 11)], rng.randint(-9, 9)])
            elif r < 0.7:
                ops.append(['varptr', rng.choice(sarr + narr), [rng.randint(0, 10)]])
            elif r < 0.8:
                ops.append(['peekv', rng.choice(strs), [], rng.randrange(3)])
            elif r < 0.88:
                ops.append(['erase', [rng.choice(sarr + narr)]])
            elif r < 0.94:
                ops.append(['lets', rng.choice(strs), text()])
            else:
                ops.append(['fre'])
            ops.append(['dump'])
        return ops

    def hist_ops(self, rng):
        scal = [self.rand_name(rng) for _ in range(rng.randint(2, 5))]
        arrs = [self.rand_name(rng) for _ in range(rng.randint(1, 3))]
        ranks = {a: rng.choice([1, 1, 2, 2, 3]) for a in arrs}
        counter = [0]
        ops = []
        # arrays believed to be dimensioned (small); others are only touched when rank 1, or rarely, so that
        # the 11^rank elements of an auto-dimensioned array do not dominate the dumps
        small = set()

        def val(nm):
            counter[0] += 1
            t = canon(nm)[-1]
            if t == '$':
                return ''.join(rng.choice('abcxyz01') for _ in range(rng.choice([0, 1, 2, 3, 5, 9])))
            return au.rand_value(rng, canon(nm), counter[0] + rng.randrange(1000))

        def bounds(a):
            top = 4 if ranks[a] == 1 else 3 if ranks[a] == 2 else 2
            return [rng.randint(0, top) for _j in range(ranks[a])]

        def dim(names):
            ops.append(['dim', [[a, bounds(a)] for a in names]])
            for a in names:
                small.add(canon(a))

        def index(a):
            rk = ranks[a]
            if rng.random() < 0.05:
                rk = max(1, rk + rng.choice([-1, 1]))
            return [rng.choice([0, 1, 1, 2, 2, 3, 4, 10, 11, -1]) if rng.random() < 0.3 else rng.randint(0, 2)
                    for _ in range(rk)]

        def arr():
            ok = [a for a in arrs if canon(a) in small or ranks[a] == 1 or rng.random() < 0.03]
            if not ok:
                dim([rng.choice(arrs)])
                ok = [a for a in arrs if canon(a) in small]
            return rng.choice(ok)

        def cell():
            if rng.random() < 0.5:
                return rng.choice(scal), []
            a = arr()
            return a, index(a)
        if rng.random() < 0.25:
            ops.append(['base', rng.choice([0, 1])])
        for _ in range(rng.randint(5, 14)):
            r = rng.random()
            if r < 0.22:
                nm = rng.choice(scal)
                ops.append(['lets', nm, val(nm)])
            elif r < 0.42:
                a = arr()
                ops.append(['lete', a, index(a), val(a)])
            elif r < 0.52:
                dim([rng.choice(arrs) for _k in range(rng.choice([1, 1, 2]))])
            elif r < 0.6:
                names = [rng.choice(arrs) for _k in range(rng.choice([1, 1, 2]))]
                ops.append(['erase', names])
                for a in names:
                    small.discard(canon(a))
            elif r < 0.63:
                ops.append(['base', rng.choice([0, 1])])
            elif r < 0.645:
                ops.append(['clear'])
                small.clear()
            elif r < 0.75:
                (n1, i1), (n2, i2) = cell(), cell()
                if rng.random() < 0.7:
                    # same type most of the time
                    t = canon(n1)[-1]
                    pool = [(x, []) for x in scal if canon(x)[-1] == t]
                    pool += [(x, None) for x in arrs if canon(x)[-1] == t and (canon(x) in small or ranks[x] == 1)]
                    if pool:
                        n2, i2 = rng.choice(pool)
                        if i2 is None:
                            i2 = index(n2)
                ops.append(['swap', n1, i1, n2, i2])
            elif r < 0.82:
                nm, idx = cell()
                ops.append(['varptr', nm, idx])
            elif r < 0.87:
                nm, idx = cell()
                ops.append(['varptrs', nm, idx])
            elif r < 0.93:
                nm, idx = cell()
                ops.append(['peekv', nm, idx, rng.randrange(au.SIZE[canon(nm)[-1]])])
            elif r < 0.965:
                # T$ = text : S$ = T$ (bare variable on the right) : MID$(..)= modifies one of them in place
                sv = [x for x in scal if canon(x)[-1] == '$']
                sa = [x for x in arrs if canon(x)[-1] == '$' and ranks[x] == 1]
                if sv:
                    t = rng.choice(sv)
                    ops.append(['lets', t, ''.join(rng.choice('abcxyz') for _ in range(rng.randint(3, 7)))])
                    others = [(x, []) for x in sv if canon(x) != canon(t)] + [(x, [rng.randint(1, 2)]) for x in sa]
                    if others:
                        d, di = rng.choice(others)
                        ops.append(['copy', d, di, t, []])
                        ops.append(['dump'])
                        if rng.random() < 0.7:
                            v, vi = rng.choice([(d, di), (t, [])])
                            ops.append(['midset', v, vi, rng.randint(1, 2), rng.choice(['Z', 'ZZ', 'QQQ'])])
            else:
                ops.append(['fre'])
            if ops and ops[-1][0] in ('lets', 'lete', 'dim', 'erase', 'swap', 'clear', 'fre', 'copy', 'midset'):
                ops.append(['dump'])
        if not ops or ops[-1][0] != 'dump':
            ops.append(['dump'])
        return ops

    # ------------------------------------------------------------------ implementation
    def trace(self, case):
        key = core.sha(case)
        if key not in self._traces:
            self._traces[key] = self._trace(case)
        return self._traces[key]

    @staticmethod
    def ref0(nm, idx):
        return nm + (au.subs(idx) if idx else '')

    DEFSTR = 'DEFSTR Q,X,Z,J,K,V,W'

    def ref(self, nm, idx):
        return self.w(nm) + (au.subs(idx) if idx else '')

    def w(self, nm):
        """the name as written in the statement: in a DEFSTR case string variables carry NO sigil (their type
        comes from DEFSTR) and every other variable an explicit one"""
        if not self._defstr:
            return nm
        c = canon(nm)
        return c[:-1] if c[-1] == '$' else c

    def _snapshot(self, s):
        """whole variable area through Memory._get_memory (what PEEK returns), plus string bytes"""
        m = s._impl.memory
        seg = m.data_segment * 16
        start, end = m.var_start(), m.var_current() + m.arrays.current
        g = s._impl.all_memory._get_memory
        return {'start': start, 'vc': m.var_current(), 'acur': m.arrays.current, 'limit': m.strings.current,
                'bytes': [g(seg + a) for a in range(start, end)]}

    def _cellinfo(self, s, refvars):
        """VARPTR (internal call, no allocation) and characters of every existing cell of the reference"""
        m = s._impl.memory
        seg = m.data_segment * 16
        g = s._impl.all_memory._get_memory
        info = {}
        for n, tup in refvars.cells():
            try:
                p = m.varptr(n.encode('ascii'), list(tup))
            except Exception as e:
                info[(n, tup)] = ('err', repr(e))
                continue
            chars = None
            if n[-1] == '$':
                d = [g(seg + p + i) for i in range(3)]
                addr = d[1] + 256 * d[2]
                chars = [g(seg + addr + i) for i in range(d[0])]
            info[(n, tup)] = (p, chars)
        return info

    def _strings(self, m):
        """descriptors of all string cells"""
        d = {}
        for n, buf in m.scalars._vars.items():
            if n.endswith(b'$'):
                d[(n, None)] = list(bytearray(buf))
        for n, buf in m.arrays._buffers.items():
            if n.endswith(b'$'):
                for i in range(0, len(buf), 3):
                    d[(n, i // 3)] = list(bytearray(buf[i:i + 3]))
        return d

    def _trace(self, case):
        s = self.sess.fresh()
        m = s._impl.memory
        ref = RefVars()
        tr = []
        last_str = [None]
        self._defstr = bool(case.get('defstr'))
        if self._defstr:
            self.sess.run(self.DEFSTR)

        def vexpr(nm, idx, val):
            e = au.value_expr(canon(nm), val, self.w(last_str[0]) if last_str[0] else None, computed=True)
            if canon(nm)[-1] == '$' and val != '' and not idx:
                last_str[0] = nm
            elif canon(nm)[-1] == '$' and val != '':
                last_str[0] = None      # the lowest string now belongs to an element: fall back
            return e
        pressure = False
        try:
          with core.time_limit(120):
            for op in case['ops']:
                limit = m.strings.current
                rec_vc = m.var_current()
                rec = {'limit': limit, 'err': 0}
                before_all = self._strings(m)
                kind = op[0]
                targets = set()
                stringy = False
                # ---- phase 1: the implementation
                if kind == 'lets':
                    nm, val = op[1], op[2]
                    targets.add(canon(nm))
                    stringy = canon(nm)[-1] == '$'
                    rec['err'], _ = self.sess.run('%s=%s' % (self.w(nm), vexpr(nm, [], val)))
                    if not rec['err']:
                        rec['b'] = list(bytearray(m.scalars.view_buffer(canon(nm).encode('ascii'))))
                elif kind == 'lete':
                    nm, idx, val = op[1], op[2], op[3]
                    targets.add(canon(nm))
                    stringy = canon(nm)[-1] == '$'
                    rec['err'], _ = self.sess.run('%s%s=%s' % (self.w(nm), au.subs(idx), vexpr(nm, idx, val)))
                    if not rec['err']:
                        rec['b'] = list(bytearray(m.arrays.view_buffer(canon(nm).encode('ascii'), list(idx))))
                elif kind == 'dim':
                    rec['err'], _ = self.sess.run('DIM ' + ','.join(self.w(nm) + au.subs(d) for nm, d in op[1]))
                elif kind == 'erase':
                    rec['err'], _ = self.sess.run('ERASE ' + ','.join(self.w(nm) for nm in op[1]))
                elif kind == 'base':
                    rec['err'], _ = self.sess.run('OPTION BASE %d' % op[1])
                elif kind == 'clear':
                    rec['err'], _ = self.sess.run('CLEAR')
                    last_str[0] = None
                    if self._defstr:
                        self.sess.run(self.DEFSTR)
                elif kind == 'copy':
                    # string assignment from a bare variable: the target must get a copy of its own
                    n1, i1, n2, i2 = op[1], op[2], op[3], op[4]
                    targets.add(canon(n1))
                    stringy = True
                    rec['err'], _ = self.sess.run('%s=%s' % (self.ref(n1, i1), self.ref(n2, i2)))
                elif kind == 'midset':
                    # MID$(v, pos) = text : modification in place
                    targets.add(canon(op[1]))
                    stringy = True
                    rec['err'], _ = self.sess.run('MID$(%s,%d)="%s"' % (self.ref(op[1], op[2]), op[3], op[4]))
                elif kind == 'clearmem':
                    # CLEAR ,n : sets the memory size - the cheap way to work under memory pressure
                    pressure = True
                    rec['err'], _ = self.sess.run('CLEAR ,%d' % op[1])
                    last_str[0] = None
                elif kind == 'swap':
                    n1, i1, n2, i2 = op[1], op[2], op[3], op[4]
                    targets.update([canon(n1), canon(n2)])
                    rec['err'], _ = self.sess.run('SWAP %s,%s' % (self.ref(n1, i1), self.ref(n2, i2)))
                elif kind in ('varptr', 'varptrs', 'peekv'):
                    nm, idx = op[1], op[2]
                    c = canon(nm)
                    if kind == 'varptrs':
                        rec['err'], v = self.sess.value('VARPTR$(%s)' % self.ref(nm, idx))
                        if not rec['err']:
                            rec['v'] = list(bytearray(v))
                    else:
                        rec['err'], v = self.sess.value('VARPTR(%s)' % self.ref(nm, idx))
                        if not rec['err']:
                            rec['v'] = v & 0xffff
                            if kind == 'peekv':
                                rec['perr'], rec['pv'] = self.sess.value(
                                    'PEEK(VARPTR(%s)+%d)' % (self.ref(nm, idx), op[3]))
                    if not rec['err']:
                        rec['true_ptr'] = m.varptr(c.encode('ascii'), list(idx))
                elif kind == 'fre':
                    rec['err'], _ = self.sess.run('LOCATE 1,1:PRINT FRE("")')
                elif kind == 'dump':
                    pass
                else:
                    raise ValueError(kind)
                if kind in ('copy', 'midset') and not rec['err']:
                    cn = canon(op[1]).encode('ascii')
                    rec['b'] = list(bytearray(m.arrays.view_buffer(cn, list(op[2])) if op[2]
                                              else m.scalars.view_buffer(cn)))
                # ---- phase 2: did a string collection run inside the statement?  (a descriptor of a string
                # cell the statement does not assign changed, FRE, or check_free before Out of memory)
                after = self._strings(m)
                moved = any(k in after and after[k] != v and k[0].decode('ascii') not in targets
                            for k, v in before_all.items())
                gc = moved or kind == 'fre' or rec['err'] == 7 or (not stringy and m.strings.current > limit)
                if gc and not stringy:
                    # `limit` of the model = strings.current after the collection (the statement allocates no string)
                    limit = m.strings.current
                    rec['limit'] = limit
                free = limit - (m.var_current() if kind not in ('lets', 'lete', 'swap', 'clear', 'clearmem') else
                                rec_vc)
                if gc:
                    rec['resync'] = []
                    for (n, i), v in after.items():
                        if before_all.get((n, i)) == v:
                            continue
                        tup = None
                        if i is not None:
                            # subscript tuple of flat element i
                            b, k, tup = m.arrays._base, i, []
                            for d in m.arrays._dims[n]:
                                tup.append(k % (d + 1 - b) + b)
                                k //= d + 1 - b
                        rec['resync'].append((n.decode('ascii'), tup, v))
                    rec['limit2'] = m.strings.current
                # ---- phase 3: the reference
                if kind == 'lets':
                    rec['exp'] = 0
                    if rec['err'] not in (7, 14):
                        # a statement refused for lack of memory assigns nothing
                        ref.put(canon(op[1]), [], op[2])
                elif kind == 'lete':
                    rec['exp'] = ref.arr.access(canon(op[1]), op[2], free)
                    if not rec['exp'] and rec['err'] not in (7, 14):
                        ref.put(canon(op[1]), op[2], op[3])
                elif kind == 'dim':
                    rec['exp'] = 0
                    for nm, d in op[1]:
                        rec['exp'] = ref.arr.dim(canon(nm), d, free)
                        if rec['exp']:
                            break
                elif kind == 'erase':
                    rec['exp'] = ref.arr.erase([canon(nm) for nm in op[1]])
                elif kind == 'base':
                    rec['exp'] = ref.arr.option_base(op[1])
                elif kind in ('clear', 'clearmem'):
                    rec['exp'] = 0
                    ref = RefVars()
                elif kind == 'swap':
                    n1, i1, n2, i2 = op[1], op[2], op[3], op[4]
                    c1, c2 = canon(n1), canon(n2)
                    if c1[-1] != c2[-1]:
                        rec['exp'] = 13
                    else:
                        rec['exp'] = ref.place(c1, i1, free, False)
                        if not rec['exp']:
                            rec['exp'] = ref.place(c2, i2, limit - m.var_current(), True)
                        if not rec['exp']:
                            a, b = ref.get(c1, i1), ref.get(c2, i2)
                            ref.put(c1, i1, b)
                            ref.put(c2, i2, a)
                elif kind == 'copy':
                    c1, c2 = canon(op[1]), canon(op[3])
                    rec['exp'] = ref.place(c1, op[2], free, False)
                    if not rec['exp'] and op[4]:
                        rec['exp'] = ref.arr.access(c2, op[4], free)
                    if not rec['exp']:
                        ref.put(c1, op[2], ref.get(c2, op[4]) if (op[4] or c2 in ref.scalars) else '')
                elif kind == 'midset':
                    c = canon(op[1])
                    rec['exp'] = ref.place(c, op[2], free, False)
                    if not rec['exp']:
                        old = ref.get(c, op[2])
                        if not 1 <= op[3] <= len(old):
                            rec['exp'] = 5
                        else:
                            k = op[3] - 1
                            t = op[4][:len(old) - k]
                            ref.put(c, op[2], old[:k] + t + old[k + len(t):])
                elif kind in ('varptr', 'varptrs', 'peekv'):
                    c = canon(op[1])
                    rec['exp'] = (0 if c in ref.scalars else 5) if not op[2] else ref.arr.access(c, op[2], free)
                else:
                    rec['exp'] = 0
                # a string assignment refused with Out of string space before it touched variable memory is a no-op for the
                # variable model (the string allocator is C10's): neither output nor model step
                rec['skip'] = (rec['err'] == 14 and kind in ('lets', 'lete', 'copy', 'midset') and m.var_current() == rec_vc)
                rec['snap'] = self._snapshot(s)
                rec['cells'] = self._cellinfo(s, ref)
                rec['ref'] = {k: ref.get(k[0], list(k[1])) for k in ref.cells()}
                tr.append(rec)
        finally:
            if pressure:
                self.sess.drop()        # NEW does not restore the memory size
        return tr

    def impl(self, case):
        tr = self.trace(case)
        out = []
        for op, rec in zip(case['ops'], tr):
            kind = op[0]
            chunks = []
            if rec.get('skip'):
                pass
            elif rec['err']:
                chunks.append([1, rec['err']])
            elif kind == 'varptr':
                chunks.append([0, rec['v']])
            elif kind == 'varptrs':
                chunks.append([0] + rec['v'])
            elif kind == 'peekv':
                chunks.append([0, rec['v']])
                chunks.append([1, rec['perr']] if rec['perr'] else [0, rec['pv']])
            elif kind == 'dump':
                sn = rec['snap']
                chunks.append([sn['vc'], sn['acur']] + sn['bytes'])
            elif kind == 'fre':
                pass
            else:
                chunks.append([0])
            chunks += [[0] for _ in rec.get('resync', [])]
            for ch in chunks:
                out += [len(ch)] + ch
        return out

    # ------------------------------------------------------------------ model
    def model_term(self, case):
        tr = self.trace(case)
        terms = []
        z = lambda x: core.zl([x])[1:-1]
        start = tr[0]['snap']['start'] if tr else 0
        for op, rec in zip(case['ops'], tr):
            kind = op[0]
            lim = z(rec['limit'])
            if rec.get('skip'):
                kind = 'skipped'
            if kind == 'lets':
                c = canon(op[1])
                v = au.value_bytes(c, op[2])
                if v is None:
                    v = rec.get('b') or [0, 0, 0]
                terms.append('VLetS %s %s %s' % (lim, au.cname(c), au.czl(v)))
            elif kind == 'lete':
                c = canon(op[1])
                v = au.value_bytes(c, op[3])
                if v is None:
                    v = rec.get('b') or [0, 0, 0]
                terms.append('VLetE %s %s %s %s' % (lim, au.cname(c), au.czl(op[2]), au.czl(v)))
            elif kind in ('copy', 'midset'):
                # the model sees the assignment of the descriptor the statement produced (opaque value)
                c = canon(op[1])
                v = rec.get('b') or [0, 0, 0]
                if op[2]:
                    terms.append('VLetE %s %s %s %s' % (lim, au.cname(c), au.czl(op[2]), au.czl(v)))
                else:
                    terms.append('VLetS %s %s %s' % (lim, au.cname(c), au.czl(v)))
            elif kind == 'dim':
                terms.append('VDim %s [%s]' % (lim, ';'.join(
                    '(%s,%s)' % (au.cname(canon(nm)), au.czl(d)) for nm, d in op[1])))
            elif kind == 'erase':
                terms.append('VErase [%s]' % ';'.join(au.cname(canon(nm)) for nm in op[1]))
            elif kind == 'base':
                terms.append('VBase %d' % op[1])
            elif kind in ('clear', 'clearmem'):
                terms.append('VClear')
            elif kind == 'swap':
                terms.append('VSwap %s %s %s %s %s' % (lim, au.cname(canon(op[1])), au.czl(op[2]),
                                                       au.cname(canon(op[3])), au.czl(op[4])))
            elif kind == 'varptr':
                terms.append('VVarptr %s %s %s' % (lim, au.cname(canon(op[1])), au.czl(op[2])))
            elif kind == 'varptrs':
                terms.append('VVarptrS %s %s %s' % (lim, au.cname(canon(op[1])), au.czl(op[2])))
            elif kind == 'peekv':
                terms.append('VVarptr %s %s %s' % (lim, au.cname(canon(op[1])), au.czl(op[2])))
                if not rec['err']:
                    # the address the BASIC expression VARPTR(..)+i denotes
                    terms.append('VPeek %s %s' % (lim, z(rec['v'] + op[3])))
            elif kind == 'dump':
                terms.append('VDump %s' % lim)
            if 'resync' in rec:
                # compaction rewrote these descriptors (environment action, C10): re-enter them
                for nm, tup, v in rec['resync']:
                    if tup is None:
                        terms.append('VLetS %s %s %s' % (z(rec['limit2']), au.cname(nm), au.czl(v)))
                    else:
                        terms.append('VLetE %s %s %s %s' % (z(rec['limit2']), au.cname(nm), au.czl(tup), au.czl(v)))
        return '(vrun (v_init %d) [%s])' % (start, ';\n'.join(terms))

    # ------------------------------------------------------------------ oracle
    @staticmethod
    def expected_bytes(name, val):
        t = name[-1]
        if t == '%' and isinstance(val, int):
            return list(struct.pack('<h', val))
        if t == '$':
            return None
        return list(val)

    def oracle(self, case, out):
        tr = self.trace(case)
        for step, (op, rec) in enumerate(zip(case['ops'], tr)):
            # resource exhaustion is not a verdict of C11: Out of memory (7) always, Out of string space (14) in the histories
            # that run with a few dozen bytes of memory (`clearmem`); whether memory really was exhausted is C10's accounting
            tight = any(o[0] == 'clearmem' for o in case['ops'])
            if rec.get('exp') is not None and rec['err'] != rec['exp'] and not (rec['err'] == 7 or rec['exp'] == 7) \
                    and not (tight and rec['err'] == 14):
                return 'step %d %r: error %d, the variable rules give %d' % (step, op, rec['err'], rec['exp'])
            sn = rec['snap']
            lo, hi = sn['start'], sn['vc'] + sn['acur']
            ranges = []
            for (n, tup), val in rec['ref'].items():
                info = rec['cells'].get((n, tup))
                if info is None or info[0] == 'err':
                    return 'step %d %r: VARPTR of existing %s%r fails: %r' % (step, op, n, tup, info)
                p, chars = info
                size = au.SIZE[n[-1]]
                if not (lo <= p and p + size <= hi):
                    return 'step %d %r: %s%r at %d..%d is outside the variable area %d..%d' % (
                        step, op, n, tup, p, p + size, lo, hi)
                got = sn['bytes'][p - lo:p + size - lo]
                ranges.append((p, p + size, n, tup))
                if n[-1] == '$':
                    if got[0] != len(val) or bytes(chars).decode('latin1') != val:
                        return 'step %d %r: PEEK at VARPTR(%s%r) describes %r, the variable holds %r' % (
                            step, op, n, tup, (got, bytes(chars)), val)
                else:
                    want = self.expected_bytes(n, val)
                    if got != want:
                        return 'step %d %r: PEEK at VARPTR(%s%r)=%d gives %r, the value bytes are %r' % (
                            step, op, n, tup, p, got, want)
            # distinct string cells must not share their characters (no aliasing in the string space)
            spans = []
            for (n, tup), val in rec['ref'].items():
                if n[-1] == '$':
                    p, _ch = rec['cells'][(n, tup)]
                    d = sn['bytes'][p - lo:p + 3 - lo]
                    if d[0] > 0:
                        spans.append((d[1] + 256 * d[2], d[1] + 256 * d[2] + d[0], n, tup))
            spans.sort()
            for a, b in zip(spans, spans[1:]):
                if a[1] > b[0]:
                    return 'step %d %r: string cells %s%r and %s%r share their characters at %d..%d / %d..%d' % (
                        step, op, a[2], a[3], b[2], b[3], a[0], a[1], b[0], b[1])
            ranges.sort()
            for a, b in zip(ranges, ranges[1:]):
                if a[1] > b[0]:
                    return 'step %d %r: %s%r and %s%r overlap (%d..%d, %d..%d)' % (
                        step, op, a[2], a[3], b[2], b[3], a[0], a[1], b[0], b[1])
            kind = op[0]
            if not rec['err'] and kind in ('varptr', 'varptrs', 'peekv'):
                c = canon(op[1])
                tp = rec['true_ptr']
                if kind == 'varptrs':
                    if rec['v'] != [au.SIZE[c[-1]], tp % 256, tp // 256]:
                        return 'step %d %r: VARPTR$ = %r, type size and address are %r' % (
                            step, op, rec['v'], [au.SIZE[c[-1]], tp % 256, tp // 256])
                else:
                    if rec['v'] != tp:
                        return 'step %d %r: VARPTR = %d, the variable is at %d' % (step, op, rec['v'], tp)
                    if kind == 'peekv' and not rec['perr']:
                        val = rec['ref'][(c, tuple(op[2]))]
                        want = self.expected_bytes(c, val)
                        if want is None:
                            want = [len(val)] + sn['bytes'][tp - lo + 1:tp - lo + 3]
                        if rec['pv'] != want[op[3]]:
                            return 'step %d %r: PEEK(VARPTR+%d) = %d, byte %d of the value is %d' % (
                                step, op, op[3], rec['pv'], op[3], want[op[3]])
                    if kind == 'peekv' and rec['perr']:
                        return 'step %d %r: PEEK failed with error %d' % (step, op, rec['perr'])
        return None

    def nontrivial(self, case, out):
        tr = self.trace(case)
        return any(len(rec['ref']) >= 3 for rec in tr)


CHECK = C11
