"""Shared helpers of the MBF checks (C03, C06): an independent exact reading of MBF bytes as
fractions.Fraction, encoders for building boundary cases, value construction in a real Session,
and byte-pattern generators.  Nothing here uses the Coq model or pcbasic's own arithmetic."""
from fractions import Fraction

from harness import common

SIZES = {2: 2, 4: 4, 8: 8}
BIAS = {4: 152, 8: 184}
MBITS = {4: 24, 8: 56}


# ---------------------------------------------------------------- exact decoding (oracle side)

def int_value(b):
    u = b[0] + 256 * b[1]
    return u - 65536 if u >= 32768 else u


def float_value(b):
    """Exact value of an MBF single (4 bytes) or double (8 bytes) as a Fraction."""
    n = len(b)
    e = b[-1]
    if e == 0:
        return Fraction(0)
    raw = 0
    for i, x in enumerate(b[:-1]):
        raw += x << (8 * i)
    top = 1 << (MBITS[n] - 1)
    neg = raw >= top
    man = (raw % top) + top
    v = Fraction(man) * Fraction(2) ** (e - BIAS[n])
    return -v if neg else v


def value_of(t, b):
    return Fraction(int_value(b)) if t == 2 else float_value(b)


def float_encode(x, n, e_shift=0):
    """Bytes of the MBF float of size n with value x truncated toward zero to the mantissa width
    (exact when x is representable).  None if the exponent is out of range."""
    x = Fraction(x)
    if x == 0:
        return [0] * n
    neg = x < 0
    a = abs(x)
    mb = MBITS[n]
    # 2^(k-1) <= a < 2^k
    k = a.numerator.bit_length() - a.denominator.bit_length()
    while Fraction(2) ** k <= a:
        k += 1
    while Fraction(2) ** (k - 1) > a:
        k -= 1
    e = k + 128
    if not 1 <= e <= 255:
        return None
    man = int(a / Fraction(2) ** (k - mb))       # floor: mb-bit integer with the top bit set
    raw = man - (1 << (mb - 1)) + ((1 << (mb - 1)) if neg else 0)
    return [(raw >> (8 * i)) & 255 for i in range(n - 1)] + [e]


def float_neighbours(b):
    """The adjacent encodings (next larger / smaller magnitude) of a non-zero float, when in range."""
    n = len(b)
    raw = sum(x << (8 * i) for i, x in enumerate(b[:-1]))
    top = 1 << (MBITS[n] - 1)
    sign = raw & top
    frac = raw % top
    e = b[-1]
    out = []
    for d in (1, -1):
        f, ee = frac + d, e
        if f == top:
            f, ee = 0, e + 1
        elif f < 0:
            f, ee = top - 1, e - 1
        if 1 <= ee <= 255:
            r = f | sign
            out.append([(r >> (8 * i)) & 255 for i in range(n - 1)] + [ee])
    return out


def round_half_away(x):
    x = Fraction(x)
    a = abs(x)
    r = int(a + Fraction(1, 2))      # floor(|x| + 1/2)
    return -r if x < 0 else r


def trunc(x):
    x = Fraction(x)
    r = abs(x).numerator // abs(x).denominator
    return -r if x < 0 else r


def floor(x):
    x = Fraction(x)
    return x.numerator // x.denominator


# ---------------------------------------------------------------- real values in a Session

_session = None


def session():
    """One shared started Session (values objects need its string space and error handler)."""
    global _session
    if _session is None:
        _session = common.new_session()
        _session.start()
    return _session


def values_obj():
    return session()._impl.values


def make_value(t, b):
    """Build a real pcbasic value: t in 2,4,8 (numbers from bytes) or 3 (string content)."""
    v = values_obj()
    if t == 3:
        return v.new_string().from_str(bytes(b))
    return v.from_bytes(bytes(b))


def enc_value_obj(x):
    """Canonical encoding of a pcbasic value: type tag then bytes (string: content)."""
    from pcbasic.basic.values import numbers, strings
    if isinstance(x, strings.String):
        return [3] + list(x.to_str())
    if isinstance(x, numbers.Integer):
        return [2] + list(x.to_bytes())
    if isinstance(x, numbers.Single):
        return [4] + list(x.to_bytes())
    if isinstance(x, numbers.Double):
        return [8] + list(x.to_bytes())
    raise TypeError('not a value: %r' % (x,))


def run(fn):
    """Run fn() -> value; canonical result list (0::enc | [1, err] | [2, k])."""
    try:
        return [0] + enc_value_obj(fn())
    except Exception as e:      # noqa
        return common.canon_exc(e)


class hard_errors(object):
    """Make the FloatErrorHandler raise BASIC errors instead of printing and continuing."""

    def __enter__(self):
        self.h = values_obj().error_handler
        self.old = self.h._do_raise
        self.h.suspend(True)

    def __exit__(self, *a):
        self.h.suspend(self.old)


def coq_value(t, b):
    from vlib import core
    return '(%s %s)' % ({2: 'VInt', 4: 'VSng', 8: 'VDbl', 3: 'VStr'}[t], core.zl(list(b)))


# ---------------------------------------------------------------- generators

INT_POOL = [0, 1, -1, 2, -2, 3, 9, 10, 15, 16, 127, 128, 255, 256, 257, 4095, 4096, 32766, 32767, -32767,
            -32768, 16384, -16384, 100, 1000, 9999, -255, -256]


def int_bytes(n):
    n &= 0xffff
    return [n & 255, n >> 8]


def rand_float_bytes(rng, n, kind=None):
    """Byte patterns of an n-byte float, boundary-dense."""
    kind = kind or rng.choice(['any', 'any', 'nearint', 'nearint', 'zero', 'maxexp', 'minexp', 'allones',
                               'half', 'half', 'int16edge', 'smallfrac'])
    mb = MBITS[n]
    if kind == 'any':
        return [rng.randrange(256) for _ in range(n)]
    if kind == 'zero':          # non-canonical zeros
        return [rng.choice([0, 0, rng.randrange(256)]) for _ in range(n - 1)] + [0]
    if kind == 'maxexp':
        return [rng.choice([255, 255, rng.randrange(256)]) for _ in range(n - 1)] + [rng.choice([255, 254, 253])]
    if kind == 'minexp':
        return [rng.randrange(256) for _ in range(n - 1)] + [rng.choice([1, 2, 3])]
    if kind == 'allones':
        b = [255] * (n - 1) + [rng.randrange(1, 256)]
        if rng.random() < 0.5:
            b[rng.randrange(n - 1)] = rng.randrange(256)
        return b
    if kind == 'nearint':       # exponent around the integer range, sparse / dense low bits
        e = rng.randrange(120, 128 + mb + 10)
        b = [rng.choice([0, 0, 255, 128, rng.randrange(256)]) for _ in range(n - 1)] + [min(e, 255)]
        return b
    if kind == 'smallfrac':
        e = rng.randrange(100, 130)
        return [rng.randrange(256) for _ in range(n - 1)] + [e]
    if kind == 'half':          # k + 1/2 and its neighbours
        k = rng.choice(INT_POOL + [rng.randrange(-40000, 40000), rng.randrange(-(1 << (mb - 2)), 1 << (mb - 2)),
                                   (1 << (mb - 1)) - 1, -(1 << (mb - 1)), (1 << (mb - 2))])
        b = float_encode(Fraction(2 * k + 1, 2), n)
        return rng.choice([b] + float_neighbours(b))
    if kind == 'int16edge':
        x = rng.choice([Fraction(65535, 2), Fraction(65537, 2), Fraction(-65537, 2), Fraction(-65535, 2),
                        32767, 32768, -32768, -32769, 65535, 65536, Fraction(131071, 2), Fraction(131073, 2),
                        -65536, -65537, 98303, 98304])
        b = float_encode(x, n)
        return rng.choice([b] + float_neighbours(b))
    raise ValueError(kind)


def rand_value(rng, types=(2, 4, 8)):
    t = rng.choice(types)
    if t == 2:
        n = rng.choice(INT_POOL) if rng.random() < 0.5 else rng.randrange(-32768, 32768)
        return [2] + int_bytes(n)
    if t == 3:
        return [3] + common.rand_bytes(rng, rng.choice([0, 1, 2, 3, 4, 5, 7, 8, 9, 12]))
    return [t] + rand_float_bytes(rng, t)
