"""C05 - Arithmetic identities hold for every value."""
from fractions import Fraction

from vlib import core
from harness import common
from harness import mbf_common as M
from harness import MBFArith_gen as G

NRES = 16
ZERO = [2, 0, 0]
ONE = [2, 1, 0]


class C05(core.Check):
    ID = 'C05'
    GEN = ['gen_mbf']
    PROPS = 'props/C05.v'
    MODEL_IMPORTS = ['gen.Gen_mbf', 'model.MBF', 'model.MBFArith']
    QUICK_CASES = 1500
    THOROUGH_CASES = 24000
    TRUSTED = ['idiom layer of translate/targets/gen_mbf.py + lib/MBFPrims.v (value buffers as byte lists; '
               'buffer-length class invariant)',
               'hand glue in model/MBFArith.v (values.add/sub/mul/div/neg/abs_/sgn_ type dispatch, @float_safe + '
               'FloatErrorHandler) and model/MBF.v (to_single/to_double promotion, Integer.from_int), tied by '
               'correspondence through values.* on a real Session comparing result bytes']
    RULE = ('one case = one operand pair (Integer/Single/Double byte patterns, all type pairings, a few strings) '
            'through 16 calls on a real Session with BASIC errors raised: add(x,y) add(y,x) mul(x,y) mul(y,x) '
            'add(x,0%) add(0%,x) mul(x,1%) mul(1%,x) div(x,1%) sub(x,x) neg(x) neg(neg(x)) abs_(x) sgn_(x) sub(x,y) '
            'div(x,y); the canonical results (type tag + result BYTES or error number) are compared with the Coq '
            'model. Operand classes as in C04 (random, aligned/adjacent exponents, cancellation, extremes, '
            'threshold products/quotients, small double products = D5 class, non-canonical zeros, integers, '
            'strings). Oracle (exact fractions.Fraction decoding, no Coq, no pcbasic arithmetic): commutative '
            'pairs byte-identical; x+0, 0+x, x*1, 1*x, x/1 equal x in value and byte-identical for a canonical '
            'float x; x-x has value 0; neg has value -x, neg(neg x) byte-identical for floats (same value for '
            'integers); abs_ = |x| >= 0 and byte-identical to x or neg x; sgn_ = -1/0/1 as Integer; result type = '
            'widest operand type, integers promoted to single. non-trivial = numeric non-zero x; distinct by hash')
    histogram = None

    # ---------------------------------------------------------------- cases
    def corpus(self):
        c = [{'x': x, 'y': y} for x, y in G.D5_CASES]           # witnesses of defect D5 (x * 1 = 0)
        vals = [[4, 0, 0, 0, 129], [8, 0, 0, 0, 0, 0, 0, 0, 129], [4] + G.MAXB[4], [8] + G.MAXB[8],
                [4, 0, 0, 0, 1], [8, 0, 0, 0, 0, 0, 0, 0, 1], [4, 255, 255, 255, 255], [4, 0, 0, 0, 0],
                [4, 1, 2, 131, 0], [8, 9, 9, 9, 9, 9, 9, 137, 0], [4, 0, 0, 128, 0], [2, 0, 0], [2, 1, 0],
                [2, 255, 255], [2, 0, 128], [2, 255, 127], [8, 255, 255, 255, 255, 255, 255, 127, 1],
                [8, 1, 0, 0, 0, 0, 0, 0, 33], [8, 255, 255, 255, 255, 255, 255, 255, 32], [4, 255, 255, 127, 128],
                [8, 0, 0, 0, 0, 0, 0, 128, 64]]
        c += [{'x': x, 'y': y} for i, x in enumerate(vals) for j, y in enumerate(vals) if (i + j) % 3 == 0 or j < 2]
        c += [{'x': [3, 65], 'y': [2, 1, 0]}, {'x': [4, 0, 0, 0, 129], 'y': [3]}]
        return c

    def gen_cases(self, n):
        hist = {}
        out = []
        for _ in range(n):
            x, y, key = G.pair(self.rng)
            if x[0] == 3 and y[0] == 3:
                continue
            out.append({'x': x, 'y': y})
            hist[key] = hist.get(key, 0) + 1
            tk = 'types:%d,%d' % (x[0], y[0])
            hist[tk] = hist.get(tk, 0) + 1
        self.histogram = hist
        return out

    def shrink_candidates(self, case):
        for k in ('x', 'y'):
            v = case[k]
            if v[0] in (4, 8):
                for i in range(1, len(v) - 2):
                    if v[i]:
                        d = dict(case)
                        d[k] = v[:i] + [0] + v[i + 1:]
                        yield d
        if case['y'] != ONE:
            d = dict(case)
            d['y'] = ONE
            yield d

    # ---------------------------------------------------------------- implementation / model
    def impl(self, case):
        from pcbasic.basic.values import values
        x, y = case['x'], case['y']
        mk = lambda v: M.make_value(v[0], v[1:])
        calls = [lambda: values.add(mk(x), mk(y)), lambda: values.add(mk(y), mk(x)),
                 lambda: values.mul(mk(x), mk(y)), lambda: values.mul(mk(y), mk(x)),
                 lambda: values.add(mk(x), mk(ZERO)), lambda: values.add(mk(ZERO), mk(x)),
                 lambda: values.mul(mk(x), mk(ONE)), lambda: values.mul(mk(ONE), mk(x)),
                 lambda: values.div(mk(x), mk(ONE)), lambda: values.sub(mk(x), mk(x)),
                 lambda: values.neg(mk(x)), lambda: values.neg(values.neg(mk(x))),
                 lambda: values.abs_([mk(x)]), lambda: values.sgn_([mk(x)]),
                 lambda: values.sub(mk(x), mk(y)), lambda: values.div(mk(x), mk(y))]
        out = []
        with core.time_limit(5):
            with M.hard_errors():
                for f in calls:
                    out += M.run(f)
        return out

    def model_term(self, case):
        return '(c05_all %s %s)' % (M.coq_value(case['x'][0], case['x'][1:]),
                                    M.coq_value(case['y'][0], case['y'][1:]))

    # ---------------------------------------------------------------- oracle
    def nontrivial(self, case, out):
        x = case['x']
        return x[0] != 3 and case['y'][0] != 3 and M.value_of(x[0], x[1:]) != 0

    @staticmethod
    def split(out):
        res = []
        i = 0
        while i < len(out):
            if out[i] == 0:
                tag = out[i + 1]
                if tag == 3:
                    return None         # string results appear only for string operands: not split further
                ln = {2: 2, 4: 4, 8: 8}[tag]
                res.append(out[i:i + 2 + ln])
                i += 2 + ln
            else:
                res.append(out[i:i + 2])
                i += 2
        return res

    def oracle(self, case, out):
        x, y = case['x'], case['y']
        if x[0] == 3 or y[0] == 3:
            return None
        if len(x) != 1 + x[0] or len(y) != 1 + y[0]:
            return None
        r = self.split(out)
        if r is None or len(r) != NRES:
            return 'unexpected result list %r' % (out,)
        (axy, ayx, mxy, myx, ax0, a0x, mx1, m1x, dx1, sxx, ng, ngng, ab, sg, sxy, dxy) = r
        vx = M.value_of(x[0], x[1:])
        tx = max(4, x[0])
        canonical = x[0] in (4, 8) and (x[-1] != 0 or not any(x[1:]))

        def val(res):
            return M.value_of(res[1], res[2:])
        if axy != ayx:
            return 'x+y = %r but y+x = %r' % (axy, ayx)
        if mxy != myx:
            return 'x*y = %r but y*x = %r' % (mxy, myx)
        for name, res in (('x+0', ax0), ('0+x', a0x), ('x*1', mx1), ('1*x', m1x), ('x/1', dx1)):
            if res[0] != 0:
                return '%s raised %r' % (name, res)
            if res[1] != tx:
                return '%s has type %d, expected %d' % (name, res[1], tx)
            if val(res) != vx:
                return '%s = %s but x = %s' % (name, val(res), vx)
            if canonical and res[1:] != x:
                return '%s is not bit-for-bit x for the canonical float x: %r' % (name, res)
        if sxx[0] != 0 or val(sxx) != 0 or sxx[1] != tx:
            return 'x-x = %r is not a zero of type %d' % (sxx, tx)
        if ng[0] != 0 or val(ng) != -vx or ng[1] != tx:
            return '-x = %r' % (ng,)
        if ngng[0] != 0 or val(ngng) != vx or (x[0] != 2 and ngng[1:] != x):
            return '-(-x) = %r is not x' % (ngng,)
        if ab[0] != 0 or val(ab) != abs(vx) or val(ab) < 0 or ab[1] != tx:
            return 'ABS(x) = %r' % (ab,)
        if x[0] != 2 and ab[1:] != x and ab != ng:
            return 'ABS(x) = %r is neither x nor -x bit for bit' % (ab,)
        s = (vx > 0) - (vx < 0)
        if sg != [0, 2] + M.int_bytes(s):
            return 'SGN(x) = %r, expected %d' % (sg, s)
        t = G.wide(x[0], y[0])
        for name, res in (('x+y', axy), ('x*y', mxy), ('x-y', sxy), ('x/y', dxy)):
            if res[0] == 0 and res[1] != t:
                return '%s has type %d, expected the widest operand type %d' % (name, res[1], t)
            if res[0] not in (0, 1):
                return '%s: host exception %r' % (name, res)
        return None


CHECK = C05
