"""Operand-pair generators and the exact-arithmetic reference shared by the checks of the MBFArith model
(C04 error bounds / thresholds, C05 identities).  Nothing here uses the Coq model or pcbasic's arithmetic:
operands are byte patterns, the reference is fractions.Fraction on the bytes decoded by mbf_common."""
from fractions import Fraction

from harness import mbf_common as M

MAXB = {4: [255, 255, 127, 255], 8: [255] * 6 + [127, 255]}
MAXV = {t: M.float_value(b) for t, b in MAXB.items()}
MINV = Fraction(1, 2 ** 128)
TOP = Fraction(2) ** 127            # first magnitude beyond the rounding band above MAX


def max_bytes(t, neg):
    b = list(MAXB[t])
    if neg:
        b[-2] |= 0x80
    return b


def wide(tx, ty):
    return 8 if 8 in (tx, ty) else 4


def mant(rng, t, kind=None):
    """t-1 mantissa bytes (sign bit random) of various shapes"""
    kind = kind or rng.choice(['rand', 'rand', 'sparse', 'ones', 'pow2', 'lowbits', 'tie'])
    n = t - 1
    if kind == 'rand':
        b = [rng.randrange(256) for _ in range(n)]
    elif kind == 'sparse':
        b = [rng.choice([0, 0, 0, 0x80, 0x40, 0xc0, 1, 0xff, 0x10, 8, 9]) for _ in range(n)]
    elif kind == 'ones':
        b = [255] * n
        if rng.random() < 0.5:
            b[rng.randrange(n)] = rng.choice([254, 127, 0xfe, 0xf7, rng.randrange(256)])
    elif kind == 'pow2':
        b = [0] * n
        if rng.random() < 0.4:
            b[0] = rng.choice([1, 2, 3])
    elif kind == 'lowbits':
        b = [rng.randrange(256)] + [rng.choice([0, 255, rng.randrange(256)]) for _ in range(n - 1)]
        b[0] = rng.choice([0x80, 0x7f, 0x81, 0x40, 0xc0, 1, 0xff, 9, 0x90, 0x98, 0x88])
    else:  # tie: a single low bit pattern that lands on the guard byte after small shifts
        b = [0] * n
        b[0] = rng.choice([1, 2, 4, 8, 16, 32, 64, 128, 3, 5, 0x81, 0xc0, 0x60])
        b[n - 1] = rng.randrange(128)
    b[n - 1] = (b[n - 1] & 0x7f) | rng.choice([0, 0x80])
    return b


def clamp_exp(e):
    return max(1, min(255, e))


def pair(rng):
    """(x, y, class): x, y = [tag] + bytes"""
    r = rng.random()
    t = rng.choice([4, 8])
    ty = t if rng.random() < 0.75 else rng.choice([4, 8])
    mb = M.MBITS[t]
    if r < 0.10:
        return M.rand_value(rng), M.rand_value(rng), 'random'
    if r < 0.20:
        e = rng.randrange(1, 256)
        return [t] + mant(rng, t) + [e], [ty] + mant(rng, ty) + [e], 'exp-aligned'
    if r < 0.34:
        e = rng.randrange(1, 256)
        d = rng.choice([1, 1, 2, 3, 7, 8, 9, mb - 1, mb, mb + 1, mb + 7, mb + 8, mb + 9, rng.randrange(1, 70)])
        return [t] + mant(rng, t) + [e], [ty] + mant(rng, ty) + [clamp_exp(e + rng.choice([-d, d]))], 'exp-adjacent'
    if r < 0.48:
        # cancellation: nearly equal magnitudes, opposite signs (for + ; same signs exercise -)
        e = rng.choice([1, 2, 3, 9, 30, 128, 129, 200, 255, rng.randrange(1, 256)])
        a = mant(rng, t) + [e]
        b = list(a)
        k = rng.random()
        if k < 0.3:
            nb = M.float_neighbours(a)
            b = list(rng.choice(nb)) if nb else list(a)
        elif k < 0.6:
            i = rng.randrange(t - 1)
            b[i] ^= rng.choice([1, 2, 0x80, 0xff, 0x10])
        elif k < 0.8:
            b[-1] = clamp_exp(e + rng.choice([-1, 1]))
            if rng.random() < 0.5:
                b[:t - 2] = mant(rng, t)[:t - 2]
        if rng.random() < 0.7:
            b[-2] ^= 0x80
        return [t] + a, [t] + b, 'cancellation'
    if r < 0.56:
        return ([t] + M.rand_float_bytes(rng, t, rng.choice(['maxexp', 'minexp', 'allones'])),
                [ty] + M.rand_float_bytes(rng, ty, rng.choice(['maxexp', 'minexp', 'allones', 'any'])), 'extremes')
    if r < 0.70:
        # products landing just above / below the representable range: ex + ey - 128 near 0 or 255
        ex = rng.randrange(1, 256)
        target = rng.choice([-2, -1, 0, 1, 2, 3, 253, 254, 255, 256, 257, 258])
        ey = target + 128 - ex
        if not 1 <= ey <= 255:
            ex = clamp_exp(target + 128 - rng.randrange(1, 256))
            ey = clamp_exp(target + 128 - ex)
        return [t] + mant(rng, t) + [ex], [ty] + mant(rng, ty) + [ey], 'product-threshold'
    if r < 0.82:
        # quotients landing just above / below the range: ex - ey + 128 near 0 or 255
        ey = rng.randrange(1, 256)
        target = rng.choice([-2, -1, 0, 1, 2, 3, 253, 254, 255, 256, 257])
        ex = target - 128 + ey
        if not 1 <= ex <= 255:
            ey = clamp_exp(rng.randrange(1, 256))
            ex = clamp_exp(target - 128 + ey)
        return [t] + mant(rng, t) + [ex], [ty] + mant(rng, ty) + [ey], 'quotient-threshold'
    if r < 0.88:
        # small products of doubles: the class of defect D5 (2^-128 <= |x*y| < 2^-96)
        a, b = small_double_pair(rng)
        return (a, b, 'small-double-product') if rng.random() < 0.5 else (b, a, 'small-double-product')
    if r < 0.94:
        z = [t] + M.rand_float_bytes(rng, t, 'zero')
        o = rng.choice([M.rand_value(rng), [ty] + M.rand_float_bytes(rng, ty, 'zero'), [2, 0, 0]])
        return (z, o, 'noncanonical-zero') if rng.random() < 0.5 else (o, z, 'noncanonical-zero')
    if r < 0.98:
        k = rng.choice(M.INT_POOL) if rng.random() < 0.6 else rng.randrange(-32768, 32768)
        j = rng.choice(M.INT_POOL) if rng.random() < 0.6 else rng.randrange(-32768, 32768)
        x = [2] + M.int_bytes(k)
        y = rng.choice([[2] + M.int_bytes(j), [4] + M.float_encode(j, 4), [8] + M.float_encode(j, 8),
                        M.rand_value(rng, (4, 8))])
        return (x, y, 'integer-operand') if rng.random() < 0.5 else (y, x, 'integer-operand')
    return (M.rand_value(rng, (3,)), M.rand_value(rng, (2, 4, 8)), 'string-operand') if rng.random() < 0.5 else \
           (M.rand_value(rng, (2, 4, 8)), M.rand_value(rng, (3,)), 'string-operand')


def small_double_pair(rng):
    target = rng.randrange(1, 36)
    lo, hi = max(1, target + 128 - 255), min(255, target + 127)
    ex = rng.randrange(lo, hi + 1)
    ey = clamp_exp(target + 128 - ex)
    ty = rng.choice([8, 8, 4])
    return [8] + mant(rng, 8) + [ex], [ty] + mant(rng, ty) + [ey]


def exact(op, x, y):
    if op == 'add':
        return x + y
    if op == 'sub':
        return x - y
    if op == 'mul':
        return x * y
    return x / y


# the witness of defect D5 (PRINT 1D-31*1 printed 0): 1D-31 as a double, times integer / single / double one
D5_X = [8] + M.float_encode(Fraction(1, 10 ** 31), 8)
D5_CASES = [(D5_X, [2, 1, 0]), (D5_X, [8, 0, 0, 0, 0, 0, 0, 0, 129]), ([4, 0, 0, 0, 129], D5_X),
            ([8] + M.float_encode(Fraction(1, 10 ** 20), 8), [8] + M.float_encode(Fraction(1, 10 ** 15), 8))]


# ---------------------------------------------------------------- the property text, executable (C04)

def split8(out, n):
    """cut a concatenation of canonical results ([0, tag, bytes..] | [1, e] | [2, k]) into n results"""
    res = []
    i = 0
    for _ in range(n):
        if i >= len(out):
            return None
        if out[i] == 0:
            if i + 1 >= len(out):
                return None
            tag = out[i + 1]
            ln = {2: 2, 4: 4, 8: 8}.get(tag)
            if ln is None:
                return None
            res.append(out[i:i + 2 + ln])
            i += 2 + ln
        else:
            res.append(out[i:i + 2])
            i += 2
    return res if i == len(out) else None


def check_op(op, x, y, hard, soft):
    """x, y = [tag] + bytes (numeric); hard / soft = canonical results in the two error-handler modes.
    Returns None or a description of the violated clause of C04."""
    tx, ty = x[0], y[0]
    t = wide(tx, ty)
    vx, vy = M.value_of(tx, x[1:]), M.value_of(ty, y[1:])
    name = '%s %s %s' % (vx, op, vy)
    if op == 'div' and vy == 0:
        if hard != [1, 11]:
            return '%s: division by zero did not raise Division by zero (got %r)' % (name, hard)
        ok = [[0, t] + max_bytes(t, s) for s in ((vx < 0,) if vx != 0 else (False, True))]
        if soft not in ok:
            return '%s: soft-handled division by zero did not yield the signed maximum (got %r)' % (name, soft)
        return None
    ex = exact(op, vx, vy)
    if hard == [1, 6]:
        if abs(ex) <= MAXV[t]:
            return '%s: Overflow although the exact result %s does not exceed the largest number' % (name, ex)
        if soft != [0, t] + max_bytes(t, ex < 0):
            return '%s: soft-handled Overflow did not yield the signed maximum (got %r)' % (name, soft)
        return None
    if hard[:1] != [0] or hard != soft:
        return '%s: unexpected result hard=%r soft=%r' % (name, hard, soft)
    if hard[1] != t or len(hard) != 2 + t:
        return '%s: result type %r is not the widest operand type %d' % (name, hard[1:2], t)
    rb = hard[2:]
    r = M.float_value(rb)
    if abs(ex) > MAXV[t]:
        # only legitimate inside the rounding band: the rounded result is the largest number itself
        if abs(ex) >= TOP or rb != max_bytes(t, ex < 0):
            return '%s: exact result %s exceeds the largest number but no Overflow (result %s)' % (name, ex, r)
        return None
    if rb[-1] == 0:
        if ex != 0 and abs(ex) >= MINV:
            return '%s: result replaced by zero although |exact| = %s >= 2^-128' % (name, abs(ex))
        return None
    ulp = Fraction(2) ** (rb[-1] - M.BIAS[t])
    err = abs(r - ex)
    if op in ('add', 'sub'):
        if err > 2 * ulp:
            return '%s: error %s ulp > 2 ulp (result %s)' % (name, err / ulp, r)
    elif err >= ulp:
        return '%s: error %s ulp >= 1 ulp (result %s)' % (name, err / ulp, r)
    return None
