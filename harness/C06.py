"""C06 - Numeric comparisons agree with the exact order of values."""
from fractions import Fraction

from vlib import core
from harness import common
from harness import mbf_common as M

OPS = ['eq', 'neq', 'gt', 'gte', 'lt', 'lte']
TRUE, FALSE = [0, 2, 255, 255], [0, 2, 0, 0]


class C06(core.Check):
    ID = 'C06'
    GEN = ['gen_mbf']
    PROPS = 'props/C06.v'
    MODEL_IMPORTS = ['gen.Gen_mbf', 'model.MBF']
    QUICK_CASES = 1400
    THOROUGH_CASES = 20000
    TRUSTED = ['idiom layer of translate/targets/gen_mbf.py + lib/MBFPrims.v (value buffers as byte lists; '
               'the for/zip/reversed loop of Float._abs_gt as lex_gt)',
               'hand glue in model/MBF.v: match_types + isinstance dispatch of gt/eq, from_bool, '
               'Integer.to_int, Double.from_single; tied by correspondence through values.eq/neq/gt/gte/lt/lte '
               'on a real Session']
    RULE = ('one case = one pair of values (Integer/Single/Double byte patterns, sometimes a string for the '
            'Type-mismatch glue) through all six values.eq/neq/gt/gte/lt/lte on a real Session '
            '(s._impl.values); the six result byte strings are compared with the Coq model. Pools: random '
            'patterns, identical values, adjacent representable values, equal magnitudes with opposite '
            'signs, non-canonical zeros (exponent byte 0, other bytes arbitrary) against zeros/positives/'
            'negatives, exponent neighbours, mixed-type pairs built from the same number (integer n vs '
            'single/double n and their neighbours, single vs its exact widening and the adjacent doubles). '
            'Oracle: each operator must return -1 iff the relation holds between the exact Fraction values '
            'decoded from the bytes, else 0; exactly one of < = > ; <= is not >. '
            'non-trivial = both operands numeric; distinct by hash')
    histogram = None

    # ---------------------------------------------------------------- cases
    def corpus(self):
        z4 = [[4, 0, 0, 0, 0], [4, 1, 2, 131, 0], [4, 255, 255, 255, 0], [4, 0, 0, 128, 0]]
        z8 = [[8] + [0] * 8, [8, 9, 9, 9, 9, 9, 9, 137, 0], [8, 0, 0, 0, 0, 0, 0, 128, 0]]
        vals = z4 + z8 + [[2, 0, 0], [2, 1, 0], [2, 255, 255], [2, 0, 128], [2, 255, 127],
                          [4, 0, 0, 0, 129], [4, 0, 0, 128, 129], [4, 1, 0, 0, 129], [4, 255, 255, 127, 128],
                          [4, 0, 0, 0, 1], [4, 0, 0, 128, 1], [4, 255, 255, 127, 255], [4, 255, 255, 255, 255],
                          [8, 0, 0, 0, 0, 0, 0, 0, 129], [8, 0, 0, 0, 0, 0, 0, 128, 129],
                          [8, 1, 0, 0, 0, 0, 0, 0, 129], [8, 0, 0, 0, 1, 0, 0, 0, 129],
                          [8, 255, 255, 255, 255, 255, 255, 127, 255], [8, 255, 255, 255, 255, 255, 255, 255, 255]]
        c = [{'x': x, 'y': y} for i, x in enumerate(vals) for j, y in enumerate(vals)
             if i < 7 or j < 7 or (i + j) % 3 == 0]
        c += [{'x': [3, 65], 'y': [2, 1, 0]}, {'x': [4, 0, 0, 0, 129], 'y': [3]}, {'x': [8] + [0] * 8, 'y': [3, 1]}]
        return c

    def gen_cases(self, n):
        rng = self.rng
        hist = {}
        out = []

        def add(x, y, key):
            if rng.random() < 0.5:
                x, y = y, x
            out.append({'x': x, 'y': y})
            hist[key] = hist.get(key, 0) + 1
        for i in range(n):
            r = rng.random()
            if r < 0.15:
                add(M.rand_value(rng), M.rand_value(rng), 'random')
            elif r < 0.25:
                x = M.rand_value(rng)
                add(x, list(x), 'identical')
            elif r < 0.40:
                t = rng.choice([4, 8])
                b = M.rand_float_bytes(rng, t)
                nb = M.float_neighbours(b) if b[-1] else []
                if nb:
                    add([t] + b, [t] + rng.choice(nb), 'adjacent')
                else:
                    add([t] + b, [t] + M.rand_float_bytes(rng, t, 'zero'), 'zero-zero')
            elif r < 0.50:
                t = rng.choice([4, 8])
                b = M.rand_float_bytes(rng, t)
                o = list(b)
                o[-2] ^= 0x80
                add([t] + b, [t] + o, 'opposite-sign')
            elif r < 0.62:
                t = rng.choice([4, 8])
                z = M.rand_float_bytes(rng, t, 'zero')
                other = rng.choice([M.rand_value(rng), [t] + M.rand_float_bytes(rng, t, 'zero'), [2, 0, 0],
                                    [t] + M.rand_float_bytes(rng, t, 'minexp')])
                add([t] + z, other, 'noncanonical-zero')
            elif r < 0.72:
                t = rng.choice([4, 8])
                b = M.rand_float_bytes(rng, t, 'any')
                o = list(b)
                o[-1] = max(0, min(255, b[-1] + rng.choice([-1, 1])))
                if rng.random() < 0.5:
                    o[rng.randrange(t - 1)] = rng.randrange(256)
                add([t] + b, [t] + o, 'exponent-neighbour')
            elif r < 0.88:
                # the same number in different types, and its neighbours
                k = rng.choice(M.INT_POOL) if rng.random() < 0.5 else rng.randrange(-32768, 32768)
                forms = [[2] + M.int_bytes(k), [4] + M.float_encode(k, 4), [8] + M.float_encode(k, 8)]
                x = rng.choice(forms)
                y = rng.choice(forms)
                if y[0] != 2 and any(y[1:]) and rng.random() < 0.6:
                    y = [y[0]] + rng.choice(M.float_neighbours(y[1:]))
                add(x, y, 'mixed-same-number')
            elif r < 0.97:
                s = M.rand_float_bytes(rng, 4)
                d = [0, 0, 0, 0] + s
                y = [8] + d
                if s[-1] and rng.random() < 0.7:
                    y = [8] + rng.choice(M.float_neighbours(d))
                add([4] + s, y, 'single-vs-widened')
            else:
                add(M.rand_value(rng, (3,)), M.rand_value(rng), 'string-vs-number')
        self.histogram = hist
        return out

    def shrink_candidates(self, case):
        """byte patterns have fixed widths: only try zeroing low mantissa bytes"""
        for k in ('x', 'y'):
            v = case[k]
            if v[0] in (4, 8):
                for i in range(1, len(v) - 2):
                    if v[i]:
                        d = dict(case)
                        d[k] = v[:i] + [0] + v[i + 1:]
                        yield d

    # ---------------------------------------------------------------- implementation / model
    def impl(self, case):
        from pcbasic.basic.values import values
        out = []
        with core.time_limit(20):
            for op in OPS:
                fn = getattr(values, op)
                with M.hard_errors():
                    out += M.run(lambda: fn(M.make_value(case['x'][0], case['x'][1:]),
                                            M.make_value(case['y'][0], case['y'][1:])))
        return out

    def model_term(self, case):
        return '(c06_all %s %s)' % (M.coq_value(case['x'][0], case['x'][1:]),
                                    M.coq_value(case['y'][0], case['y'][1:]))

    # ---------------------------------------------------------------- oracle
    def nontrivial(self, case, out):
        return case['x'][0] != 3 and case['y'][0] != 3

    def oracle(self, case, out):
        tx, ty = case['x'][0], case['y'][0]
        if tx == 3 or ty == 3:
            return None if out == [1, 13] * 6 else 'string compared with a number did not raise Type mismatch'
        for t, b in ((tx, case['x'][1:]), (ty, case['y'][1:])):
            if len(b) != t:
                return None
        x, y = M.value_of(tx, case['x'][1:]), M.value_of(ty, case['y'][1:])
        want = {'eq': x == y, 'neq': x != y, 'gt': x > y, 'gte': x >= y, 'lt': x < y, 'lte': x <= y}
        if len(out) != 24:
            return 'an operator did not return an integer: %r' % (out,)
        got = {}
        for i, op in enumerate(OPS):
            r = out[4 * i:4 * i + 4]
            if r not in (TRUE, FALSE):
                return '%s returned %r, neither -1 nor 0' % (op, r)
            got[op] = r == TRUE
            if got[op] != want[op]:
                return '%s %s %s returned %d but the exact relation is %s' % (x, op, y, -1 if got[op] else 0,
                                                                            want[op])
        if [got['lt'], got['eq'], got['gt']].count(True) != 1:
            return 'not exactly one of < = > holds'
        if got['lte'] == got['gt'] or got['gte'] == got['lt'] or got['neq'] == got['eq']:
            return '<= / >= / <> is not the negation of > / < / ='
        return None


CHECK = C06
