"""C15 - Saved programs load back identically in every file format."""
import io
import os

from vlib import core
from harness import common, progen


class C15(core.Check):
    ID = 'C15'
    GEN = ['gen_protect']
    PROPS = 'props/C15.v'
    MODEL_IMPORTS = ['gen.Gen_protect', 'model.Protect']
    QUICK_CASES = 500
    THOROUGH_CASES = 5000
    TRUSTED = ['hand model model/Protect.v of the read/write loops of converter/protect.py and of the B/P file '
               'framing (magic byte, EOF byte) tied by correspondence; ASCII format and the command-line converter (main._convert) by '
               'round-trip / equal-files oracle only (tokeniser round-trip is C17)']
    RULE = ('cipher cases: random byte strings (lengths dense at 0,1,142..144,255..287) through '
            'converter.protect/unprotect; file cases: generated programs SAVEd as B, P, A in a real Session on a disk mount and on a cassette image (image sizes dense at tape block boundaries k*256-1..k*256+1), '
            'file bytes compared with the model, then LOADed in a fresh Session and program memory / LIST '
            'compared (oracle). non-trivial = non-empty input; distinct by hash')
    histogram = None

    def corpus(self):
        return [
            {'k': 'cipher', 'b': []}, {'k': 'cipher', 'b': [26]}, {'k': 'cipher', 'b': [0, 26]},
            {'k': 'cipher', 'b': list(range(256)) + [26]},
            {'k': 'cipher', 'b': [255] * 143 + [0] * 144},
            {'k': 'file', 'p': [[10, 'PRINT "A' + chr(26) + 'B"'], [20, 'REM ' + 'x' * 230]]},
            {'k': 'file', 'p': []},
            {'k': 'file', 'p': [[65529, 'END']]},
            {'k': 'file', 'p': self.with_long_line([[10, 'PRINT 1']], 255, None)},
            {'k': 'file', 'p': self.with_long_line([[10, 'PRINT 1']], 254, None)},
        ] + [{'k': 'file', 'p': self.pad_to_block([[10, 'A%=1234:PRINT "hello"'], [30, 'GOTO 10']], t)} for t in (255, 256, 257, 512)]

    def gen_cases(self, n):
        rng = self.rng
        hist = {'cipher': 0, 'file': 0}
        out = []
        for i in range(n):
            if i % 10 < 8:
                out.append({'k': 'cipher', 'b': common.rand_bytes(rng, common.rand_len(rng, 400))})
                hist['cipher'] += 1
            else:
                prog = [list(x) for x in progen.program(rng)]
                if rng.random() < 0.3:
                    prog = self.with_long_line(prog, rng.choice([253, 254, 255]), rng)
                    hist['long_listed_line'] = hist.get('long_listed_line', 0) + 1
                elif rng.random() < 0.5:
                    prog = self.pad_to_block(prog, rng.choice([255, 256, 257, 511, 512, 513]))
                    hist['block_boundary'] = hist.get('block_boundary', 0) + 1
                out.append({'k': 'file', 'p': prog})
                hist['file'] += 1
        # long inputs (buffer boundaries of a chunked implementation: seed C15f) and inputs whose ciphertext ends in 1A, the
        # EOF marker (seed C15d): the last byte is chosen with the implementation's own protect()
        import importlib, io
        protect = importlib.import_module('pcbasic.basic.converter.protect')
        for ln in ([4097] if self.tier == 'quick' else [4095, 4096, 4097, 5000, 8191, 8193, 12289, 20000]):
            out.append({'k': 'cipher', 'b': common.rand_bytes(rng, ln)})
            hist['cipher_long'] = hist.get('cipher_long', 0) + 1
        for ln in [1, 2, 26, 143, 144, 169, 286, rng.randrange(3, 400), rng.randrange(3, 400)]:
            b = common.rand_bytes(rng, ln)
            for last in range(256):
                o = io.BytesIO()
                try:
                    protect.protect(io.BytesIO(bytes(b[:-1] + [last])), o)
                except Exception:
                    break
                if o.getvalue()[-1:] == b'\x1a':
                    out.append({'k': 'cipher', 'b': b[:-1] + [last]})
                    hist['cipher_ends_in_eof_byte'] = hist.get('cipher_ends_in_eof_byte', 0) + 1
                    break
        # every (position mod 143, byte) pair: 256 strings of one repeated byte, 144 long (+ dropped EOF)
        vals = range(256) if self.tier == 'thorough' else list(range(0, 256, 16)) + [255, 26, 127, 128]
        for v in vals:
            out.append({'k': 'cipher', 'b': [v] * 144})
            hist['cipher'] += 1
        if self.tier == 'thorough':
            hist['exhaustive_position_byte_pairs'] = 143 * 256
        self.histogram = hist
        return out

    def with_long_line(self, prog, width, rng):
        """insert (not as last line) a line whose LISTed text is exactly `width` characters: the ASCII format
        writes it as a full-width record, which the reader returns with the CR still pending"""
        prog = [x for x in prog if x[0] not in (30000, 65000)][:5]
        prog.append([65000, 'PRINT "tail"'])
        num = 30000
        head = '%d REM ' % num
        prog.append([num, 'REM ' + 'y' * (width - len(head))])
        prog.sort()
        return prog

    def _do_convert(self, case):
        # the converter starts a full session per call: run it on a third of the file cases
        return int(core.sha(case), 16) % 3 == 0 or len(case['p']) <= 2

    def pad_to_block(self, prog, target):
        """append/adjust a REM line so that the saved image (program memory minus the leading NUL) has
        exactly `target` bytes (tape block boundaries), when reachable"""
        prog = [x for x in prog if x[0] != 65000][:6]
        with common.new_session() as s:
            s.execute(progen.text([tuple(x) for x in prog]))
            base = len(s._impl.program.bytecode.getvalue()) - 1
            # a line `65000 REM xxx` costs 4 + 2 (REM token + space) ... measure it instead of computing
            s.execute('65000 REM ')
            with_rem = len(s._impl.program.bytecode.getvalue()) - 1
        pad = target - with_rem
        if 0 <= pad <= 200:
            prog.append([65000, 'REM ' + 'x' * pad])
        return prog

    # ---- implementation
    def impl(self, case):
        if case['k'] == 'cipher':
            import importlib; protect = importlib.import_module("pcbasic.basic.converter.protect")
            b = bytes(case['b'])
            o1, o2 = io.BytesIO(), io.BytesIO()
            protect.protect(io.BytesIO(b), o1)
            protect.unprotect(io.BytesIO(b), o2)
            e, d = list(o1.getvalue()), list(o2.getvalue())
            return [len(e)] + e + [len(d)] + d
        return self.impl_file(case)

    def _save_all(self, case):
        d = common.tmpdir('c15')
        try:
            with common.new_session(devices={'C': d}, current_device='C:') as s:
                with core.time_limit(60):
                    s.execute(progen.text([tuple(x) for x in case['p']]))
                    code = bytes(s._impl.program.bytecode.getvalue())
                    size = s._impl.program.size() if hasattr(s._impl.program, 'size') else None
                    listing = s.execute('LIST')
                    s.execute('SAVE "TB"')
                    s.execute('SAVE "TP",P')
                    s.execute('SAVE "TA",A')
                    # same-session history (seed C15c): after LIST/SAVE the code pointer stands deep in the buffer; NEW and
                    # LOAD must still leave exactly the new program in memory, so what is saved next is the same file
                    s.execute('NEW')
                    s.execute('1 REM')
                    s.execute('SAVE "TS"')
                    s.execute('LOAD "TB"')
                    s.execute('SAVE "TB2"')
                    s.execute('LOAD "TP"')
                    s.execute('SAVE "TP2",P')
            files = {}
            for nm in ('TB.BAS', 'TP.BAS', 'TA.BAS', 'TS.BAS', 'TB2.BAS', 'TP2.BAS'):
                p = os.path.join(d, nm)
                files[nm] = open(p, 'rb').read() if os.path.exists(p) else None
            loaded = {}
            for nm in ('TB', 'TP', 'TA'):
                with common.new_session(devices={'C': d}, current_device='C:') as s2:
                    with core.time_limit(60):
                        s2.execute('LOAD "%s"' % nm)
                        l2 = s2.execute('LIST') if nm != 'TP' else None
                        loaded[nm] = (bytes(s2._impl.program.bytecode.getvalue()), l2,
                                      bool(s2._impl.program.protected))
            with common.new_session(devices={'C': d}, current_device='C:') as s5:
                with core.time_limit(60):
                    s5.execute('MERGE "TA"')
                    loaded['MERGE'] = bytes(s5._impl.program.bytecode.getvalue())
            # MERGE of the ASCII file over the same program still in memory, with memory nearly full (seed C15e): every line
            # replaces itself, so no more memory is needed than is in use
            with common.new_session(devices={'C': d}, current_device='C:') as s6:
                with core.time_limit(60):
                    s6.execute(progen.text([tuple(x) for x in case['p']]))
                    s6.execute('CLEAR ,32768')
                    try:
                        free = int(s6.evaluate('FRE(0)'))
                    except Exception:
                        free = None
                    if free is not None and free > 100:
                        s6.execute('CLEAR ,%d' % (32768 - free + 24))
                        before = bytes(s6._impl.program.bytecode.getvalue())
                        out6 = s6.execute('MERGE "TA"')
                        loaded['TIGHT'] = (before, bytes(s6._impl.program.bytecode.getvalue()), out6, s6.evaluate('FRE(0)'))
            # command-line converter (main._convert through pcbasic.main.main) on the files just saved
            conv = {}
            if self._do_convert(case):
                import importlib; pcmain = importlib.import_module("pcbasic.main")
                import logging
                for src, mode in (('TB.BAS', 'a'), ('TB.BAS', 'p'), ('TA.BAS', 'b'), ('TP.BAS', 'b'), ('TP.BAS', 'a')):
                    outp = os.path.join(d, 'CV_%s_%s' % (src[:2], mode))
                    try:
                        with core.time_limit(60):
                            lvl = logging.getLogger().level
                            logging.getLogger().setLevel(logging.CRITICAL)
                            try:
                                pcmain.main('--convert=%s' % mode, os.path.join(d, src), outp)
                            finally:
                                logging.getLogger().setLevel(lvl)
                    except SystemExit:
                        pass
                    except BaseException as e:
                        conv[(src, mode)] = 'converter raised %s: %s' % (type(e).__name__, e)
                        continue
                    conv[(src, mode)] = open(outp, 'rb').read() if os.path.exists(outp) else None
            loaded['CONV'] = conv
            # cassette device: SAVE / LOAD through a CAS image (B, P and A formats), fresh session for LOAD
            tape = os.path.join(d, 'tape.cas')
            open(tape, 'wb').close()
            with common.new_session(devices={'CAS1:': tape}) as s3:
                with core.time_limit(120):
                    s3.execute(progen.text([tuple(x) for x in case['p']]))
                    code_c = bytes(s3._impl.program.bytecode.getvalue())
                    s3.execute('SAVE "CAS1:PB"')
                    s3.execute('SAVE "CAS1:PP",P')
                    s3.execute('SAVE "CAS1:PA",A')
            for nm in ('PB', 'PP', 'PA'):
                with common.new_session(devices={'CAS1:': tape}) as s4:
                    with core.time_limit(120):
                        out4 = s4.execute('LOAD "CAS1:%s"' % nm)
                        loaded['CAS' + nm] = (bytes(s4._impl.program.bytecode.getvalue()), out4, code_c)
            return code, listing, files, loaded
        finally:
            common.rmtree(d)

    def _cached_save_all(self, case):
        cache = self.__dict__.setdefault('_saves', {})
        key = core.sha(case)
        if key not in cache:
            cache[key] = self._save_all(case)
        return cache[key]

    def impl_file(self, case):
        code, listing, files, loaded = self._cached_save_all(case)
        # program text as stored: bytecode minus the leading 00, up to and including the terminator 00 00
        body = self.stored(code)
        fb, fp = files['TB.BAS'], files['TP.BAS']
        return [len(body)] + list(body) + [len(fb)] + list(fb) + [len(fp)] + list(fp)

    @staticmethod
    def stored(code):
        """bytes SAVE writes: everything after the first byte of the code stream up to its current end."""
        return code[1:]

    def model_term(self, case):
        if case['k'] == 'cipher':
            b = core.zl(case['b'])
            return ('(let e := protect %s in let d := unprotect %s in '
                    '(zlen e :: e) ++ (zlen d :: d))' % (b, b))
        body = self.stored(self._cached_save_all(case)[0])
        b = core.zl(list(body))
        return ('(let c := %s in let fb := save_B c in let fp := save_P c in '
                '(zlen c :: c) ++ (zlen fb :: fb) ++ (zlen fp :: fp))' % b)

    def _code_for(self, case):
        # the stored program bytes are an input to the file-format model (the tokeniser is C17's business)
        key = core.sha(case)
        cache = self.__dict__.setdefault('_codes', {})
        if key not in cache:
            d = common.tmpdir('c15m')
            try:
                with common.new_session(devices={'C': d}, current_device='C:') as s:
                    s.execute(progen.text([tuple(x) for x in case['p']]))
                    cache[key] = bytes(s._impl.program.bytecode.getvalue())
            finally:
                common.rmtree(d)
        return cache[key]

    def known_match(self, finding, case, out):
        # K15a: tokenised input keeps its EOF marker, the converter output is exactly one byte longer
        if finding.get('id') != 'K15a' or case.get('k') != 'file':
            return False
        why = self.oracle(case, out)
        return bool(why) and why.startswith('K15a: ')

    def known_rerun(self, finding):
        case = {'k': 'file', 'p': [[10, 'PRINT 1']]}
        self.__dict__.setdefault('_saves', {}).pop(core.sha(case), None)
        why = self.oracle(case, self.impl(case))
        return bool(why) and why.startswith('K15a: ')

    def shrink_candidates(self, case):
        if case.get('k') == 'cipher':
            return core.Check.shrink_candidates(self, case)
        # programs: drop whole lines only
        p = case.get('p', [])
        return [dict(case, p=p[:i] + p[i + 1:]) for i in range(len(p))] if len(p) > 1 else []

    def nontrivial(self, case, out):
        return len(case.get('b') or case.get('p') or []) > 0

    def oracle(self, case, out):
        if case['k'] == 'cipher':
            # property: unprotect(protect(x) + EOF) == x  on the implementation
            import importlib; protect = importlib.import_module("pcbasic.basic.converter.protect")
            b = bytes(case['b'])
            o1 = io.BytesIO()
            protect.protect(io.BytesIO(b), o1)
            o2 = io.BytesIO()
            protect.unprotect(io.BytesIO(o1.getvalue() + b'\x1a'), o2)
            if o2.getvalue() != b:
                return 'unprotect(protect(x)+EOF) != x'
            return None
        code, listing, files, loaded = self._cached_save_all(case)
        prog_end = self.prog_end(code)
        for nm in ('TB', 'TP'):
            c2, l2, prot = loaded[nm]
            if c2[:prog_end] != code[:prog_end]:
                return 'program memory differs after SAVE/LOAD in format %s' % nm
        for nm in ('CASPB', 'CASPP'):
            c5, out5, code_c = loaded[nm]
            pe = self.prog_end(code_c)
            if c5[:pe] != code_c[:pe]:
                return 'program memory differs after SAVE/LOAD on the cassette device (%s): %d bytes stored, loaded image %r...' % (
                    nm[3:], pe, c5[:12])
        c2, l2, prot = loaded['TB']
        if l2 != listing:
            return 'LIST differs after tokenised SAVE/LOAD'
        c3, l3, _ = loaded['TA']
        # ASCII: "whenever the listing re-enters as the same program": compare with re-entering the listing
        with common.new_session() as s3:
            s3.execute(listing.replace('\r\n', '\r') if isinstance(listing, str) else listing)
            c4 = bytes(s3._impl.program.bytecode.getvalue())
        if c4[:self.prog_end(c4)] == code[:prog_end] and c3[:self.prog_end(c3)] != code[:prog_end]:
            return 'ASCII SAVE/LOAD changed a program whose listing re-enters identically'
        if c4[:self.prog_end(c4)] == code[:prog_end] and l3 != listing:
            return 'LIST after ASCII SAVE/LOAD differs from the original listing although the listing re-enters as the same program'
        if files['TB.BAS'] is not None:
            if self.__dict__.get('_ts') is None:
                d0 = common.tmpdir('c15s')
                try:
                    with common.new_session(devices={'C': d0}, current_device='C:') as s0:
                        s0.execute('1 REM')
                        s0.execute('SAVE "TS"')
                    self._ts = open(os.path.join(d0, 'TS.BAS'), 'rb').read()
                finally:
                    common.rmtree(d0)
            if files['TS.BAS'] != self._ts:
                return ('after NEW in a session with history, SAVE of the one-line program 1 REM wrote %r, a fresh session writes %r'
                        % (files['TS.BAS'][:40] if files['TS.BAS'] else None, self._ts))
            # K15a: a tokenised LOAD keeps the end-of-file marker, so a re-saved file may end in one more 1A
            for a, b in (('TB.BAS', 'TB2.BAS'), ('TP.BAS', 'TP2.BAS')):
                fa, fb2 = files[a], files[b]
                if fa is None or fb2 is None:
                    continue
                if not (fb2 == fa or (len(fb2) == len(fa) + 1 and fb2[:len(fa) - 1] == fa[:-1])):
                    return ('LOAD "%s" in the session that saved it, then SAVE again: %d bytes, the original file has %d bytes'
                            % (a[:2], len(fb2), len(fa)))
        tight = loaded.get('TIGHT')
        if tight is not None and c4[:self.prog_end(c4)] == code[:prog_end]:
            before, after, out6, free6 = tight
            if after[:self.prog_end(after)] != before[:self.prog_end(before)] or (out6 and 'memory' in str(out6)):
                return ('MERGE of the saved ASCII file over the same program with %s bytes free changed the program or failed: %r'
                        % (free6, out6))
        conv = loaded.get('CONV') or {}
        same = c4[:self.prog_end(c4)] == code[:prog_end]
        want = {('TB.BAS', 'a'): files['TA.BAS'], ('TB.BAS', 'p'): files['TP.BAS'], ('TP.BAS', 'b'): files['TB.BAS'],
                ('TP.BAS', 'a'): files['TA.BAS'], ('TA.BAS', 'b'): files['TB.BAS'] if same else None}
        for key, got in conv.items():
            if isinstance(got, str):
                return 'command-line converter %s -> %s: %s' % (key[0], key[1], got)
            exp = want.get(key)
            if exp is not None and got != exp:
                tag = 'K15a: ' if (key[0] == 'TB.BAS' and got is not None and len(got) == len(exp) + 1) else ''
                return (tag + 'command-line converter %s --convert=%s wrote %d bytes that differ from what SAVE wrote in a session '
                        '(%d bytes)' % (key[0], key[1], len(got or b''), len(exp)))
        cm = loaded.get('MERGE')
        if cm is not None and c4[:self.prog_end(c4)] == code[:prog_end] and cm[:self.prog_end(cm)] != code[:prog_end]:
            return 'MERGE of the ASCII file into an empty program does not restore a program whose listing re-enters identically'
        return None

    @staticmethod
    def prog_end(code):
        """offset just past the 00 00 00 terminator found by following the line links is not needed:
        the stored stream ends at its current position; compare up to the first triple zero at a line start."""
        pos = 0
        # walk lines: 00 | link(2) | num(2) | body ... 00
        while pos + 3 <= len(code):
            if code[pos + 1:pos + 3] == b'\0\0':
                return pos + 3
            nxt = code.find(b'\0', pos + 5)
            if nxt < 0:
                return len(code)
            pos = nxt
        return len(code)


CHECK = C15
