"""C10 - String variables keep their values through any memory history."""
from vlib import core
from harness import StrSpace_lang as L


def P(st):
    return {'d': 0, 's': st}


def D(st):
    return {'d': 1, 's': st}


def lit(s):
    return ['lit', s]


def sv(n):
    return ['sv', n]


def cat(*es):
    e = es[0]
    for x in es[1:]:
        e = ['cat', e, x]
    return e


FRE_S = ['fre', lit('')]

# witnesses of the defects found with this check (all fail on the unfixed tree, see fixes/D*.md)
W_D16 = {'steps': [D(['let', sv('A$'), ['left', cat(lit('abc'), lit('defghijkl')), ['num', 0, '%']]]),
                   D(['let', sv('Q!'), FRE_S]),
                   D(['let', sv('A$'), ['left', cat(lit('abc'), lit('defghijkl')), ['num', 0, '%']]]),
                   D(['let', sv('Q!'), FRE_S]),
                   D(['clear', None]),
                   D(['let', sv('Q!'), FRE_S])]}
W_D15 = {'steps': [P(['def', 'A$', ['X$'], cat(['left', cat(sv('X$'), sv('X$'), sv('X$')), ['num', 3, '%']],
                                                ['str', FRE_S])]),
                   P(['let', sv('X$'), cat(lit('glob'), lit('al'))]),
                   P(['let', sv('C$'), ['fn', 'A$', [lit('arg')]]]),
                   P(['let', sv('B$'), sv('X$')])]}
W_D10A = {'steps': [D(['let', sv('A$'), cat(lit('ab'), ['str', FRE_S])]), D(['let', sv('B$'), sv('A$')])]}
W_D10B = {'steps': [D(['let', sv('A$'), cat(lit('abcdefghij'), lit('k'))]),
                    D(['let', sv('B$'), cat(['par', cat(sv('A$'), sv('A$'))], ['chr', ['num', 300, '%']])]),
                    D(['let', sv('Q!'), FRE_S])]}
W_D10C = {'steps': [D(['clear', 150]),
                    P(['let', sv('A$'), lit('abcdefghijklmnopqrst')]),
                    D(['let', sv('B$'), lit('x')]), D(['let', sv('C$'), lit('y')])] +
          [P(['let', sv('X$'), cat(sv('B$'), sv('C$'), sv('B$'), sv('C$'), sv('B$'))]) for _ in range(7)] +
          [P(['let', sv('X$'), lit('')]),
           P(['midset', sv('A$'), ['num', 2, '%'], None, cat(sv('B$'), sv('C$'))]),
           P(['let', sv('Y$'), sv('A$')])]}
W_D10D_ALIAS = {'steps': [P(['def', 'P!', ['X$'], ['cat', ['len', sv('X$')], FRE_S]]),
                          P(['let', sv('B$'), cat(lit('abc'), lit('def'))]),
                          P(['let', sv('Q!'), ['fn', 'P!', [sv('B$')]]]),
                          P(['let', sv('C$'), sv('B$')])]}
W_D10D_OVERFLOW = {'steps': [D(['clear', 320]),
                             D(['let', sv('A$'), ['string', ['num', 200, '%'], lit('a')]]),
                             D(['let', sv('B$'), cat(sv('A$'), ['left', sv('A$'), ['num', 150, '%']])]),
                             D(['let', sv('C$'), sv('A$')]),
                             D(['let', sv('Q!'), FRE_S]),
                             D(['let', sv('C$'), sv('A$')])]}
W_RECURSION = {'steps': [P(['def', 'A$', ['X$'], ['fn', 'A$', [cat(sv('X$'), lit('a'))]]]),
                         P(['let', sv('C$'), ['fn', 'A$', [cat(lit('b'), lit('c'))]]]),
                         P(['let', sv('Q!'), FRE_S])]}
# console INPUT: the typed strings must stay rooted until all variables have been assigned (creating the first
# variable collects garbage when memory is nearly exhausted)
def input_case(k, n, words, names=('X$', 'Y$', 'C$'), lvs=None):
    lvs = lvs or [sv(nm) for nm in names[:len(words)]]
    return {'steps': [D(['clear', k]), D(['let', sv('B$'), lit('x')]), D(['let', sv('A$'), lit('y')])] +
            [P(['let', sv('A$'), cat(sv('B$'), sv('A$'), sv('B$'))]) for _ in range(n)] +
            [P(['let', sv('A$'), lit('')]), P(['input', lvs, list(words)])] +
            [P(['let', sv('A$'), l]) for l in lvs] + [P(['let', sv('Q!'), FRE_S])] + [P(['let', sv('A$'), l]) for l in lvs]}


W_INPUT = {'steps': [D(['clear', 39]), D(['let', sv('B$'), lit('x')]), D(['let', sv('C$'), lit('y')]),
                     P(['let', sv('A$'), cat(sv('B$'), sv('C$'), sv('B$'), sv('C$'), sv('B$'))]),
                     P(['let', sv('A$'), lit('')]), P(['input', [sv('X$'), sv('Y$')], ['abcdefgh', 'ijkl']]),
                     P(['let', sv('A$'), sv('Y$')]), P(['let', sv('Q!'), FRE_S]), P(['let', sv('A$'), sv('Y$')])]}
# D10e: INPUT (also READ, LINE INPUT, INPUT#) into an element of an array that does not exist yet: Arrays.set took the
# value's pointer before view_buffer dimensioned the array; when that collected garbage the element got the old address
W_D10E = {'steps': [D(['clear', 110]), P(['let', sv('A$'), cat(lit('q' * 60), sv('B$'))]), P(['let', sv('A$'), lit('')]),
                    P(['input', [['av', 'S$', 5]], ['hello']]), P(['let', sv('B$'), ['av', 'S$', 5]])]}
# seeded C10f: SWAP read the first operand's pointer before the second operand's array was dimensioned (which collects)
W_SWAPGC = {'steps': [D(['clear', 105]), P(['let', sv('C$'), cat(lit('q' * 50), sv('B$'))]),
                      P(['let', sv('X$'), cat(lit('hell'), lit('o'))]), P(['let', sv('C$'), lit('')]),
                      P(['swap', sv('X$'), ['av', 'S$', 5]]), P(['let', sv('B$'), ['av', 'S$', 5]]),
                      P(['let', sv('Q!'), FRE_S]), P(['let', sv('A$'), ['av', 'S$', 5]])]}


def pressure_case(rng):
    """first touch of a not yet dimensioned array (implicit DIM of 11 elements = 42 bytes) by every kind of statement,
    with free memory around that size, live strings low in string space and garbage above them, so that the
    dimensioning collects and moves the strings the statement is working on"""
    glen = rng.choice([30, 40, 50, 60])
    live = [(nm, rng.choice([1, 3, 5, 9])) for nm in rng.sample(['X$', 'Y$', 'A$', 'B$'], rng.choice([1, 2, 3]))]
    # free after the set-up = k - scalars (7 each: C$ + live) - live bytes; aim at 42 +- 12 before the collection
    used = 7 * (1 + len(live)) + glen + 1 + sum(n + 1 for _, n in live)
    k = used + 42 + rng.choice([-12, -6, -3, -1, 0, 0, 1, 2, 5, 12])
    steps = [D(['clear', max(k, 30)]), P(['let', sv('C$'), cat(lit('q' * glen), lit('r'))])]
    steps += [P(['let', sv(nm), cat(lit(nm[0].lower() * n), lit('.'))]) for nm, n in live]
    arr = rng.choice(['S$', 'T$'])
    if rng.random() < 0.3:
        # dimensioned, used and erased again: the next touch dimensions it once more
        steps.insert(1, P(['dim', arr, rng.choice([1, 3])]))
        steps.append(P(['erase', arr]))
    steps.append(P(['let', sv('C$'), lit('')]))
    el = ['av', arr, rng.choice([0, 3, 5, 10])]
    v = sv(live[0][0])
    kind = rng.choice(['swap', 'swap', 'swapr', 'let', 'letcat', 'input', 'lset', 'mid', 'swapel'])
    direct = rng.random() < 0.25
    mk = D if direct else P
    if kind == 'swap':
        steps.append(mk(['swap', v, el]))
    elif kind == 'swapr':
        steps.append(mk(['swap', el, v]))
    elif kind == 'swapel':
        steps.append(mk(['swap', ['av', arr, 1], ['av', 'T$' if arr == 'S$' else 'S$', 2]]))
    elif kind == 'let':
        steps.append(mk(['let', el, v]))
    elif kind == 'letcat':
        steps.append(mk(['let', el, cat(v, lit('+'))]))
    elif kind == 'input':
        steps.append(mk(['input', [el, sv('C$')], ['typed', 'w']]))
    elif kind == 'lset':
        steps.append(mk(['lset', el, v]))
    else:
        steps.append(mk(['midset', el, ['num', 1, '%'], None, v]))
    # read everything back, before and after an explicit collection
    reads = [P(['let', sv('C$'), el])] + [P(['let', sv('C$'), sv(nm)]) for nm, _ in live]
    steps += reads + [P(['let', sv('Q!'), FRE_S])] + reads
    return {'steps': steps}


WITNESSES = [W_SWAPGC, W_D16, W_D15, W_D10A, W_D10B, W_D10C, W_D10D_ALIAS, W_D10D_OVERFLOW, W_RECURSION, W_INPUT, W_D10E]


class C10(core.Check):
    ID = 'C10'
    GEN = []
    PROPS = 'props/C10.v'
    MODEL_IMPORTS = ['model.StrSpace', 'model.UserFn']
    QUICK_CASES = 80
    THOROUGH_CASES = 1500
    TRUSTED = ['hand model model/StrSpace.v + model/UserFn.v of StringSpace / DataSegment / Scalars / Arrays / '
               'ExpressionParser.parse / UserFunction.evaluate, tied by correspondence on random histories through a '
               'real Session (state read from the interpreter internals after every step); printing of a history as '
               'BASIC text and as a Coq term (harness/StrSpace_lang.py); numbers are integer-valued in the model; '
               'var_start, code_start and the memory size are read from the Session and passed to the model; '
               'the order of temp_values (a Python set) is modelled as insertion order, so addresses of individual '
               'strings are not compared, only lengths, contents, current, _temp and free memory']
    PARTIAL = ('the statement-level invariant theorem covers every statement (LET, MID$=, LSET, RSET, SWAP, ERASE, DIM, '
               'CLEAR, DEF FN, DEFtype) except console INPUT; the refinement to an abstract variable map is proved only '
               'in its storage half (no value changes between assignments, stored pointers read back); compaction is '
               'stated per run of equal addresses of the sorted root list')
    RULE = ('histories of 5..300 statements (LET with string expressions, MID$/LSET/RSET, SWAP, ERASE, DIM, CLEAR[,n], '
            'FRE, DEF FN + calls) over 5 string scalars, 2 string arrays and 7 numeric scalars, CLEAR ,n leaving 30 '
            'bytes .. default; each step is a program line started with GOTO or a direct-mode line; after each step '
            'error code, current, _temp, free memory and a hash of all variables (kind, length, bytes), variable and '
            'array memory, left-over stacks/roots are compared with the model; oracle: Python dict reference '
            'semantics + FRE formula + Out of string space only when short. non-trivial = at least one string '
            'assignment succeeded; distinct by hash')
    histogram = None

    def __init__(self, tier, seed):
        core.Check.__init__(self, tier, seed)
        core.SHARD = 24          # histories are large Coq terms: smaller shards, evaluated in parallel
        self._runs = {}

    def corpus(self):
        return [dict(w) for w in WITNESSES] + [
            {'steps': []},
            {'steps': [D(['clear', 0]), D(['let', sv('A$'), lit('a')]), D(['let', sv('Q!'), FRE_S])]},
            {'steps': [P(['let', sv('A$'), lit('abc')]), P(['midset', sv('A$'), ['num', 2, '%'], None, sv('A$')]),
                       P(['lset', sv('A$'), lit('z')]), P(['swap', sv('A$'), ['av', 'S$', 3]]),
                       P(['erase', 'S$']), P(['let', sv('Q!'), FRE_S])]},
        ]

    def gen_cases(self, n):
        rng = self.rng
        out = []
        hist = {}
        for i in range(n):
            r = rng.random()
            if r < 0.03 and self.tier == 'thorough':
                ns = 300
            elif r < 0.15:
                ns = 120
            else:
                ns = rng.choice([5, 10, 20, 30, 60])
            if i % 6 == 2:
                out.append(pressure_case(rng))
                continue
            if i % 6 == 5:
                # INPUT of new variables at nearly exhausted string space with garbage present
                words = [''.join(rng.choice('abcdefgh0123') for _ in range(rng.choice([1, 2, 4, 8, 12])))
                         for _ in range(rng.choice([1, 2, 2, 3]))]
                if i % 12 == 11:
                    # ... into elements of arrays that do not exist yet (D10e): dimensioning them collects
                    pool = [['av', 'S$', rng.choice([0, 3, 5, 10])], ['av', 'T$', rng.choice([0, 2, 10])], sv('X$')]
                    rng.shuffle(pool)
                    out.append(input_case(rng.randrange(60, 220), rng.randrange(0, 9), words, lvs=pool[:len(words)]))
                    continue
                out.append(input_case(rng.randrange(25, 110), rng.randrange(0, 5), words))
                continue
            out.append(L.gen_history(rng, ns))
        for c in out:
            for s in c['steps']:
                k = s['s'][0] + ('/direct' if L.is_direct(s) else '')
                hist[k] = hist.get(k, 0) + 1
        self._hist = hist
        self.histogram = hist
        return out

    def _run(self, case):
        key = core.sha(case)
        if key not in self._runs:
            self._runs[key] = L.run_impl(case)
        return self._runs[key]

    def impl(self, case):
        res = self._run(case)
        h = self.histogram if self.histogram is not None else {}
        for t in res['steps']:
            k = 'err %d/%d' % tuple(t['err'])
            h[k] = h.get(k, 0) + 1
        self.histogram = h
        return L.encode_trace(res)

    def model_term(self, case):
        res = self._run(case)
        return L.model_term(case, res['cfg'], len(res['steps']))

    def oracle(self, case, out):
        return L.check_trace(case, self._run(case))

    def nontrivial(self, case, out):
        res = self._run(case)
        return any(t['err'] == [0, 0] and s['s'][0] in ('let', 'midset', 'lset', 'rset')
                   for s, t in zip(case['steps'], res['steps']))

    def describe(self, case):
        d = dict(case)
        try:
            vs = self._run(case)['cfg']['var_start']
            d['basic'] = [('' if L.is_direct(s) else '%d ' % (10 * i + 10)) + L.b_stmt(s['s'], vs)
                          for i, s in enumerate(case['steps'])][:400]
        except Exception:
            pass
        return d

    def undescribe(self, d):
        return {'steps': d['steps']}


CHECK = C10
