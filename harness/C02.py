"""C02 - Integer operators follow 16-bit two's-complement semantics."""
import importlib
from fractions import Fraction

from vlib import core
from harness import common

OPS = ['iadd', 'isub', 'ineg', 'iabs', 'intdiv', 'mod', 'not', 'and', 'or', 'xor', 'eqv', 'imp', 'gt', 'eq']
OP = dict((n, i) for i, n in enumerate(OPS))
UNARY = (OP['ineg'], OP['iabs'], OP['not'])
BASIC_OP = {'intdiv': '\\', 'mod': ' MOD ', 'and': ' AND ', 'or': ' OR ', 'xor': ' XOR ', 'eqv': ' EQV ',
            'imp': ' IMP '}
POS_MAX = int.from_bytes(b'\xff\xff\x7f\xff', 'little')
NEG_MAX = int.from_bytes(b'\xff\xff\xff\xff', 'little')

# boundary-dense pool of 16-bit patterns (unsigned view)
BOUND = sorted(set(
    [v & 0xffff for v in (0, 1, 2, 3, 7, 10, 100, 127, 128, 129, 255, 256, 257, 511, 512, 1000, 4095, 4096,
                          16383, 16384, 16385, 32765, 32766, 32767, -1, -2, -3, -7, -10, -100, -127, -128,
                          -129, -255, -256, -257, -512, -1000, -16383, -16384, -16385, -32766, -32767, -32768,
                          0x5555, 0xaaaa, 0x00ff, 0xff00, 0x0f0f, 0xf0f0, 0x7f00, 0x80ff, 0x8001, 0x7ffe)]))


def signed(p):
    return p - 65536 if p >= 32768 else p


def pat(v):
    return v & 0xffff


def in16(z):
    return -32768 <= z <= 32767


def enc(z):
    u = z & 0xffff
    return [u & 0xff, u >> 8]


def mbf_value(b):
    """Exact value of an MBF single (4 bytes) / double (8 bytes)."""
    b = bytes(b)
    exp = b[-1]
    if exp == 0:
        return Fraction(0)
    nb = 8 * (len(b) - 1)
    man = int.from_bytes(b[:-1], 'little')
    neg = bool(man >> (nb - 1) & 1)
    man |= 1 << (nb - 1)
    v = Fraction(man) * Fraction(2) ** (exp - 128 - nb)
    return -v if neg else v


def mbf_encode(v, size=4):
    """Bytes of the MBF single/double equal to the dyadic rational v (must be exactly representable)."""
    v = Fraction(v)
    if v == 0:
        return [0] * size
    nb = 8 * (size - 1)
    neg = v < 0
    a = abs(v)
    e = 0
    while a >= 1:
        a /= 2
        e += 1
    while a < Fraction(1, 2):
        a *= 2
        e -= 1
    man = a * 2 ** nb
    assert man.denominator == 1 and 0 < e + 128 < 256, v
    man = int(man) & ((1 << (nb - 1)) - 1)
    if neg:
        man |= 1 << (nb - 1)
    return list(man.to_bytes(size - 1, 'little')) + [e + 128]


def cint_ref(v):
    """CINT: round to nearest, halves away from zero."""
    a = abs(v)
    n = (a + Fraction(1, 2)).__floor__()
    return -n if v < 0 else n


class C02(core.Check):
    ID = 'C02'
    GEN = ['gen_int16']
    PROPS = 'props/C02.v'
    MODEL_IMPORTS = ['lib.Int16Prims', 'gen.Gen_int16', 'model.Int16']
    QUICK_CASES = 1
    THOROUGH_CASES = 1
    TRUSTED = [
        'lib/Int16Prims.v: models of struct.pack_into/unpack("<h","<H"), bytearray([a,b]), 2-byte buffer comparison and '
        'Python dynamic dispatch of x.to_integer() (exercised by correspondence)',
        'model/Int16.v: hand model of values.float_safe + FloatErrorHandler.handle (soft/hard Division by zero) and '
        'of the counter update in Interpreter.iterate_loop, tied by correspondence (direct calls and BASIC programs)',
        'a float operand enters as Float.to_int() (CINT rounding is property C03); the harness checks it against an '
        'exact rational reference',
    ]
    RULE = ('grid cases: operator/method on all pairs xs x ys of 16-bit patterns (boundary-dense pool + random), '
            'called on real numbers.Integer objects / values.* functions with the real error handler in hard and '
            'soft mode; list cases: Integer/Single/Double/String operands (floats dense around +-32767.5, '
            '+-32768.5, 65535); for cases: real Interpreter.iterate_loop on a crafted FOR record; basic/forprog '
            'cases: PRINT a op b and FOR..NEXT programs through a real Session; forstack: real iterate_loop on FOR stacks '
            'with stale records of the same FOR / other loops / two variables; forhist: BASIC programs whose FOR is left '
            'with GOTO and entered again with other start/limit/step. thorough: all 65536 values for '
            'NOT/ineg/iabs, stratified grids for every binary operator. non-trivial = at least one non-error '
            'result in the case; distinct by hash of (case, output)')
    histogram = None

    # ------------------------------------------------------------------ real objects
    def sess(self):
        s = self.__dict__.get('_sess')
        if s is None:
            s = common.new_session()
            s.start()
            s.execute('I%=0')
            self._sess = s
            self._V = importlib.import_module('pcbasic.basic.values.values')
            self._N = importlib.import_module('pcbasic.basic.values.numbers')
            self._E = importlib.import_module('pcbasic.basic.base.error')
            self._handler = s._impl.values.error_handler
            self._real_console = self._handler._console
        return s

    class _Console(object):
        def __init__(self):
            self.lines = []

        def write_line(self, msg=b''):
            self.lines.append(bytes(msg))

    def mk(self, o):
        vals = self.sess()._impl.values
        if o[0] == 0:
            return vals.new_integer().from_bytes(bytes([o[1] & 0xff, o[1] >> 8]))
        if o[0] == 1:
            b = bytes(o[1])
            return (vals.new_single() if len(b) == 4 else vals.new_double()).from_bytes(b)
        return vals.new_string()

    def result(self, r, con):
        N = self._N
        if isinstance(r, bool):
            return [int(r)]
        if isinstance(r, N.Integer):
            return [0] + list(r.to_bytes())
        if isinstance(r, N.Single) and con is not None and len(con.lines) == 1:
            for n in (6, 11):
                if self._E.BASICError(n).message == con.lines[0]:
                    return [4, n, int.from_bytes(bytes(r.to_bytes()), 'little')]
        return [2, 9]

    def call(self, op, hard, x, y):
        """one operation on real objects -> canonical list"""
        V = self._V
        con = self._Console()
        h = self._handler
        h._console = con
        h._do_raise = bool(hard)
        try:
            try:
                if op == 0:
                    r = x.clone().iadd(y)
                elif op == 1:
                    r = x.clone().isub(y)
                elif op == 2:
                    r = x.clone().ineg()
                elif op == 3:
                    r = x.clone().iabs()
                elif op == 4:
                    r = V.intdiv(x, y)
                elif op == 5:
                    r = V.mod_(x, y)
                elif op == 6:
                    r = V.not_(x)
                elif op == 7:
                    r = V.and_(x, y)
                elif op == 8:
                    r = V.or_(x, y)
                elif op == 9:
                    r = V.xor_(x, y)
                elif op == 10:
                    r = V.eqv_(x, y)
                elif op == 11:
                    r = V.imp_(x, y)
                elif op == 12:
                    r = x.gt(y)
                elif op == 13:
                    r = x.eq(y)
                else:
                    raise ValueError(op)
            except Exception as e:
                return common.canon_exc(e)
            return self.result(r, con)
        finally:
            h._console = self._real_console
            h._do_raise = False

    # ------------------------------------------------------------------ cases
    def corpus(self):
        m = 0x8000
        return [
            # D02a: negative overflow of iadd / the FOR counter
            {'k': 'grid', 'op': OP['iadd'], 'hard': 1, 'xs': [m, 0x8001, 0xffff, 0x7fff, 0], 'ys': [0xffff, m, 1, 0x7fff]},
            {'k': 'for', 'q': [[m, 0xffff, m, -1], [0x7fff, 1, 0x7fff, 1], [0x7ffe, 1, 0x7fff, 1], [m + 1, 0xffff, m, -1]]},
            {'k': 'forprog', 'q': [[-32768, -1, -32768], [32767, 1, 32767], [32766, 1, 32767], [-32767, -1, -32768]]},
            # seeded C02d: a FOR left with GOTO and entered again with another STEP/limit - NEXT must use the
            # step of the loop that is running (newest record), not a stale one
            {'k': 'forhist', 'q': [[[1, 20003, 20000, 0], [20000, 20003, 1, 0]],
                                   [[1, 20005, 1, 0], [20000, 20005, 20000, 0]],
                                   [[1, 100, 7, 0], [10, 1, -3, 0]],
                                   [[1, 5, 1, 2], [32760, 32767, 5, 1], [-5, -32768, -32000, 0]]]},
            {'k': 'forstack', 'q': [[[[0, 20003, 20000, 1, 1], [0, 20003, 1, 1, 1]], -1, 20000, 0],
                                    [[[0, 20005, 1, 1, 1], [0, 20005, 20000, 1, 1]], -1, 20000, 0],
                                    [[[0, 100, 7, 1, 1], [1, 9, 1, 1, 0], [0, 1, 65533, -1, 1], [1, 5, 1, 1, 0]], 0, 10, 3],
                                    [[[0, 5, 1, 1, 0]], -1, 1, 1], [[[0, 5, 1, 1, 1]], 1, 1, 1]]},
            # D02b: IMP with a string on the right
            {'k': 'list', 'op': OP['imp'], 'hard': 1, 'p': [[[0, 1], [2]], [[2], [0, 1]], [[2], [2]]]},
            {'k': 'basic', 'hard': 0, 'e': [['imp', ['n', 1], ['s']], ['and', ['n', 1], ['s']], ['imp', ['s'], ['n', 1]]]},
            # boundary cases of the statement
            {'k': 'grid', 'op': OP['intdiv'], 'hard': 1, 'xs': [m, 0x7fff, 0, 0xfff9, 7], 'ys': [0xffff, 1, 0, 2, 0xfffe, m]},
            {'k': 'grid', 'op': OP['intdiv'], 'hard': 0, 'xs': [m, 0x7fff, 0, 0xfff9, 7], 'ys': [0, 0xffff]},
            {'k': 'grid', 'op': OP['mod'], 'hard': 1, 'xs': [m, 0x7fff, 0, 0xfff9, 7], 'ys': [0xffff, 1, 0, 2, 0xfffe, m]},
            {'k': 'grid', 'op': OP['mod'], 'hard': 0, 'xs': [m, 0xfff9, 7], 'ys': [0, 3]},
            {'k': 'grid', 'op': OP['isub'], 'hard': 1, 'xs': [m, 0xffff, 0, 0x7fff], 'ys': [m, 0xffff, 1, 0x7fff]},
            {'k': 'grid', 'op': OP['ineg'], 'hard': 1, 'xs': [m, 0x8001, 0, 1, 0xffff, 0x7fff, 0x100, 0xff00], 'ys': [0]},
            {'k': 'grid', 'op': OP['not'], 'hard': 1, 'xs': [m, 0, 0xffff, 0x7fff, 0x5555], 'ys': [0]},
            {'k': 'basic', 'hard': 0, 'e': [['intdiv', ['f', '-32768'], ['f', '-1']], ['mod', ['f', '-32768'], ['f', '-1']],
                                            ['intdiv', ['n', 5], ['n', 0]], ['intdiv', ['f', '-5'], ['n', 0]],
                                            ['mod', ['v', -5], ['v', 0]], ['and', ['f', '40000'], ['n', 1]],
                                            ['and', ['h', 0xffff], ['n', 1]], ['or', ['f', '32767.5'], ['n', 0]],
                                            ['or', ['f', '32767.25'], ['n', 0]], ['xor', ['f', '-32768.5'], ['n', 0]],
                                            ['eqv', ['f', '-32768.25'], ['n', 0]], ['intdiv', ['f', '7.5'], ['n', 2]],
                                            ['not', ['f', '40000'], None], ['not', ['v', -32768], None]]},
            {'k': 'basic', 'hard': 1, 'e': [['intdiv', ['v', 5], ['v', 0]], ['mod', ['v', -5], ['v', 0]],
                                            ['intdiv', ['v', -32768], ['v', -1]]]},
        ]

    def rpat(self):
        rng = self.rng
        r = rng.random()
        if r < 0.55:
            return rng.choice(BOUND)
        if r < 0.7:
            return pat(rng.randrange(-300, 300))
        if r < 0.8:
            return pat(rng.choice([-32768, 32767]) + rng.randrange(-300, 300))
        return rng.randrange(65536)

    def rfloat(self):
        """bytes of an MBF single/double, dense around the conversion boundaries"""
        rng = self.rng
        size = 4 if rng.random() < 0.7 else 8
        r = rng.random()
        if r < 0.5:
            base = rng.choice([32767, -32768, 32768, -32769, 65535, 65536, 0, 1, -1, 40000, -40000, 16384])
            frac = Fraction(rng.choice([0, 1, 2, 63, 64, 65, 127, 128, 129, 191, 192, 255, -1, -127, -128, -129]), 256)
            try:
                return mbf_encode(base + frac, size)
            except AssertionError:
                return mbf_encode(base + frac, 8)
        if r < 0.75:
            b = [rng.randrange(256) for _ in range(size - 1)] + [128 + rng.randrange(10, 20)]
            return b
        if r < 0.9:
            return mbf_encode(Fraction(rng.randrange(-70000 * 4, 70000 * 4), 4), size)
        return [rng.randrange(256) for _ in range(size)]

    def roperand(self, pf=0.35, ps=0.06):
        r = self.rng.random()
        if r < ps:
            return [2]
        if r < ps + pf:
            return [1, self.rfloat()]
        return [0, self.rpat()]

    def gen_cases(self, n):
        rng = self.rng
        thorough = self.tier == 'thorough'
        out = []
        hist = dict((o, 0) for o in OPS)
        hist.update({'for_direct': 0, 'basic_expr': 0, 'for_program': 0, 'float_operands': 0, 'string_operands': 0})
        G = 24
        ngrid = 60 if thorough else 3
        for op, name in enumerate(OPS):
            for hard in (1, 0):
                if hard == 0 and name not in ('intdiv', 'mod'):
                    continue
                if op in UNARY:
                    if thorough:
                        for a in range(0, 65536, 512):
                            out.append({'k': 'grid', 'op': op, 'hard': hard, 'xs': list(range(a, a + 512)), 'ys': [0]})
                            hist[name] += 512
                    else:
                        xs = BOUND + [self.rpat() for _ in range(400)]
                        out.append({'k': 'grid', 'op': op, 'hard': hard, 'xs': xs, 'ys': [0]})
                        hist[name] += len(xs)
                    continue
                k = ngrid if hard else max(1, ngrid // 3)
                # the full boundary pool against itself, once
                out.append({'k': 'grid', 'op': op, 'hard': hard, 'xs': BOUND, 'ys': BOUND})
                hist[name] += len(BOUND) ** 2
                for i in range(k):
                    if thorough and i % 3 == 0:
                        # stratified: one value from each of G equal strata of the 16-bit range
                        xs = [j * (65536 // G) + rng.randrange(65536 // G) for j in range(G)]
                        ys = [j * (65536 // G) + rng.randrange(65536 // G) for j in range(G)]
                    else:
                        xs = [self.rpat() for _ in range(G)]
                        ys = [self.rpat() for _ in range(G)]
                    if name in ('intdiv', 'mod') and rng.random() < 0.5:
                        ys[0] = 0
                        ys[1] = 0xffff
                    out.append({'k': 'grid', 'op': op, 'hard': hard, 'xs': xs, 'ys': ys})
                    hist[name] += G * G
        # mixed operands (float / string / integer) for the values.* operators
        nlist = 120 if thorough else 12
        for i in range(nlist):
            op = rng.choice([4, 5, 6, 7, 8, 9, 10, 11])
            p = []
            for _ in range(100):
                l, r = self.roperand(), self.roperand()
                p.append([l, r])
                hist['float_operands'] += (l[0] == 1) + (r[0] == 1)
                hist['string_operands'] += (l[0] == 2) + (r[0] == 2)
            out.append({'k': 'list', 'op': op, 'hard': rng.randrange(2), 'p': p})
            hist[OPS[op]] += 100
        # FOR counter: real iterate_loop
        nfor = 60 if thorough else 6
        for i in range(nfor):
            q = []
            for _ in range(150):
                c, st = self.rpat(), self.rpat()
                if rng.random() < 0.5:
                    st = pat(rng.choice([1, -1, 2, -2, 3, 100, -100, 255, 256, -256, 32767, -32768]))
                stop = self.rpat() if rng.random() < 0.6 else pat(signed(c) + signed(st) + rng.randrange(-2, 3))
                s = signed(st)
                sgn = (s > 0) - (s < 0) if rng.random() < 0.9 else rng.choice([-1, 0, 1])
                q.append([c, st, stop, sgn])
            out.append({'k': 'for', 'q': q})
            hist['for_direct'] += 150
        # through a Session: PRINT a op b
        nb = 100 if thorough else 14
        for i in range(nb):
            e = []
            hard = 1 if i % 4 == 3 else 0
            for _ in range(40 if not hard else 25):
                name = rng.choice(['intdiv', 'mod', 'and', 'or', 'xor', 'eqv', 'imp', 'not'])
                l = self.basic_operand()
                r = self.basic_operand() if name != 'not' else None
                if name in ('intdiv', 'mod') and rng.random() < 0.15:
                    r = ['n', 0]
                e.append([name, l, r])
            out.append({'k': 'basic', 'hard': hard, 'e': e})
            hist['basic_expr'] += len(e)
        nfp = 20 if thorough else 3
        for i in range(nfp):
            q = []
            for _ in range(25):
                st = rng.choice([1, -1, 2, -2, 3, -3, 100, -100, 256, -256, 32767, -32768, rng.randrange(1, 32768),
                                 -rng.randrange(1, 32769)])
                c = signed(self.rpat())
                if rng.random() < 0.5:
                    c = (32767 if st > 0 else -32768) - st + rng.randrange(-2, 3)
                    c = max(-32768, min(32767, c))
                stop = signed(self.rpat()) if rng.random() < 0.5 else max(-32768, min(32767, c + st + rng.randrange(-1, 2)))
                q.append([c, st, stop])
            out.append({'k': 'forprog', 'q': q})
            hist['for_program'] += 25
        # which record a NEXT uses: real iterate_loop on stacks holding stale records of the same FOR (loops left
        # by GOTO and entered again), records of other loops, two variables, named and bare NEXT
        nfs = 40 if thorough else 5
        hist['for_stack_direct'] = 0
        hist['for_stack_stale_records'] = 0
        for i in range(nfs):
            q = []
            for _ in range(60):
                recs = []
                for _ in range(rng.choice([1, 2, 2, 3, 3, 4, 5])):
                    st = pat(rng.choice([1, -1, 2, -3, 7, 100, -100, 20000, -20000, 32767, -32768, signed(self.rpat())]))
                    sg = signed(st)
                    recs.append([rng.choice([0, 0, 0, 1]), self.rpat(), st, (sg > 0) - (sg < 0),
                                 1 if rng.random() < 0.7 else 0])
                nm = sum(r[4] for r in recs)
                hist['for_stack_stale_records'] += max(0, nm - 1)
                q.append([recs, rng.choice([-1, -1, -1, 0, 1]), self.rpat(), self.rpat()])
            out.append({'k': 'forstack', 'q': q})
            hist['for_stack_direct'] += 60
        # the same through BASIC programs: one FOR statement entered several times with different start/limit/step
        nfh = 24 if thorough else 4
        hist['for_reentered_programs'] = 0
        for i in range(nfh):
            q = []
            for _ in range(12):
                q.append(self.rhist())
            out.append({'k': 'forhist', 'q': q})
            hist['for_reentered_programs'] += 12
        self.histogram = hist
        return out

    def rhist(self):
        """entries (start, limit, step, passes before leaving) of a re-entered FOR; every loop is non-empty"""
        rng = self.rng
        es = []
        for _ in range(rng.choice([1, 2, 2, 2, 3, 3, 4])):
            st = rng.choice([1, -1, 2, -3, 5, 7, 100, -100, 20000, -20000, 32767, -32768,
                             rng.randrange(1, 32768), -rng.randrange(1, 32769)])
            r = rng.random()
            if r < 0.4:
                # near the end of the range in the direction of travel: Overflow or a close finish
                edge = 32767 if st > 0 else -32768
                a = edge - st * rng.randrange(0, 4) - (rng.randrange(0, 3) if st > 0 else -rng.randrange(0, 3))
            elif r < 0.7:
                a = rng.choice([1, 0, -1, 10, 20000, -20000, 100])
            else:
                a = signed(self.rpat())
            a = max(-32768, min(32767, a))
            r = rng.random()
            if r < 0.35:
                b = 32767 if st > 0 else -32768
            else:
                b = a + st * rng.randrange(0, 9) + rng.randrange(-1, 2)
            b = max(-32768, min(32767, b))
            if (st > 0 and b < a) or (st < 0 and b > a):
                b = a
            es.append([a, b, st, rng.choice([0, 0, 1, 2])])
        return es

    def basic_operand(self):
        rng = self.rng
        r = rng.random()
        if r < 0.4:
            return ['v', signed(self.rpat())]
        if r < 0.5:
            return ['h', self.rpat()]
        if r < 0.6:
            return ['n', self.rpat() & 0x7fff]
        if r < 0.95:
            base = rng.choice([32767, -32768, 32768, -32769, 65535, 65536, 0, 5, -5, 40000, -40000, 100000,
                               signed(self.rpat())])
            frac = rng.choice(['', '', '.5', '.25', '.75', '.125'])
            if base < 0:
                return ['f', '-%d%s' % (-base, frac)]
            if frac == '' and base <= 32767:
                return ['n', base]
            return ['f', '%d%s' % (base, frac)]
        return ['s']

    # ------------------------------------------------------------------ implementation
    def impl(self, case):
        self.sess()
        k = case['k']
        with core.time_limit(120):
            if k == 'grid':
                op, hard = case['op'], case['hard']
                ys = [self.mk([0, y]) for y in case['ys']]
                out = []
                for x in case['xs']:
                    xo = self.mk([0, x])
                    for yo in ys:
                        out += self.call(op, hard, xo, yo)
                return out
            if k == 'list':
                out = []
                for l, r in case['p']:
                    out += self.call(case['op'], case['hard'], self.mk(l), self.mk(r))
                return out
            if k == 'for':
                return self.impl_for(case)
            if k == 'basic':
                return self.impl_basic(case)
            if k == 'forprog':
                return self.impl_forprog(case)
            if k == 'forstack':
                return self.impl_forstack(case)
            if k == 'forhist':
                return self.impl_forhist(case)
        raise ValueError(k)

    def impl_forstack(self, case):
        """real Interpreter.iterate_loop on a FOR stack with several records"""
        s = self.sess()
        it = s._impl.interpreter
        names = [b'I%', b'J%']
        if not self.__dict__.get('_jdef'):
            s.execute('J%=0')
            self._jdef = True
        out = []
        for recs, vname, c0, c1 in case['q']:
            for nm, c in zip(names, (c0, c1)):
                s._impl.scalars.view(nm).from_bytes(bytes([c & 0xff, c >> 8]))
            pos = it.get_codestream().tell()
            it.for_stack = [(names[v], self.mk([0, stop]), self.mk([0, st]), sgn, pos, pos if match else pos + 1000 + j)
                            for j, (v, stop, st, sgn, match) in enumerate(recs)]
            before = [bytes(s._impl.scalars.view(nm).to_bytes()) for nm in names]
            try:
                cont = it.iterate_loop(None if vname < 0 else names[vname])
                after = [bytes(s._impl.scalars.view(nm).to_bytes()) for nm in names]
                changed = [j for j in (0, 1) if after[j] != before[j]]
                # the variable of the record used: the one that changed, else the top record's
                top = it.for_stack[-1][0] if (cont and it.for_stack) else None
                if len(changed) == 1:
                    v = changed[0]
                elif len(changed) == 0:
                    v = names.index(top) if top is not None else self._unchanged_var(recs, vname)
                else:
                    out += [2, 15]
                    continue
                out += [0, v] + list(after[v]) + [0 if cont else 1, len(it.for_stack)]
            except Exception as e:
                out += common.canon_exc(e)
            finally:
                it.for_stack = []
        return out

    @staticmethod
    def _unchanged_var(recs, vname):
        # step 0 and the loop ended: the record is gone; name the variable of the newest matching record
        for v, stop, st, sgn, match in reversed(recs):
            if match:
                return v
        return 0

    FORHIST = ('10 ON ERROR GOTO 90\r30 READ A%,B%,S%,Q%:K%=K%+1:P%=0\r40 FOR I%=A% TO B% STEP S%\r'
               '50 IF K%<N% THEN P%=P%+1:IF P%>Q% THEN 30\r'
               '55 IF K%=N% THEN PRINT I%;:M%=M%+1:IF M%>=6 THEN PRINT "M":END\r60 NEXT\r'
               '70 PRINT "E";I%:END\r90 PRINT "X";ERR;I%:END')

    def impl_forhist(self, case):
        """one FOR statement executed once per entry (left with GOTO, entered again), observed by its printout"""
        import re
        s = self.basic_session(True)
        s.execute('NEW')
        s.execute(self.FORHIST)
        out = []
        for es in case['q']:
            try:
                s.execute('20 K%%=0:M%%=0:N%%=%d' % len(es))
                s.execute('100 DATA ' + ','.join('%d,%d,%d,%d' % tuple(e) for e in es))
                text = s.execute('RUN')
                if isinstance(text, bytes):
                    text = text.decode('latin-1')
                toks = re.findall(r'[A-Za-z]+|-?\d+', text)
                code = {'M': 1000001, 'E': 1000002, 'X': 1000003}
                for t in toks:
                    if t in code:
                        out.append(code[t])
                    elif re.match(r'-?\d+$', t):
                        out.append(int(t))
                    else:
                        out.append(1000005)
                out.append(1000000)
            except Exception as e:
                out += common.canon_exc(e) + [1000000]
                self.drop_session(True)
                s = self.basic_session(True)
                s.execute(self.FORHIST)
        s.execute('NEW')
        return out

    def impl_for(self, case):
        s = self.sess()
        it = s._impl.interpreter
        out = []
        for c, st, stop, sgn in case['q']:
            view = s._impl.scalars.view(b'I%')
            view.from_bytes(bytes([c & 0xff, c >> 8]))
            pos = it.get_codestream().tell()
            it.for_stack = [(b'I%', self.mk([0, stop]), self.mk([0, st]), sgn, pos, pos)]
            try:
                cont = it.iterate_loop()
                b = list(s._impl.scalars.view(b'I%').to_bytes())
                out += [0] + b + [0 if cont else 1]
            except Exception as e:
                out += common.canon_exc(e)
                # Overflow must leave the counter unchanged
                b = list(s._impl.scalars.view(b'I%').to_bytes())
                if b != [c & 0xff, c >> 8]:
                    out += [77] + b
            finally:
                it.for_stack = []
        return out

    @staticmethod
    def operand_text(o, var):
        if o[0] == 'v':
            return var
        if o[0] == 'h':
            return '&H%X' % o[1]
        if o[0] == 'n':
            return '%d' % o[1]
        if o[0] == 'f':
            return o[1]
        return '"A"'

    def basic_session(self, trap=False):
        # programs with ON ERROR GOTO leave the float error handler in raising mode (RUN/NEW do not reset it),
        # so they get a session of their own
        key = '_sess3' if trap else '_sess2'
        s2 = self.__dict__.get(key)
        if s2 is None:
            s2 = common.new_session()
            s2.start()
            self.__dict__[key] = s2
        return s2

    def drop_session(self, trap):
        self.__dict__['_sess3' if trap else '_sess2'] = None

    def parse_print(self, text):
        """output of PRINT expr -> canonical result"""
        E = importlib.import_module('pcbasic.basic.base.error')
        t = text.replace('\r\n', '\n')
        lines = [l for l in t.split('\n') if l != '']
        msgs = {}
        for n in (6, 11, 13):
            msgs[E.BASICError(n).message.decode('latin-1')] = n
        if not lines:
            return [2, 10]
        first = lines[0].rstrip('\xa0\xff ').strip()
        if first.startswith('ERR'):
            return [1, int(first[3:])]
        if first in msgs:
            n = msgs[first]
            if len(lines) == 1:
                return [1, n]
            val = lines[1].strip()
            if val == '1.701412E+38':
                return [4, n, POS_MAX]
            if val == '-1.701412E+38':
                return [4, n, NEG_MAX]
            return [2, 11]
        try:
            v = int(first)
        except ValueError:
            return [2, 12]
        if len(lines) != 1 or not in16(v):
            return [2, 13]
        return [0] + enc(v)

    def impl_basic(self, case):
        trap = bool(case['hard'])
        s = self.basic_session(trap)
        out = []
        if case['hard']:
            s.execute('NEW')
            s.execute('10 ON ERROR GOTO 40\r30 END\r40 PRINT "ERR";ERR:RESUME 30')
        for name, l, r in case['e']:
            pre = []
            if l[0] == 'v':
                pre.append('A%%=%d' % l[1])
            if r is not None and r[0] == 'v':
                pre.append('B%%=%d' % r[1])
            if name == 'not':
                expr = 'NOT ' + self.operand_text(l, 'A%')
            else:
                expr = self.operand_text(l, 'A%') + BASIC_OP[name] + self.operand_text(r, 'B%')
            try:
                if case['hard']:
                    s.execute('20 ' + ':'.join(pre + ['PRINT ' + expr]))
                    text = s.execute('RUN')
                else:
                    text = s.execute(':'.join(pre + ['PRINT ' + expr]))
                if isinstance(text, bytes):
                    text = text.decode('latin-1')
                out += self.parse_print(text)
            except Exception as e:
                out += common.canon_exc(e)
                self.drop_session(trap)
                s = self.basic_session(trap)
                if case['hard']:
                    s.execute('10 ON ERROR GOTO 40\r30 END\r40 PRINT "ERR";ERR:RESUME 30')
        if case['hard']:
            s.execute('NEW')
        return out

    FORPROG = ('10 ON ERROR GOTO 70\r20 F%=0\r30 FOR I%=B% TO B% STEP S%\r40 IF F%=1 THEN PRINT "C";I%:END\r'
               '45 F%=1:I%=C%\r50 NEXT\r60 PRINT "E";I%:END\r70 PRINT "X";ERR;I%:END')

    def impl_forprog(self, case):
        """one NEXT from counter c with the given step and limit, observed through a BASIC program"""
        s = self.basic_session(True)
        s.execute('NEW')
        s.execute(self.FORPROG)
        out = []
        for c, st, stop in case['q']:
            try:
                s.execute('15 C%%=%d:S%%=%d:B%%=%d' % (c, st, stop))
                text = s.execute('RUN')
                if isinstance(text, bytes):
                    text = text.decode('latin-1')
                tag = text.strip()[:1]
                t = text.strip()[1:].split()
                if tag == 'C' and len(t) == 1:
                    out += [0] + enc(int(t[0])) + [0]
                elif tag == 'E' and len(t) == 1:
                    out += [0] + enc(int(t[0])) + [1]
                elif tag == 'X' and len(t) == 2:
                    out += [1, int(t[0])]
                    if int(t[1]) != c:
                        out += [77] + enc(int(t[1]))
                else:
                    out += [2, 14]
            except Exception as e:
                out += common.canon_exc(e)
                self.drop_session(True)
                s = self.basic_session(True)
                s.execute(self.FORPROG)
        s.execute('NEW')
        return out

    # ------------------------------------------------------------------ model
    def model_operand(self, o):
        """(kind, value) as model/Int16.v mk_operand takes it; the CINT of a float by exact rational arithmetic"""
        if o[0] == 0:
            return '(0, %d)' % o[1]
        if o[0] == 1:
            c = cint_ref(mbf_value(o[1]))
            return '(1, %s)' % ('(%d)' % c if c < 0 else '%d' % c)
        return '(2, 0)'

    @staticmethod
    def basic_to_operand(o):
        if o[0] == 'v':
            return [0, pat(o[1])]
        if o[0] in ('h', 'n'):
            return [0, o[1]]
        if o[0] == 'f':
            return [1, Fraction(o[1])]
        return [2]

    def model_term(self, case):
        k = case['k']
        if k == 'grid':
            return 'run_grid %d %s %s %s' % (case['op'], 'true' if case['hard'] else 'false',
                                            core.zl(case['xs']), core.zl(case['ys']))
        if k == 'list':
            items = ['(%s, %s)' % (self.model_operand(l), self.model_operand(r)) for l, r in case['p']]
            return 'run_list %d %s [%s]' % (case['op'], 'true' if case['hard'] else 'false', '; '.join(items))
        if k == 'for':
            items = ['((%d, %d), (%d, %s))' % (c, st, stop, '(%d)' % sgn if sgn < 0 else '%d' % sgn)
                     for c, st, stop, sgn in case['q']]
            return 'run_for [%s]' % '; '.join(items)
        if k == 'basic':
            parts = []
            for name, l, r in case['e']:
                ops = []
                for o in (l, r if r is not None else ['n', 0]):
                    m = self.basic_to_operand(o)
                    if m[0] == 1:
                        c = cint_ref(m[1])
                        ops.append('(1, %s)' % ('(%d)' % c if c < 0 else '%d' % c))
                    elif m[0] == 0:
                        ops.append('(0, %d)' % m[1])
                    else:
                        ops.append('(2, 0)')
                parts.append('run_list %d %s [(%s, %s)]' % (OP[name], 'true' if case['hard'] else 'false',
                                                            ops[0], ops[1]))
            return '(' + ' ++ '.join(parts) + ')' if parts else '[]'
        if k == 'forstack':
            zz = lambda v: '(%d)' % v if v < 0 else '%d' % v
            items = []
            for recs, vname, c0, c1 in case['q']:
                rs = ['(((%d, %d), (%d, %s)), %s)' % (v, stop, st, zz(sgn), '0' if match else '%d' % (1000 + j))
                      for j, (v, stop, st, sgn, match) in enumerate(recs)]
                items.append('(([%s], (0, %s)), (%d, %d))' % ('; '.join(rs), zz(vname), c0, c1))
            return 'run_nexts [%s]' % '; '.join(items)
        if k == 'forhist':
            zz = lambda v: '(%d)' % v if v < 0 else '%d' % v
            items = ['[%s]' % '; '.join('((%s, %s), (%s, %s))' % tuple(zz(x) for x in e) for e in es)
                     for es in case['q']]
            return 'run_hists [%s]' % '; '.join(items)
        if k == 'forprog':
            items = []
            for c, st, stop in case['q']:
                sgn = (st > 0) - (st < 0)
                items.append('((%d, %d), (%d, %s))' % (pat(c), pat(st), pat(stop), '(%d)' % sgn if sgn < 0 else '%d' % sgn))
            return 'run_for [%s]' % '; '.join(items)
        raise ValueError(k)

    # ------------------------------------------------------------------ oracle (property text, big ints)
    @staticmethod
    def ref_conv(o):
        """operand -> ('ok', signed value) | ('err', n)"""
        if o[0] == 0:
            return ('ok', signed(o[1]))
        if o[0] == 1:
            v = o[1] if isinstance(o[1], Fraction) else mbf_value(o[1])
            c = cint_ref(v)
            return ('ok', c) if in16(c) else ('err', 6)
        return ('err', 13)

    def ref_op(self, op, hard, l, r):
        """expected canonical result of one operator application, read off the property statement"""
        name = OPS[op]
        if name in ('iadd', 'isub', 'ineg', 'iabs', 'gt', 'eq'):
            a, b = signed(l[1]), signed(r[1])
            if name == 'gt':
                return [int(a > b)]
            if name == 'eq':
                return [int(a == b)]
            if name == 'isub' and b == -32768:
                return [1, 6]       # Integer.isub negates the subtrahend first (not reachable from BASIC)
            z = {'iadd': a + b, 'isub': a - b, 'ineg': -a, 'iabs': abs(a)}[name]
            return [0] + enc(z) if in16(z) else [1, 6]
        cl = self.ref_conv(l)
        if cl[0] == 'err':
            return [1, cl[1]]
        a = cl[1]
        if name == 'not':
            return [0] + enc(~a)
        cr = self.ref_conv(r)
        if cr[0] == 'err':
            return [1, cr[1]]
        b = cr[1]
        if name in ('intdiv', 'mod'):
            if b == 0:
                return [1, 11] if hard else [4, 11, NEG_MAX if a < 0 else POS_MAX]
            q = abs(a) // abs(b)
            if (a < 0) != (b < 0):
                q = -q
            if name == 'intdiv':
                return [0] + enc(q) if in16(q) else [1, 6]
            return [0] + enc(a - b * q)
        ua, ub = a & 0xffff, b & 0xffff
        z = {'and': ua & ub, 'or': ua | ub, 'xor': ua ^ ub, 'eqv': ~(ua ^ ub), 'imp': (~ua) | ub}[name]
        return [0] + enc(z)

    @staticmethod
    def ref_for(c, st, stop, sgn):
        a = signed(c) + signed(st)
        if not in16(a):
            return [1, 6]
        ends = a > signed(stop) if sgn >= 0 else signed(stop) > a
        return [0] + enc(a) + [int(ends)]

    @staticmethod
    def ref_forstack(recs, vname, c0, c1):
        """NEXT iterates the loop that is running: the newest record belonging to this NEXT"""
        idx = None
        for j in range(len(recs) - 1, -1, -1):
            if recs[j][4]:
                idx = j
                break
        if idx is None:
            return [1, 1]
        v, stop, st, sgn, _ = recs[idx]
        if vname >= 0 and vname != v:
            return [1, 1]
        z = signed((c0, c1)[v]) + signed(st)
        if not in16(z):
            return [1, 6]
        ends = z > signed(stop) if sgn >= 0 else signed(stop) > z
        return [0, v] + enc(z) + [int(ends), idx if ends else idx + 1]

    @staticmethod
    def ref_forhist(es):
        """the printout of program FORHIST when every NEXT adds the step of the loop entered last"""
        out = []
        n = len(es)
        m = 0
        for k, (a, b, st, q) in enumerate(es, 1):
            i = a
            p = 0
            while True:
                if k < n:
                    p += 1
                    if p > q:
                        break
                if k == n:
                    out.append(i)
                    m += 1
                    if m >= 6:
                        return out + [1000001, 1000000]
                z = i + st
                if not in16(z):
                    return out + [1000003, 6, i, 1000000]
                i = z
                if (z > b) if st >= 0 else (b > z):
                    return out + [1000002, i, 1000000]
        return out + [1000007, 1000000]

    def expected(self, case):
        k = case['k']
        exp = []
        if k == 'forstack':
            return [self.ref_forstack(*item) for item in case['q']]
        if k == 'forhist':
            return [self.ref_forhist(es) for es in case['q']]
        if k == 'grid':
            for x in case['xs']:
                for y in case['ys']:
                    exp.append(self.ref_op(case['op'], case['hard'], [0, x], [0, y]))
        elif k == 'list':
            for l, r in case['p']:
                exp.append(self.ref_op(case['op'], case['hard'], l, r))
        elif k == 'for':
            for c, st, stop, sgn in case['q']:
                exp.append(self.ref_for(c, st, stop, sgn))
        elif k == 'basic':
            for name, l, r in case['e']:
                exp.append(self.ref_op(OP[name], case['hard'], self.basic_to_operand(l),
                                       self.basic_to_operand(r if r is not None else ['n', 0])))
        elif k == 'forprog':
            for c, st, stop in case['q']:
                exp.append(self.ref_for(pat(c), pat(st), pat(stop), (st > 0) - (st < 0)))
        return exp

    def describe_item(self, case, i):
        k = case['k']
        if k == 'grid':
            ny = len(case['ys'])
            return '%s(%d, %d)' % (OPS[case['op']], signed(case['xs'][i // ny]), signed(case['ys'][i % ny]))
        if k == 'list':
            return '%s%r' % (OPS[case['op']], case['p'][i])
        if k in ('for', 'forprog'):
            return 'FOR step (counter, step, stop[, sgn]) = %r' % (case['q'][i],)
        if k == 'forstack':
            return 'NEXT on FOR stack (records [var, stop, step, sgn, is-this-NEXT] oldest first, named var, I%%, J%%) = %r' % (case['q'][i],)
        if k == 'forhist':
            return 're-entered FOR, entries (start, limit, step, passes before GOTO) = %r' % (case['q'][i],)
        return '%r' % (case['e'][i],)

    def oracle(self, case, out):
        exp = self.expected(case)
        pos = 0
        for i, e in enumerate(exp):
            got = out[pos:pos + len(e)]
            if got != e:
                # resynchronise impossible: report the first difference
                head = out[pos:pos + 4]
                return 'item %d %s: expected %r, implementation gave %r' % (i, self.describe_item(case, i), e, head)
            pos += len(e)
        if pos != len(out):
            return 'trailing output %r' % (out[pos:pos + 6],)
        return None

    def nontrivial(self, case, out):
        if case['k'] == 'forhist':
            return any(len(e) > 3 for e in self.expected(case))
        return len(out) > 0 and any(e[0] == 0 for e in self.expected(case))

    def shrink_candidates(self, case):
        for key in ('xs', 'ys', 'p', 'q', 'e'):
            v = case.get(key)
            if isinstance(v, list) and len(v) > 1:
                n = len(v)
                cuts = [v[:n // 2], v[n // 2:]] + ([v[:i] + v[i + 1:] for i in range(n)] if n <= 32 else [])
                for c in cuts:
                    if c:
                        d = dict(case)
                        d[key] = c
                        yield d


CHECK = C02
