"""C31 - Drawing primitives have their specified geometry."""
import random

from vlib import core
from harness import common
from harness import C30_gfx as G
from harness.C30 import C30

PACKED_BPP = (1, 2, 4, 8)


class C31(C30):
    ID = 'C31'
    GEN = ['gen_viewport', 'gen_raster', 'gen_point']
    PROPS = 'props/C31.v'
    MODEL_IMPORTS = ['lib.GfxPrims', 'gen.Gen_viewport', 'gen.Gen_raster', 'gen.Gen_point', 'model.Matrix',
                     'model.Viewport', 'model.Raster', 'model.Sprite', 'model.Point']
    QUICK_CASES = 360
    THOROUGH_CASES = 3600
    TRUSTED = [
        'hand models model/Matrix.v (ByteMatrix item assignment), model/Sprite.v (PackedSpriteBuilder.pack/unpack '
        'over pack_bytes/unpack_bytes) and the read path of POINT (model/Point.v around the regenerated range '
        'test), tied by correspondence with a real Session: changed pixels of PSET/LINE/B/BF statements, array '
        'bytes written by GET, sprite unpacked by PUT, POINT values',
        'physical integer coordinates are recorded at _draw_line/_draw_box/_draw_box_filled (WINDOW float '
        'arithmetic is not modelled)',
    ]
    PARTIAL = None
    RULE = ('real Session per video adapter in every graphics SCREEN, random screen contents in colours below the '
            'drawing attribute, optional VIEW [SCREEN]; PSET / solid LINE / LINE,B / LINE,BF with the defining '
            'points inside the viewport (any slope and length) compared with the model; GET of random rectangles '
            '(array bytes vs model pack, PUT-side unpack vs model unpack), GET+PUT PSET, PUT XOR twice (oracle); '
            'POINT at coordinates inside / outside a relative viewport. non-trivial = a pixel changed, a sprite '
            'was packed or POINT answered; distinct by hash of (case, output)')
    histogram = None

    # ------------------------------------------------------------------ cases
    def corpus(self):
        base = {'video': 'ega', 'screen': 1, 'apage': 0, 'vpage': 0, 'view': None, 'window': None, 'bg': 0,
                'last': None, 'noise': [1, 6, 3]}

        def c(**kw):
            d = dict(base)
            d.update(kw)
            return d
        out = [
            c(stmt={'k': 'pset', 'x': 10, 'y': 10, 'c': 3}),
            c(stmt={'k': 'line', 'x0': 0, 'y0': 0, 'x1': 319, 'y1': 199, 'c': 3, 'shape': ''}),
            c(stmt={'k': 'line', 'x0': 319, 'y0': 0, 'x1': 0, 'y1': 199, 'c': 3, 'shape': ''}),
            c(stmt={'k': 'line', 'x0': 5, 'y0': 190, 'x1': 9, 'y1': 3, 'c': 3, 'shape': ''}),
            c(stmt={'k': 'line', 'x0': 7, 'y0': 7, 'x1': 7, 'y1': 7, 'c': 3, 'shape': ''}),
            c(stmt={'k': 'line', 'x0': 10, 'y0': 50, 'x1': 300, 'y1': 50, 'c': 3, 'shape': ''}),
            c(stmt={'k': 'line', 'x0': 10, 'y0': 50, 'x1': 11, 'y1': 150, 'c': 3, 'shape': ''}),
            c(stmt={'k': 'line', 'x0': 10, 'y0': 10, 'x1': 60, 'y1': 40, 'c': 3, 'shape': 'B'}),
            c(stmt={'k': 'line', 'x0': 60, 'y0': 40, 'x1': 10, 'y1': 10, 'c': 3, 'shape': 'BF'}),
            c(stmt={'k': 'line', 'x0': 10, 'y0': 10, 'x1': 10, 'y1': 40, 'c': 3, 'shape': 'B'}),
            c(view=[50, 40, 100, 90, False], stmt={'k': 'line', 'x0': 0, 'y0': 50, 'x1': 50, 'y1': 0, 'c': 3,
                                                   'shape': ''}),
            c(view=[50, 40, 100, 90, True], stmt={'k': 'line', 'x0': 50, 'y0': 40, 'x1': 100, 'y1': 90, 'c': 3,
                                                  'shape': 'B'}),
            c(screen=9, noise=[2, 5, 15], stmt={'k': 'line', 'x0': 3, 'y0': 300, 'x1': 600, 'y1': 20, 'c': 15,
                                                 'shape': ''}),
            # seeded C31d: PCOPY into the active page, then draw; the page buffer must show the drawing
            c(video='ega', screen=7, apage=1, pcopy=True, stmt={'k': 'pset', 'x': 10, 'y': 10, 'c': 15},
              noise=[1, 0, 15]),
            c(video='ega', screen=8, apage=0, pcopy=True, noise=[1, 3, 15],
              stmt={'k': 'line', 'x0': 3, 'y0': 5, 'x1': 200, 'y1': 100, 'c': 15, 'shape': ''}),
            c(video='ega', screen=9, apage=1, pcopy=True, noise=[1, 0, 15],
              stmt={'k': 'line', 'x0': 30, 'y0': 50, 'x1': 60, 'y1': 70, 'c': 15, 'shape': 'BF'}),
            {'k2': 'sprite', 'video': 'ega', 'screen': 7, 'view': None, 'x0': 10, 'y0': 10, 'w': 9, 'h': 4, 'seed': 5,
             'pcopy': True},
            {'k2': 'point', 'video': 'ega', 'screen': 7, 'view': None, 'bg': 3, 'x': 20, 'y': 20, 'pcopy': True},
            # seeded C31f: GET (x0,y0)-STEP(dx,dy) after the cursor was left elsewhere
            {'k2': 'sprite', 'video': 'cga', 'screen': 1, 'view': None, 'x0': 30, 'y0': 40, 'w': 12, 'h': 7, 'seed': 9,
             'rounds': 1, 'step': True},
            {'k2': 'sprite', 'video': 'ega', 'screen': 9, 'view': [20, 20, 300, 200, False], 'x0': 100, 'y0': 50,
             'w': 9, 'h': 4, 'seed': 10, 'rounds': 0, 'step': True},
            c(stmt={'k': 'line', 'x0': 200, 'y0': 100, 'x1': -150, 'y1': 60, 'c': 3, 'shape': '', 'step1': True}),
            # seeded C31e: GET, PUT, change one pixel of the bottom row, GET into the same array, PUT again
            {'k2': 'sprite', 'video': 'vga', 'screen': 7, 'view': None, 'x0': 8, 'y0': 100, 'w': 6, 'h': 1, 'seed': 6,
             'rounds': 3},
            {'k2': 'sprite', 'video': 'ega', 'screen': 9, 'view': None, 'x0': 40, 'y0': 60, 'w': 20, 'h': 5, 'seed': 7,
             'rounds': 3},
            {'k2': 'sprite', 'video': 'cga', 'screen': 1, 'view': None, 'x0': 4, 'y0': 6, 'w': 7, 'h': 2, 'seed': 8,
             'rounds': 2},
            # D31a: POINT with a viewport-relative VIEW and x + view_x0 beyond the screen raised IndexError
            {'k2': 'point', 'video': 'cga', 'screen': 1, 'view': [100, 100, 200, 150, False], 'bg': 2, 'x': 300,
             'y': 10},
            {'k2': 'point', 'video': 'cga', 'screen': 1, 'view': [100, 100, 200, 150, False], 'bg': 2, 'x': 10,
             'y': 150},
            {'k2': 'point', 'video': 'cga', 'screen': 1, 'view': [100, 100, 200, 150, False], 'bg': 2, 'x': 219,
             'y': 99},
            {'k2': 'point', 'video': 'cga', 'screen': 1, 'view': None, 'bg': 1, 'x': 319, 'y': 199},
            {'k2': 'sprite', 'video': 'cga', 'screen': 1, 'view': None, 'x0': 3, 'y0': 5, 'w': 9, 'h': 4, 'seed': 1},
            {'k2': 'sprite', 'video': 'cga', 'screen': 2, 'view': None, 'x0': 0, 'y0': 0, 'w': 17, 'h': 3, 'seed': 2},
            {'k2': 'sprite', 'video': 'ega', 'screen': 7, 'view': [20, 20, 200, 150, False], 'x0': 1, 'y0': 1,
             'w': 13, 'h': 5, 'seed': 3},
            {'k2': 'sprite', 'video': 'ega', 'screen': 9, 'view': None, 'x0': 100, 'y0': 100, 'w': 8, 'h': 8,
             'seed': 4},
        ]
        return out

    def gen_cases(self, n):
        rng = self.rng
        videos = G.THOROUGH_VIDEOS if self.tier == 'thorough' else G.QUICK_VIDEOS
        dims = {1: (320, 200, 4), 2: (640, 200, 2), 3: (160, 200, 16), 4: (320, 200, 4), 5: (320, 200, 16),
                6: (640, 200, 4), 7: (320, 200, 16), 8: (640, 200, 16), 9: (640, 350, 16), 10: (640, 350, 4)}
        hist = {}
        out = []
        for i in range(n):
            video = rng.choice(videos)
            screen = rng.choice(G.SCREENS[video])
            w, h, nattr = dims.get(screen, (640, 200, 2))
            if video == 'hercules':
                w, h, nattr = 720, 348, 2
            if video == 'olivetti' and screen == 3:
                w, h, nattr = 640, 400, 2
            view = None
            vr = (0, 0, w - 1, h - 1)
            if rng.random() < 0.45:
                a, b = sorted([rng.randrange(w), rng.randrange(w)])
                c, d = sorted([rng.randrange(h), rng.randrange(h)])
                if a != b and c != d:
                    view = [a, c, b, d, rng.random() < 0.5]
                    vr = (a, c, b, d)
            r = rng.random()
            if r < 0.68:
                # geometry: defining points inside the viewport, in the coordinates of the viewport
                ox, oy = (0, 0) if (view is None or view[4]) else (vr[0], vr[1])

                def px():
                    return rng.choice([vr[0], vr[2], rng.randint(vr[0], vr[2]), rng.randint(vr[0], vr[2])]) - ox

                def py():
                    return rng.choice([vr[1], vr[3], rng.randint(vr[1], vr[3]), rng.randint(vr[1], vr[3])]) - oy
                attr = nattr - 1
                kind = rng.choice(['pset', 'line', 'line', 'line', 'line', 'B', 'BF'])
                if kind == 'pset':
                    st = {'k': 'pset', 'x': px(), 'y': py(), 'c': attr}
                else:
                    st = {'k': 'line', 'x0': px(), 'y0': py(), 'x1': px(), 'y1': py(), 'c': attr,
                          'shape': '' if kind == 'line' else kind}
                    if kind == 'line' and rng.random() < 0.3:
                        # short and near-diagonal / near-axis lines
                        st['x1'] = min(max(st['x0'] + rng.randint(-12, 12), vr[0] - ox), vr[2] - ox)
                        st['y1'] = min(max(st['y0'] + rng.randint(-12, 12), vr[1] - oy), vr[3] - oy)
                if st['k'] == 'line' and rng.random() < 0.3:
                    # LINE (x0,y0)-STEP(dx,dy): the same geometry in the alternative syntax (the cursor is elsewhere:
                    # the random contents were drawn before)
                    st['step1'] = True
                    st['x1'], st['y1'] = st['x1'] - st['x0'], st['y1'] - st['y0']
                case = {'video': video, 'screen': screen, 'apage': rng.choice([0, 0, 1]), 'vpage': 0, 'view': view,
                        'window': None, 'bg': rng.randrange(max(1, nattr - 1)), 'last': None,
                        'noise': [rng.randrange(1 << 30), rng.randint(0, 8), max(1, nattr - 1)], 'stmt': st}
                if rng.random() < 0.4:
                    case['pcopy'] = True
                key = 'geometry ' + kind
            elif r < 0.88:
                sw = rng.choice([1, 2, 3, 4, 7, 8, 9, 15, 16, 17, 31, 33, rng.randint(1, 60)])
                sh = rng.choice([1, 1, 2, 3, 5, 8, rng.randint(1, 20)])
                bw, bh = vr[2] - vr[0] + 1, vr[3] - vr[1] + 1
                sw, sh = min(sw, bw), min(sh, bh)
                eff = sw
                if screen == 6 and video in ('tandy', 'pcjr'):
                    # Tandy SCREEN 6 GETs (and PUTs) twice the width given: keep the doubled rectangle inside
                    sw = max(1, min(sw, bw // 2))
                    eff = 2 * sw
                ox, oy = (0, 0) if (view is None or view[4]) else (vr[0], vr[1])
                case = {'k2': 'sprite', 'video': video, 'screen': screen, 'view': view,
                        'x0': rng.randint(vr[0], max(vr[0], vr[2] - eff + 1)) - ox,
                        'y0': rng.randint(vr[1], vr[3] - sh + 1) - oy,
                        'w': sw, 'h': sh, 'seed': rng.randrange(1 << 30)}
                if rng.random() < 0.4:
                    case['pcopy'] = True
                case['rounds'] = rng.choice([0, 1, 1, 2, 3])
                if rng.random() < 0.4:
                    case['step'] = True     # GET (x0,y0)-STEP(dx,dy)
                key = 'sprite'
            else:
                case = {'k2': 'point', 'video': video, 'screen': screen, 'view': view,
                        'bg': rng.randrange(nattr),
                        'x': rng.choice([0, -1, w - 1, w, rng.randrange(w), rng.randrange(w), vr[2], vr[2] + 1,
                                         w - vr[0], w - vr[0] - 1]),
                        'y': rng.choice([0, -1, h - 1, h, rng.randrange(h), rng.randrange(h), vr[3], vr[3] + 1,
                                         h - vr[1], h - vr[1] - 1])}
                if rng.random() < 0.4:
                    case['pcopy'] = True
                key = 'point'
            hist[key] = hist.get(key, 0) + 1
            hist['video ' + video] = hist.get('video ' + video, 0) + 1
            hist['screen %d' % screen] = hist.get('screen %d' % screen, 0) + 1
            if view:
                hist['with VIEW'] = hist.get('with VIEW', 0) + 1
            out.append(case)
        self.histogram = hist
        return out

    # ------------------------------------------------------------------ implementation
    def _run(self, case):
        k2 = case.get('k2')
        if k2 is None:
            info = C30._run(self, case)
            st = case['stmt']
            if st['k'] == 'pset' and not info['text'] and info['status'] == [0] and not case.get('window'):
                # POINT read-back for PSET: at once, and again after re-selecting the same pages
                s = G.session(case['video'])
                try:
                    p1 = int(s.evaluate('POINT(%d,%d)' % (st['x'], st['y'])))
                    s.execute('SCREEN ,,%d,%d' % (s._impl.display.apagenum, s._impl.display.vpagenum))
                    p2 = int(s.evaluate('POINT(%d,%d)' % (st['x'], st['y'])))
                    info['point_back'] = [p1, p2]
                except Exception as e:
                    info['point_back'] = common.canon_exc(e)
                    G.drop_session(case['video'])
            return info
        with core.time_limit(120):
            s = G.session(case['video'])
            try:
                if k2 == 'point':
                    return self._run_point(s, case)
                return self._run_sprite(s, case)
            except BaseException:
                G.drop_session(case['video'])
                raise

    def _setup(self, s, case):
        err = G.reset(s, case['screen'])
        if err:
            raise RuntimeError('SCREEN %d not available on %s: %s' % (case['screen'], case['video'], err))
        g = s._impl.display.graphics
        w, h = g._mode.pixel_width, g._mode.pixel_height
        if case.get('pcopy') and len(s._impl.display.pages) > 1:
            # PCOPY into the active page (0) and no page statement afterwards (C31d)
            s.execute('PCOPY 1,0')
            s._impl.interpreter.error_num = 0
        return g, w, h

    def _run_point(self, s, case):
        g, w, h = self._setup(s, case)
        s.execute('LINE (0,0)-(%d,%d),%d,BF' % (w - 1, h - 1, case['bg']))
        if case['view']:
            v = case['view']
            s.execute('VIEW %s(%d,%d)-(%d,%d),%d,%d' % ('SCREEN ' if v[4] else '', v[0], v[1], v[2], v[3],
                                                        case['bg'], case['bg']))
        s._impl.interpreter.error_num = 0
        info = {'view': G.view_of(g), 'w': w, 'h': h}
        try:
            if case.get('pcopy'):
                # observe through a freshly selected page, not through whatever the viewport cached
                s.execute('SCREEN ,,0,0')
            val = s.evaluate('POINT(%d,%d)' % (case['x'], case['y']))
            info['out'] = [0, int(val)]
        except Exception as e:
            info['out'] = common.canon_exc(e)
            G.drop_session(case['video'])
        return info

    def _run_sprite(self, s, case):
        g, w, h = self._setup(s, case)
        ex = s.execute
        if case['view']:
            v = case['view']
            ex('VIEW %s(%d,%d)-(%d,%d)' % ('SCREEN ' if v[4] else '', v[0], v[1], v[2], v[3]))
        r2 = random.Random(case['seed'])
        x0, y0, sw, sh = case['x0'], case['y0'], case['w'], case['h']
        wf = g._mode.sprite_builder.width_factor
        x1, y1 = x0 + sw * wf - 1, y0 + sh - 1
        na = g._num_attr
        # random contents in and around the rectangle
        for _ in range(sw * sh // 2 + 4):
            ex('PSET (%d,%d),%d' % (r2.randint(x0 - 2, x1 + 2), r2.randint(y0 - 2, y1 + 2), r2.randrange(na)))
        ex('DIM A%(4000)')
        s._impl.interpreter.error_num = 0
        before = G.snapshot(s)
        view = G.view_of(g)
        if case.get('step'):
            # the alternative syntax of the same rectangle; the graphics cursor is wherever the last PSET left it
            get_stmt = 'GET (%d,%d)-STEP(%d,%d),A%%' % (x0, y0, sw - 1, y1 - y0)
        else:
            get_stmt = 'GET (%d,%d)-(%d,%d),A%%' % (x0, y0, x0 + sw - 1, y1)
        ex(get_stmt)
        e1 = s._impl.interpreter.error_num
        name = s._impl.memory.complete_name(b'A%')
        arr = bytes(bytearray(s._impl.memory.arrays.view_full_buffer(name)))
        sprite = g._mode.sprite_builder.unpack(bytearray(arr))
        rows = [list(r) for r in sprite.to_rows()]
        ap = s._impl.display.apagenum
        pw = s._impl.display.pages[ap]._pixels.width
        ox, oy = (0, 0) if view[0] else (view[1], view[2])
        region = [[before[ap][(y + oy) * pw + (x + ox)] for x in range(x0, x1 + 1)] for y in range(y0, y1 + 1)]
        info = {'builder': type(g._mode.sprite_builder).__name__, 'bpp': g._mode.bitsperpixel, 'arr': arr,
                'planes': getattr(g._mode.sprite_builder, '_number_planes', 0),
                'rows': rows, 'region': region, 'err_get': e1, 'wf': wf}
        # GET then PUT PSET at the same place
        ex('PUT (%d,%d),A%%,PSET' % (x0, y0))
        info['err_put'] = s._impl.interpreter.error_num
        info['same_after_put_pset'] = (G.snapshot(s) == before)
        # wipe the rectangle, PUT PSET restores it
        ex('LINE (%d,%d)-(%d,%d),0,BF' % (x0, y0, x1, y1))
        ex('PUT (%d,%d),A%%,PSET' % (x0, y0))
        info['restored'] = (G.snapshot(s) == before)
        # XOR twice
        ex('PUT (%d,%d),A%%,XOR' % (x0, y0))
        mid = G.snapshot(s)
        ex('PUT (%d,%d),A%%' % (x0, y0))
        info['xor_twice_same'] = (G.snapshot(s) == before)
        info['xor_changed'] = (mid != before)
        info['err_end'] = s._impl.interpreter.error_num
        # a second round with the SAME array (C31e): change a little (mostly the right end of the bottom row, in
        # the high colour planes: the last bytes of the record), GET again, PUT PSET again - the screen must not
        # change, and a wiped rectangle must come back as it was at the second GET
        rounds = []
        for rnd in range(case.get('rounds', 0)):
            s._impl.interpreter.error_num = 0
            cur = G.snapshot(s)[ap]
            for _ in range(r2.choice([1, 1, 2])):
                if r2.random() < 0.7:
                    mx, my = x1 - r2.randrange(min(8, x1 - x0 + 1)), y1
                else:
                    mx, my = r2.randint(x0, x1), r2.randint(y0, y1)
                old = cur[(my + oy) * pw + (mx + ox)]
                new = old ^ r2.choice([na >> 1, na >> 1, na - 1, 1])
                ex('PSET (%d,%d),%d' % (mx, my, new % na))
            b2 = G.snapshot(s)
            ex(get_stmt)
            ex('PUT (%d,%d),A%%,PSET' % (x0, y0))
            same = (G.snapshot(s) == b2)
            ex('LINE (%d,%d)-(%d,%d),0,BF' % (x0, y0, x1, y1))
            ex('PUT (%d,%d),A%%,PSET' % (x0, y0))
            rounds.append([same, G.snapshot(s) == b2, s._impl.interpreter.error_num])
        info['rounds'] = rounds
        return info

    def impl(self, case):
        case = self.undescribe(case)
        k2 = case.get('k2')
        if k2 is None:
            return C30.impl(self, case)
        self.__dict__.setdefault('_runs', {}).pop(core.sha(case), None)
        info = self._cached(case)
        if k2 == 'point':
            return list(info['out'])
        # sprite: the bytes GET wrote (header + data) and the sprite PUT's unpack sees
        fmt = self._sprite_format(case, info)
        if fmt is None:
            return [9, len(info['rows']), len(info['rows'][0]) if info['rows'] else 0]
        n = fmt[2]
        out = [0, n] + list(info['arr'][:n])
        out += [len(info['rows']), len(info['rows'][0]) if info['rows'] else 0]
        for r in info['rows']:
            out += r
        return out

    @staticmethod
    def _sprite_format(case, info):
        """(pack term, unpack term, number of array bytes) of the model for the sprite builder of the mode."""
        b = info['builder']
        h = case['h']
        if b == 'PackedSpriteBuilder' and info['bpp'] in PACKED_BPP:
            rb = (case['w'] * info['bpp'] + 7) // 8
            return ('pack_sprite %d' % info['bpp'], 'unpack_sprite %d' % info['bpp'], 4 + rb * h)
        if b == 'PlanedSpriteBuilder':
            n = info['planes']
            return ('pack_planed %d%%nat' % n, 'unpack_planed %d%%nat' % n, 4 + ((case['w'] + 7) // 8) * h * n)
        if b == 'Tandy6SpriteBuilder':
            return ('pack_tandy6', 'unpack_tandy6', 4 + ((2 * case['w'] + 7) // 8) * h * 2)
        return None

    # ------------------------------------------------------------------ model
    def model_term(self, case):
        case = self.undescribe(case)
        k2 = case.get('k2')
        if k2 is None:
            return C30.model_term(self, case)
        info = self._cached(case)
        if k2 == 'point':
            if info['out'][0] == 2:
                # a host exception: the model (of the fixed code) answers a number
                pass
            v = info['view']
            return ('(enc_resZ (point %s (blank %d %d %d) %d %d %s %s))' % (
                G.coq_vp(v), info['h'], info['w'], case['bg'], info['w'], info['h'], G.z(case['x']), G.z(case['y'])))
        fmt = self._sprite_format(case, info)
        if fmt is None:
            return core.zl([9, len(info['rows']), len(info['rows'][0]) if info['rows'] else 0])
        region = G.coq_matrix(info['region'])
        n = fmt[2]
        arr = G.zl_chunked(list(info['arr'][:n + 6]))
        return ('(let p := %s %s in let u := %s %s in '
                '(0 :: zlen p :: p) ++ (zlen u :: sprite_w u :: List.concat u))' % (fmt[0], region, fmt[1], arr))

    # ------------------------------------------------------------------ property oracle (implementation only)
    def oracle(self, case, out):
        case = self.undescribe(case)
        k2 = case.get('k2')
        info = self._cached(case)
        if k2 == 'point':
            if info['out'][0] != 0:
                return 'POINT(%d,%d) raised a host exception %r' % (case['x'], case['y'], info['out'])
            v = info['out'][1]
            view = info['view']
            ox, oy = (0, 0) if view[0] else (view[1], view[2])
            ax, ay = case['x'] + ox, case['y'] + oy
            on = 0 <= ax < info['w'] and 0 <= ay < info['h'] and 0 <= case['x'] < info['w'] and 0 <= case['y'] < info['h']
            if on and v != case['bg']:
                return 'POINT(%d,%d) = %d on a screen filled with %d' % (case['x'], case['y'], v, case['bg'])
            if not on and v != -1:
                return 'POINT(%d,%d) = %d off the screen' % (case['x'], case['y'], v)
            return None
        if k2 == 'sprite':
            if info['err_get'] or info['err_put'] or info['err_end']:
                return 'GET/PUT inside the viewport raised error %r' % ([info['err_get'], info['err_put'], info['err_end']],)
            if info['rows'] != info['region']:
                return 'the sprite PUT unpacks differs from the screen rectangle that GET read'
            if not info['same_after_put_pset']:
                return 'GET then PUT,PSET at the same place changed the screen'
            if not info['restored']:
                return 'PUT,PSET after wiping the rectangle did not restore it'
            if not info['xor_twice_same']:
                return 'PUT XOR applied twice did not restore the screen'
            for i, (same, restored, e) in enumerate(info.get('rounds', [])):
                if e:
                    return 'GET/PUT of the same array again (round %d) raised error %d' % (i + 2, e)
                if not same:
                    return ('after changing pixels of the rectangle: GET into the same array then PUT,PSET at the same '
                            'place changed the screen (round %d)' % (i + 2))
                if not restored:
                    return 'round %d: PUT,PSET after wiping the rectangle did not bring back what the last GET read' % (i + 2)
            return None
        # geometry: first the C30 reading (nothing outside the viewport / on other pages) ...
        why = C30.oracle(self, case, out)
        if why:
            return why
        if info['status'] != [0]:
            return 'statement with points inside the viewport failed: %r' % (info['status'],)
        st = case['stmt']
        view = info['view']
        ox, oy = (0, 0) if view[0] else (view[1], view[2])
        changed = set((x - ox, y - oy) for (y, x, v) in info['diffs'][info['ap']])
        attr = st['c']
        if any(v != attr for (y, x, v) in info['diffs'][info['ap']]):
            return 'a pixel changed to something else than the attribute %d' % attr
        if st['k'] == 'pset':
            if changed != {(st['x'], st['y'])}:
                return 'PSET changed %r in the page buffer, expected exactly (%d,%d)' % (sorted(changed)[:5], st['x'], st['y'])
            pb = info.get('point_back')
            if pb is not None and pb != [attr, attr]:
                return 'POINT(%d,%d) after PSET ..,%d gives %r (at once, after re-selecting the page)' % (
                    st['x'], st['y'], attr, pb)
            return None
        x0, y0, x1, y1 = st['x0'], st['y0'], st['x1'], st['y1']
        if st.get('step1'):
            x1, y1 = x0 + x1, y0 + y1
        lx, hx, ly, hy = min(x0, x1), max(x0, x1), min(y0, y1), max(y0, y1)
        if st['shape'] == 'BF':
            want = set((x, y) for x in range(lx, hx + 1) for y in range(ly, hy + 1))
            return None if changed == want else 'LINE,BF did not fill exactly the rectangle'
        if st['shape'] == 'B':
            want = set((x, y) for x in range(lx, hx + 1) for y in (ly, hy)) | \
                set((x, y) for y in range(ly, hy + 1) for x in (lx, hx))
            return None if changed == want else 'LINE,B did not draw exactly the outline'
        dx, dy = hx - lx, hy - ly
        if len(changed) != max(dx, dy) + 1:
            return 'LINE set %d pixels, expected max(|dx|,|dy|)+1 = %d' % (len(changed), max(dx, dy) + 1)
        if (x0, y0) not in changed or (x1, y1) not in changed:
            return 'LINE does not contain both endpoints'
        major = 0 if dx >= dy else 1
        pts = sorted(changed, key=lambda p: p[major])
        for p, q in zip(pts, pts[1:]):
            if q[major] - p[major] != 1 or abs(q[1 - major] - p[1 - major]) > 1:
                return 'LINE pixels %r %r are not 8-neighbours along the major axis' % (p, q)
        return None

    def nontrivial(self, case, out):
        case = self.undescribe(case)
        if case.get('k2'):
            return True
        return C30.nontrivial(self, case, out)

    def describe(self, case):
        if case.get('k2'):
            return dict(case)
        return C30.describe(self, case)

    def shrink_candidates(self, case):
        case = self.undescribe(case)
        if case.get('k2'):
            if case.get('view') is not None:
                d = dict(case)
                d['view'] = None
                yield d
            return
        for c in C30.shrink_candidates(self, case):
            yield c
        if case.get('noise') and case['noise'][1]:
            d = dict(case)
            d['noise'] = [case['noise'][0], 0, case['noise'][2]]
            yield d


CHECK = C31
