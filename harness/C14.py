"""C14 - RENUM renumbers lines and every reference to them consistently."""
import copy
import re
import struct

from vlib import core
from harness import common, progen
from harness import C13 as c13

# oracle's own token-length table (GW-BASIC token format), independent of /repo's tokens.PLUS_BYTES
ORACLE_PLUS = {0x0B: 2, 0x0C: 2, 0x0D: 2, 0x0E: 2, 0x0F: 1, 0x1C: 2, 0x1D: 4, 0x1F: 8, 0xFD: 1, 0xFE: 1, 0xFF: 1}
T_GOTO, T_ERROR, T_REM = 0x89, 0xA7, 0x8F

REF_LINES = [
    'GOTO {n}', 'GOSUB {n}', 'IF A THEN {n}', 'IF A THEN {n} ELSE {n}', 'IF A THEN PRINT 1 ELSE {n}',
    'IF A GOTO {n}', 'ON A GOTO {n},{n},{n}', 'ON A GOSUB {n},{n}', 'RESTORE {n}', 'RUN {n}', 'RESUME {n}',
    'IF ERL={n} THEN {n}', 'IF ERL<>{n} THEN PRINT ERL', 'ON ERROR GOTO {n}', 'ON ERROR GOTO 0', 'ON  ERROR  GOTO  0',
    'ON ERROR GOTO 0:GOTO {n}', 'GOTO 0', 'ON KEY(1) GOSUB {n}', 'ON TIMER(5) GOSUB {n}', 'LIST {n}-{n}',
    'DELETE {n}-{n}', 'RENUM {n},{n}', 'EDIT {n}', 'AUTO {n}', 'PRINT "\x8f":GOTO {n}', 'PRINT "GOTO {n}":GOTO {n}',
    "REM GOTO {n}", "GOTO {n}' GOTO {n}", 'DATA {n},GOTO {n}:GOTO {n}', 'X=&H0E:GOTO {n}', 'X=14:Y=3598:GOTO {n}',
    'A$="\x0e\x0b\x0c":GOSUB {n}', 'PRINT {n}:GOTO {n}', 'X={n}:RETURN {n}', 'CHAIN "X",{n}', 'GOTO{n}:GOTO {n}',
    'ERROR 5:GOTO 0', 'RESUME 0', 'RETURN', 'PRINT ERL:IF ERL>{n} THEN END',
]


def parse_refs(body):
    """Offsets of the payloads of the line-number reference tokens (0E) of one tokenised line body, with the
    exemption flag (ON ERROR GOTO 0), by an independent reading of the token format."""
    refs = []
    i = 0
    prev = []                   # previous non-blank single tokens (for ERROR GOTO)
    n = len(body)
    while i < n:
        c = body[i]
        if c == 0x22:
            j = body.find(b'"', i + 1)
            i = n if j < 0 else j + 1
            prev.append(None)
        elif c == T_REM:
            break
        elif c == 0x0E:
            j, = struct.unpack('<H', bytes(body[i + 1:i + 3]))
            ex = j == 0 and len(prev) >= 2 and prev[-1] == T_GOTO and prev[-2] == T_ERROR
            refs.append((i + 1, j, ex))
            prev.append(None)
            i += 3
        elif c in ORACLE_PLUS:
            i += 1 + ORACLE_PLUS[c]
            prev.append(None)
        else:
            if c not in (0x20, 0x09, 0x0A):
                prev.append(c)
            i += 1
    return refs


def split_lines(code, lines):
    """{num: (pos, body)} from the memory image and the index."""
    pos = sorted((p, k) for k, p in lines.items())
    out = {}
    for (p, k), (q, _) in zip(pos, pos[1:]):
        out[k] = (p, bytes(code[p + 5:q]), struct.unpack('<H', code[p + 3:p + 5])[0])
    return out


class C14(core.Check):
    ID = 'C14'
    GEN = ['gen_program', 'gen_flow']
    PROPS = 'props/C14.v'
    MODEL_IMPORTS = ['gen.Gen_program', 'model.Program', 'model.Renum']
    QUICK_CASES = 330
    THOROUGH_CASES = 4000
    TRUSTED = ['hand model model/Renum.v of Program.renum (3 passes + dict rebuild) and Interpreter.renum_ (trap '
               'remapping), on model/Program.v; the 0E scan is one structural pass with the clauses of '
               'TokenisedStream.skip_to; tied by correspondence on real Sessions (bytecode, line_numbers, '
               'old_to_new, Undefined-line reports, traps, errors); token table regenerated; that every '
               'line-number reference is tokenised as a 0E token is C17 (tokeniser)']
    PARTIAL = ('behaviour preservation is a theorem only for the jump fragment of the C19/C21 control-flow machine '
               '(line headers, PRINT, LET, GOTO, GOSUB, RETURN [n], IF..THEN [n] with its ELSE search, :ELSE [n], '
               'ON..GOTO/GOSUB, END; programs whose targets all exist): C14_flow_simulation / C14_simulation_renum, also for '
               'partial RENUMs with jumps between kept and renumbered lines. Outside, stated only '
               '(C14_simulation_flow_statement): FOR/NEXT, WHILE/WEND, ERROR, ON ERROR GOTO, RESUME, READ/DATA/RESTORE, '
               'ERL/ERR in expressions; not tested by running programs')
    RULE = ('generated programs with every reference kind, missing targets, ON ERROR GOTO 0, references inside '
            'strings/REM/DATA, active error and event traps before/after the range, random RENUM new,old,step '
            '(including rejected ones); compared with the model on bytecode, line_numbers, old_to_new, reports, '
            'traps, error; oracle = independent token parser + dict reference. non-trivial = RENUM accepted and at '
            'least one line renumbered; distinct by hash')
    histogram = None

    def corpus(self):
        return [
            # D4: trap line outside the renumbered range
            {'mem': 65534, 'prog': [[10, 'PRINT 1'], [20, 'PRINT 2'], [30, 'END']], 'on_error': 10, 'events': [],
             'args': [100, 20, None]},
            {'mem': 65534, 'prog': [[10, 'PRINT 1'], [20, 'PRINT 2'], [30, 'END']], 'on_error': None, 'events': [10, 30],
             'args': [100, 20, None]},
            {'mem': 65534, 'prog': [[10, 'PRINT 1'], [20, 'PRINT 2'], [30, 'END']], 'on_error': 30, 'events': [20],
             'args': [100, 20, 7]},
            # seed C14e: new number of the trap line = old number of a later line (sequential substitution chains)
            {'mem': 65534, 'prog': [[10, 'ON ERROR GOTO 20:END'], [20, 'PRINT 2'], [30, 'PRINT 3'], [40, 'PRINT 4'], [50, 'PRINT 5']],
             'on_error': None, 'events': [30], 'args': [20, None, None], 'run': True},
            {'mem': 65534, 'prog': [[10, 'REM'], [20, 'REM'], [30, 'REM'], [40, 'REM']], 'on_error': 20, 'events': [20, 30],
             'args': [30, 20, None]},
            # trap off and a line 0 that is renumbered: the trap must stay off
            {'mem': 65534, 'prog': [[0, 'REM'], [10, 'GOTO 0']], 'on_error': None, 'events': [], 'args': [5, None, None]},
            # D13a: reference behind a string literal containing the REM token byte
            {'mem': 65534, 'prog': [[10, 'PRINT "\x8f":GOTO 20'], [20, 'END']], 'on_error': None, 'events': [],
             'args': [100, None, None]},
            {'mem': 65534, 'prog': [[10, 'GOTO 20'], [20, 'END'], [30, 'GOTO 77']], 'on_error': None, 'events': [],
             'args': [100, 20, 5]},
            {'mem': 65534, 'prog': [[0, 'ON ERROR GOTO 0:GOTO 0'], [5, 'GOSUB 0']], 'on_error': None, 'events': [],
             'args': [7, None, 3]},
            {'mem': 65534, 'prog': [[10, 'GOTO 20'], [20, 'END']], 'on_error': None, 'events': [], 'args': [5, 20, None]},
            {'mem': 65534, 'prog': [[10, 'GOTO 20'], [20, 'END']], 'on_error': None, 'events': [], 'args': [10, 20, None]},
            {'mem': 65534, 'prog': [[10, 'GOTO 20'], [20, 'END']], 'on_error': None, 'events': [], 'args': [11, 20, None]},
            {'mem': 65534, 'prog': [[10, 'GOTO 20'], [20, 'END']], 'on_error': None, 'events': [], 'args': [65529, None, 1]},
            {'mem': 65534, 'prog': [[10, 'GOTO 20'], [20, 'END']], 'on_error': None, 'events': [], 'args': [65529, 20, 1]},
            {'mem': 65534, 'prog': [[10, 'GOTO 20'], [20, 'END']], 'on_error': None, 'events': [], 'args': [None, None, 0]},
            # new number 0: references to the line that becomes line 0 (seeded change: `if not newjump`)
            {'mem': 65534, 'prog': [[10, 'GOTO 10:GOSUB 10:IF A THEN 10 ELSE 10'], [20, 'ON A GOTO 10,20:ON A GOSUB 10'],
                                    [30, 'RESTORE 10:RUN 10'], [40, 'RESUME 10:IF ERL=10 THEN 10'], [50, 'ON ERROR GOTO 10']],
             'on_error': 10, 'events': [10], 'args': [0, None, 1]},
            {'mem': 65534, 'prog': [[5, 'GOTO 20'], [20, 'GOSUB 20:GOTO 5'], [30, 'IF ERL=20 THEN 20']],
             'on_error': None, 'events': [20], 'args': [0, 20, 65529]},
            {'mem': 65534, 'prog': [[7, 'GOTO 7']], 'on_error': None, 'events': [], 'args': [0, 7, None]},
            {'mem': 65534, 'prog': [], 'on_error': None, 'events': [], 'args': [None, None, None]},
            {'mem': 65534, 'prog': [[65529, 'GOTO 65529']], 'on_error': None, 'events': [], 'args': [None, 65529, None]},
        ]

    def gen_cases(self, n):
        rng = self.rng
        hist = {'accepted_expected': 0, 'rejected_expected': 0, 'on_error': 0, 'events': 0, 'missing_target': 0}
        out = []
        for _ in range(n):
            if rng.random() < 0.25:
                out.append(self.gen_overlap(rng, hist))
                continue
            nlines = rng.randrange(1, 14)
            nums = set()
            while len(nums) < nlines:
                r = rng.random()
                nums.add(rng.choice([0, 1, 5, 65529, 255, 256, 8224]) if r < 0.08 else
                         10 * rng.randrange(1, 40) if r < 0.8 else rng.randrange(0, 65530))
            nums = sorted(nums)
            # RENUM arguments first: boundary-dense (new 0/1/limits, step 1, start = first/last/missing line)
            pool = [None, 0, 0, 0, 1, 1, 5, 10, 100, 1000, 30000, 65000, 65500, 65520, 65528, 65529] + nums
            new = rng.choice(pool) if rng.random() < 0.75 else rng.randrange(0, 65530)
            r = rng.random()
            old = (None if r < 0.2 else nums[0] if r < 0.35 else nums[-1] if r < 0.5 else rng.choice(nums) if r < 0.75
                   else rng.choice(nums) + 1 if r < 0.85 else rng.randrange(0, 65530))
            old = min(old, 65529) if old is not None else None
            step = rng.choice([None, None, 1, 1, 1, 2, 5, 10, 100, 1000, 0, 7]) if rng.random() < 0.9 else rng.randrange(0, 3000)
            if rng.random() < 0.1 and step:
                # last new number exactly at / just over the limit 65529
                cnt = len([k for k in nums if k >= (old or 0)])
                new = min(65529, max(0, 65529 - max(cnt - 1, 0) * step + rng.choice([0, 0, 1, -1])))
            renumbered = [k for k in nums if k >= (old or 0)]
            first = renumbered[0] if renumbered else None
            prog = []
            for k in nums:
                if rng.random() < 0.65:
                    t = rng.choice(REF_LINES)
                    while '{n}' in t:
                        q = rng.random()
                        tgt = (first if first is not None and q < 0.4 else rng.choice(nums) if q < 0.85
                               else rng.choice([0, 7, 65529, 65528, rng.randrange(65530)]))
                        t = t.replace('{n}', str(tgt), 1)
                else:
                    t = progen.line_body(rng, nums)
                prog.append([k, t])
            args = [new, old, step]
            ok = self.expected_map(nums, args) is not None
            hist['accepted_expected' if ok else 'rejected_expected'] += 1
            on_error = rng.choice(nums) if ok and rng.random() < 0.5 else None
            if on_error == 0:
                on_error = None
            events = [rng.choice(nums) for _ in range(rng.randrange(0, 3))] if rng.random() < 0.5 else []
            events = [e for e in events if e != 0]
            hist['on_error'] += on_error is not None
            hist['events'] += bool(events)
            out.append({'mem': 65534, 'prog': prog, 'on_error': on_error, 'events': events, 'args': args})
        self.histogram = hist
        return out

    def gen_overlap(self, rng, hist):
        """Evenly spaced lines renumbered UP with the same spacing, so that the new number of a line is the old
        number of a later line (old and new ranges overlap): a sequential instead of simultaneous substitution of
        trap lines or references chains through several lines.  The trap is left behind by a real RUN half of the
        time (ON ERROR GOTO n executed, program ended), else set in direct mode."""
        d = rng.choice([10, 10, 10, 5, 1, 2, 100])
        base = rng.choice([0, 0, d, 10, 100, 1000])
        n = rng.randrange(3, 10)
        nums = [base + i * d for i in range(n)]
        i0 = rng.randrange(0, n - 1)
        j = rng.randrange(i0, n) if rng.random() < 0.2 else rng.randrange(i0 + 1, n)
        old = None if i0 == 0 and rng.random() < 0.5 else nums[i0]
        new = nums[j] if rng.random() < 0.85 else nums[j] + rng.choice([0, d, -d, 1])
        new = max(new, 0)
        step = rng.choice([d, d, d, 2 * d, None if d == 10 else d])
        args = [new, old, step]
        ok = self.expected_map(nums, args) is not None
        hist['accepted_expected' if ok else 'rejected_expected'] += 1
        hist['overlap_family'] = hist.get('overlap_family', 0) + 1
        trap = rng.choice(nums[i0:]) if ok and rng.random() < 0.8 else None
        if trap == 0:
            trap = None                    # ON ERROR GOTO 0 = no trap; line 0 is then renumbered with the trap off
        run = trap is not None and rng.random() < 0.5
        prog = []
        for k in nums:
            t = rng.choice(['GOTO {n}', 'GOSUB {n}', 'IF A THEN {n} ELSE {n}', 'ON A GOTO {n},{n}', 'PRINT {n}', 'REM',
                            'RESTORE {n}', 'IF ERL={n} THEN {n}', 'RESUME {n}'])
            while '{n}' in t:
                t = t.replace('{n}', str(rng.choice(nums)), 1)
            prog.append([k, t])
        if run:
            prog[0][1] = 'ON ERROR GOTO %d:END' % trap
        events = [e for e in (rng.choice(nums) for _ in range(rng.randrange(0, 3))) if e != 0]
        hist['on_error'] += trap is not None
        hist['events'] += bool(events)
        return {'mem': 65534, 'prog': prog, 'on_error': None if run else trap, 'events': events, 'args': args,
                'run': run}

    # ---- independent reading of the numbering rule
    @staticmethod
    def expected_map(nums, args):
        """old->new for an accepted RENUM, None if it must be rejected (Illegal function call)."""
        new, old, step = args
        if step is not None and step < 1:
            return None
        new = 10 if new is None else new
        old = 0 if old is None else old
        step = 10 if step is None else step
        if any(k < old and new <= k for k in nums):
            return None
        m = {}
        for k in sorted(nums):
            if k >= old:
                if new > 65529:
                    return None
                m[k] = new
                new += step
        return m

    # ---- implementation
    def _run(self, case):
        key = core.sha(case)
        cache = self.__dict__.setdefault('_runs', {})
        if key in cache:
            return cache[key]
        mem = case['mem']
        s = c13.session(mem)
        res = {'host': None, 'bufs': []}
        try:
            with core.time_limit(60):
                s.execute(b'NEW')
                s.execute(b'ON ERROR GOTO 0')
                p = s._impl.program
                interp = s._impl.interpreter
                events = s._impl.basic_events
                for h in events.all:
                    h.set_jump(None)
                res['cs'] = s._impl.memory.code_start
                res['limit'] = s._impl.memory.stack_start()
                for n, t in case['prog']:
                    tb = c13.txt(t)
                    res['bufs'].append(c13.tokenise(s, n, tb))
                    s.execute(b'%d %s' % (n, tb))
                if case.get('run'):
                    # the program itself executes ON ERROR GOTO n and ends: the trap stays active
                    with core.time_limit(10):
                        s.execute(b'RUN')
                # traps through the real statements (direct mode)
                if case['on_error'] is not None:
                    s.execute(b'ON ERROR GOTO %d' % case['on_error'])
                for i, e in enumerate(case['events']):
                    s.execute([b'ON TIMER(5) GOSUB %d', b'ON KEY(3) GOSUB %d', b'ON KEY(12) GOSUB %d'][i % 3] % e)
                res['pre_on_error'] = interp.on_error
                res['pre_gosubs'] = [h.gosub for h in events.all]
                res['pre_code'] = bytes(p.bytecode.getvalue())
                res['pre_lines'] = dict(p.line_numbers)
                res['pre_last'] = p.last_stored
                rec = []
                orig = p.renum

                def wrap(*a):
                    r = orig(*a)
                    rec.append(list(r.items()))
                    return r
                p.renum = wrap
                a = [b'' if x is None else b'%d' % x for x in case['args']]
                cmd = b'RENUM ' + a[0]
                if case['args'][1] is not None or case['args'][2] is not None:
                    cmd += b',' + a[1]
                if case['args'][2] is not None:
                    cmd += b',' + a[2]
                try:
                    out = s.execute(cmd)
                    res['err'] = c13.err_of(out)
                    res['out'] = out
                except Exception as e:
                    res['host'] = '%s: %s' % (type(e).__name__, e)
                    res['hostk'] = common.canon_exc(e)[1]
                    res['out'] = b''
                finally:
                    del p.renum
                res['o2n'] = rec[0] if rec else None
                res['reports'] = [(int(a), int(b)) for a, b in re.findall(br'Undefined line (\d+) in (\d+)', res['out'])]
                res['obs'] = c13.state_obs(p)
                res['code'] = bytes(p.bytecode.getvalue())
                res['lines'] = dict(p.line_numbers)
                if not res['host']:
                    # after ANY command, failed or not: the index equals a rescan of the code
                    q = copy.copy(p)
                    q.bytecode = copy.deepcopy(p.bytecode)
                    q.line_numbers = dict(p.line_numbers)
                    q.rebuild_line_dict()
                    res['rescan'] = (bytes(q.bytecode.getvalue()), dict(q.line_numbers))
                res['on_error'] = interp.on_error
                res['gosubs'] = [h.gosub for h in events.all]
                s.execute(b'ON ERROR GOTO 0')
                if res['host']:
                    c13.drop_session(mem)
        except Exception:
            c13.drop_session(mem)
            raise
        cache[key] = res
        return res

    @staticmethod
    def enc_opt(x):
        return -1 if x is None else x

    def impl(self, case):
        r = self._run(case)
        if r['host']:
            return [2, r['hostk']]
        if r['err']:
            return [1, r['err'], r['obs'][-1]]
        o2n = []
        for k, v in r['o2n'] or []:
            o2n += [k, v]
        rep = []
        for a, b in r['reports']:
            rep += [a, b]
        return ([0] + r['obs'] + [len(o2n) // 2] + o2n + [len(rep) // 2] + rep
                + [self.enc_opt(r['on_error']), len(r['gosubs'])] + [self.enc_opt(g) for g in r['gosubs']])

    def model_term(self, case):
        r = self._run(case)
        ops = '; '.join('OStore %s' % c13.zl_rle(b) for b in r['bufs'])
        tr = '{| on_error := %s; gosubs := [%s] |}' % (c13.opt(r['pre_on_error']),
                                                       '; '.join(c13.opt(g) for g in r['pre_gosubs']))
        a = case['args']
        return ('(renum_obs_full (run {| cs := %d; limit := %d |} [%s]) %s %s %s %s)'
                % (r['cs'], r['limit'], ops, tr, c13.opt(a[0]), c13.opt(a[1]), c13.opt(a[2])))

    # ---- property oracle
    def oracle(self, case, out):
        r = self._run(case)
        if r['host']:
            return 'host exception escaped from RENUM: %s' % r['host']
        pre = split_lines(r['pre_code'], r['pre_lines'])
        nums = sorted(pre)
        m = self.expected_map(nums, case['args'])
        if m is None:
            if r['err'] != 5:
                return 'RENUM %s must be rejected with Illegal function call, got error %s' % (case['args'], r['err'])
            if r['code'] != r['pre_code'] or r['lines'] != r['pre_lines']:
                return 'rejected RENUM changed the program'
            if r['rescan'] != (r['code'], r['lines']):
                return 'after a rejected RENUM the index differs from a rescan of the code'
            return None
        if r['err']:
            return 'RENUM %s must be accepted, got error %d' % (case['args'], r['err'])
        if r['rescan'] != (r['code'], r['lines']):
            return 'after RENUM the index differs from a rescan of the code'
        # numbering: new, new+step, ... in the original order; positions unchanged
        exp_lines = {m.get(k, k): p for k, p in r['pre_lines'].items()}
        if r['lines'] != exp_lines:
            return 'line numbers/positions after RENUM are not the expected ones'
        if len(r['code']) != len(r['pre_code']):
            return 'program size changed'
        post = split_lines(r['code'], r['lines'])
        exp_reports = []
        for k in nums:
            p, body, stored = pre[k]
            p2, body2, stored2 = post[m.get(k, k)]
            if stored2 != m.get(k, k):
                return 'line %d: stored line number is %d, expected %d' % (k, stored2, m.get(k, k))
            if r['code'][p + 1:p + 3] != r['pre_code'][p + 1:p + 3]:
                return 'line %d: link field changed' % k
            exp = bytearray(body)
            for off, j, ex in parse_refs(body):
                if ex:
                    continue
                if j in m:
                    exp[off:off + 2] = struct.pack('<H', m[j])
                elif j not in pre:
                    exp_reports.append((j, k))
            if bytes(exp) != body2:
                return ('line %d: a reference was not rewritten to the new number of the same line, or other '
                        'bytes changed' % k)
        if r['reports'] != exp_reports:
            return 'Undefined-line reports %s, expected %s' % (r['reports'][:5], exp_reports[:5])
        # traps follow their lines
        e0 = r['pre_on_error']
        if r['on_error'] != (m.get(e0, e0) if e0 else e0):
            return 'ON ERROR trap line %s became %s' % (e0, r['on_error'])
        for g0, g1 in zip(r['pre_gosubs'], r['gosubs']):
            if g1 != (m.get(g0, g0) if g0 else g0):
                return 'event trap line %s became %s' % (g0, g1)
        return None

    def shrink_candidates(self, case):
        """Only the program and the event traps are shortened (args must keep its three entries)."""
        for k in ('prog', 'events'):
            v = case[k]
            for i in range(len(v)):
                d = dict(case)
                d[k] = v[:i] + v[i + 1:]
                yield d

    def nontrivial(self, case, out):
        r = self._run(case)
        return not r['host'] and not r['err'] and bool(r['o2n'])


CHECK = C14
