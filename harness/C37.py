"""C37 - The keyboard buffer is a 15-key FIFO mirrored in BIOS memory."""
import queue

from vlib import core
from harness import common

# operations of a case (json-able):
#   ['D', [bytes], scan|None]   key-down event through the input queue (limit checked)
#   ['J', [[bytes], ...]]       Session.press_keys of these keystrokes (limit ignored, scancode None)
#   ['I']                       INKEY$
#   ['S', n]                    INPUT$(n)   (only generated when n keystrokes are waiting)
#   ['P', addr]                 PEEK(addr)  with DEF SEG=0
#   ['K', addr, value]          POKE addr, value
#   ['F', dst, src]             POKE dst, PEEK(src)

SLOT_LO, SLOT_HI = 1054, 1086
F_KEYS = set(range(0x3b, 0x45)) | {0x85, 0x86}
EASCII_SECOND = [0x47, 0x48, 0x49, 0x4b, 0x4d, 0x4f, 0x50, 0x51, 0x52, 0x53, 0x0f, 0x1e, 0x78]
SCAN_POOL = [s for s in range(0, 0x58) if s != 0x46] + [0x59, 0x7f, 0x80, 0xff]
HANG_LIMIT = 8


def key_pool_char(rng):
    r = rng.random()
    if r < 0.12:
        return [0, rng.choice(EASCII_SECOND)]
    if r < 0.2:
        return [rng.choice([13, 27, 8, 9, 32, 127, 1, 26])]
    if r < 0.23:
        return []
    c = rng.randrange(1, 128)
    return [c if c != 3 else 65]      # ctrl+c is turned into ctrl+break by the event queue


class Ref(object):
    """Independent reading of the property: the BIOS keyboard ring.  16 two-byte slots of memory, a head and
    a tail pointer; at most 15 keystrokes wait; a keystroke arriving when 15 wait is dropped; a read takes the
    slot at head; the waiting keystrokes are the slots from head up to tail; poking a pointer moves only that
    pointer, poking a slot changes only that slot.  What the property leaves open is `None` (unknown): the
    initial slot contents, the slot GW-BASIC scribbles a CR into when a key is dropped, the char stored by
    poking 0 / &HE0 into a slot."""

    def __init__(self):
        self.mem = [[None, None] for _ in range(16)]
        self.head = 0
        self.count = 0
        self.over = False     # more than 15 waiting through press_keys: outside the property

    @property
    def tail(self):
        return (self.head + self.count) % 16

    def press(self, c, scan, limited):
        if not c:
            return
        if self.count >= 15:
            if limited:
                self.mem[self.tail] = [None, None]
            else:
                self.over = True
            return
        self.mem[self.tail] = [bytes(c), scan or 0]
        self.count += 1

    def read(self):
        if self.count == 0:
            return b''
        c = self.mem[self.head][0]
        self.head = (self.head + 1) % 16
        self.count -= 1
        return c

    def peek(self, addr):
        if addr == 1050:
            return 30 + 2 * self.head
        if addr == 1052:
            return 30 + 2 * self.tail
        if addr in (1051, 1053):
            return 0
        if SLOT_LO <= addr < SLOT_HI:
            c, scan = self.mem[(addr - SLOT_LO) // 2]
            if (addr - SLOT_LO) % 2:
                return scan
            if c is None:
                return None
            return c[0] if c else 0
        return None

    def poke(self, addr, v):
        if not 0 <= v <= 255:
            return
        if addr == 1050:
            tail = self.tail
            self.head = ((v - 30) // 2) % 16
            self.count = (tail - self.head) % 16
        elif addr == 1052:
            self.count = (((v - 30) // 2) % 16 - self.head) % 16
        elif SLOT_LO <= addr < SLOT_HI:
            slot = self.mem[(addr - SLOT_LO) // 2]
            if (addr - SLOT_LO) % 2:
                slot[1] = v
            else:
                slot[0] = None if v in (0, 0xe0) else bytes([v])


class C37(core.Check):
    ID = 'C37'
    GEN = ['gen_keybuf']
    PROPS = 'props/C37.v'
    MODEL_IMPORTS = ['gen.Gen_keybuf', 'model.KeyBuf']
    QUICK_CASES = 800
    THOROUGH_CASES = 12000
    TRUSTED = ['hand model model/KeyBuf.v of the list operations of KeyboardBuffer (append, index with IndexError, '
               'slice, comprehensions) and of the 1050..1085 branches of Memory._get/_set_low_memory, all integer '
               'expressions regenerated; tied by correspondence through a real Session (key-down events on the '
               'input queue, press_keys, INKEY$, INPUT$, PEEK, POKE)',
               'function-key macro expansion in Keyboard._read_kybd_byte, Alt+keypad entry, KEY(n) trapping and the '
               'console editor (INPUT statement) sit above the buffer and are not modelled; keys F1..F12 are not '
               'generated']
    RULE = ('histories of 1..90 operations (key-down events, press_keys, INKEY$, INPUT$(n), PEEK 1050..1085, POKE of '
            'the pointers 1050/1052 incl. out-of-range values and POKE dst,PEEK(src), POKE of slot bytes) run in a '
            'fresh Session(peek_values={}) with DEF SEG=0; outputs compared with the Coq model and with an '
            'independent BIOS-ring reference; non-trivial = at least one non-empty key was read; distinct by hash')
    histogram = None
    hangs = 0

    # ---- cases
    def corpus(self):
        abc = [[97], [98], [99]]
        c = []
        # D12 witnesses
        c.append({'ops': [['J', abc], ['F', 1050, 1052], ['I'], ['I']]})
        c.append({'ops': [['D', [97], 30], ['D', [98], 48], ['D', [99], 46], ['F', 1052, 1050], ['I'], ['P', 1050], ['P', 1052]]})
        c.append({'ops': [['J', [[97], [98], [99], [100], [101]]], ['K', 1050, 34], ['I'], ['I'], ['I'], ['I']] +
                         [['P', a] for a in range(1050, 1066)]})
        c.append({'ops': [['D', [97], 30], ['K', 1050, 0], ['P', 1050], ['P', 1052], ['I']]})
        c.append({'ops': [['D', [97], 30], ['K', 1052, 255], ['P', 1050], ['P', 1052], ['I'], ['I']]})
        # full buffer: 15 accepted, 16th dropped (+ the CR quirk visible in the slot at tail), read all
        full = [['D', [65 + i], 30 + i] for i in range(17)]
        c.append({'ops': full + [['P', a] for a in range(1050, 1086)] + [['I']] * 16})
        # wrap-around several times
        w = []
        for r in range(5):
            w += [['D', [97 + i], 30 + i] for i in range(10)] + [['I']] * 9 + [['P', 1050], ['P', 1052]]
        c.append({'ops': w + [['P', a] for a in range(1054, 1086)] + [['I']] * 6})
        # empty reads, empty chars, eascii keys, INPUT$
        c.append({'ops': [['I'], ['D', [], 30], ['I'], ['D', [0, 72], 72], ['D', [100], 32], ['S', 2], ['I']]})
        # slot pokes change waiting keys; 0 / &HE0 give an empty char that still consumes a read
        c.append({'ops': [['D', [97], 30], ['D', [98], 48], ['K', 1054, 120], ['K', 1055, 7], ['K', 1056, 0],
                          ['P', 1054], ['P', 1055], ['P', 1056], ['I'], ['I'], ['I']]})
        # press_keys beyond 15 (limit ignored), then a limited key press, then pokes
        c.append({'ops': [['J', [[65 + i] for i in range(20)]], ['D', [122], 44], ['P', 1050], ['P', 1052]] +
                         [['I']] * 3 + [['F', 1050, 1052], ['I']]})
        c.append({'ops': [['K', 1050, 256], ['K', 1050, 31], ['P', 1050], ['K', 1052, 61], ['P', 1052], ['I']]})
        # overflow with the head not at slot 0: the uncounted CR lands in the free slot before head
        c.append({'ops': [['D', [65], 30]] * 5 + [['I']] * 5 + [['D', [66 + i], 48 + i] for i in range(17)] +
                         [['P', a] for a in range(1050, 1086)] + [['I']] * 16})
        # pointer pokes to / from ring slot 0 with keys waiting across the wrap
        c.append({'ops': [['D', [97 + i], 30 + i] for i in range(14)] + [['I']] * 12 +
                         [['D', [65 + i], 30] for i in range(6)] + [['P', 1050], ['P', 1052], ['K', 1050, 30],
                          ['P', 1050], ['P', 1052], ['I'], ['K', 1052, 30], ['P', 1050], ['P', 1052], ['I'],
                          ['K', 1052, 32], ['I'], ['I'], ['F', 1050, 1052], ['I']]})
        # head index far beyond 32 (the internal list only grows), then every slot incl. slot 15 peeked / poked
        w = []
        for r in range(8):
            w += [['D', [48 + (7 * r + i) % 70], 2 + i] for i in range(13)] + [['I']] * 13
        c.append({'ops': w + [['D', [120], 45], ['D', [121], 21], ['K', 1084, 90], ['K', 1085, 44], ['K', 1086, 1],
                              ['K', 1053, 9], ['K', 1051, 9]] + [['P', a] for a in range(1050, 1086)] + [['I']] * 3})
        return c

    def gen_case(self, rng):
        style = rng.choice(['mixed', 'mixed', 'fill', 'wrap', 'poke', 'inject'])
        n = rng.choice([1, 2, 5, 10, 20, 30, 40, 60, 90]) if style != 'wrap' else rng.choice([60, 90])
        w = {'mixed': dict(D=40, I=25, P=12, KP=6, F=3, KS=4, J=5, S=5),
             'fill': dict(D=65, I=12, P=10, KP=3, F=2, KS=3, J=2, S=3),
             'wrap': dict(D=45, I=40, P=8, KP=1, F=1, KS=1, J=1, S=3),
             'poke': dict(D=30, I=20, P=20, KP=14, F=6, KS=8, J=1, S=1),
             'inject': dict(D=20, I=20, P=12, KP=5, F=3, KS=3, J=32, S=5)}[style]
        kinds, weights = list(w), list(w.values())
        ref = Ref()
        ops = []
        for _ in range(n):
            k = rng.choices(kinds, weights)[0]
            if k == 'D':
                c = key_pool_char(rng)
                scan = None if rng.random() < 0.05 else rng.choice(SCAN_POOL)
                ops.append(['D', c, scan])
                ref.press(c, scan, True)
            elif k == 'J':
                m = rng.choice([1, 1, 2, 3, 5]) if style != 'inject' or rng.random() < 0.8 else rng.randrange(6, 20)
                ks = [c for c in (key_pool_char(rng) for _ in range(m)) if c and c != [0]]
                if not ks:
                    continue
                ops.append(['J', ks])
                for c in ks:
                    ref.press(c, None, False)
            elif k == 'I':
                ops.append(['I'])
                ref.read()
            elif k == 'S':
                if ref.count == 0 or ref.over:
                    continue
                m = rng.randrange(1, min(ref.count, 4) + 1)
                ops.append(['S', m])
                for _ in range(m):
                    ref.read()
            elif k == 'P':
                a = rng.choice([1050, 1051, 1052, 1053]) if rng.random() < 0.4 else rng.randrange(SLOT_LO, SLOT_HI)
                ops.append(['P', a])
            elif k == 'KP':
                a = rng.choice([1050, 1052])
                r = rng.random()
                if r < 0.7:
                    v = 30 + 2 * rng.randrange(16) + (1 if rng.random() < 0.1 else 0)
                elif r < 0.95:
                    v = rng.choice([0, 1, 28, 29, 62, 63, 64, 94, 127, 128, 254, 255, rng.randrange(256)])
                else:
                    v = rng.choice([256, 300])
                ops.append(['K', a, v])
                ref.poke(a, v)
            elif k == 'F':
                dst, src = rng.choice([(1050, 1052), (1050, 1052), (1052, 1050), (1050, 1050), (1052, 1052)])
                ops.append(['F', dst, src])
                ref.poke(dst, ref.peek(src))
            elif k == 'KS':
                a = rng.randrange(SLOT_LO, SLOT_HI)
                v = rng.choice([0, 0xe0, 13, 65, 97, 255, rng.randrange(256)])
                ops.append(['K', a, v])
                ref.poke(a, v)
        return {'ops': ops}

    def gen_cases(self, n):
        hist = {}
        out = []
        for _ in range(n):
            c = self.gen_case(self.rng)
            out.append(c)
            for o in c['ops']:
                hist[o[0]] = hist.get(o[0], 0) + 1
            ln = len(c['ops'])
            b = 'len<=5' if ln <= 5 else 'len<=30' if ln <= 30 else 'len>30'
            hist[b] = hist.get(b, 0) + 1
        self.histogram = hist
        return out

    # ---- implementation
    def impl(self, case):
        if C37.hangs >= HANG_LIMIT and any(
                o[0] == 'S' or (o[0] == 'K' and o[1] in (1050, 1052) and not 30 <= o[2] <= 61)
                for o in case['ops']):
            # only reachable on a broken tree: do not spend the whole budget waiting for hangs
            raise RuntimeError('skipped (INPUT$ / out-of-range pointer poke): %d earlier cases already hung'
                               % C37.hangs)
        from pcbasic.basic.base import signals
        out = []
        s = common.new_session(peek_values={})
        try:
            with core.time_limit(3):
                s.start()
                impl = s._impl
                impl.queues.tick = 0            # INKEY$ sleeps one tick per call
                q = queue.Queue()
                impl.queues.set(inputs=q)
                s.execute('DEF SEG=0')
                for o in case['ops']:
                    k = o[0]
                    if k == 'D':
                        q.put(signals.Event(signals.KEYB_DOWN, (bytes(o[1]).decode('latin-1'), o[2], [])))
                        impl.queues.check_events()
                    elif k == 'J':
                        s.press_keys(u''.join(bytes(c).decode('latin-1') for c in o[1]))
                    elif k == 'I':
                        r = s.evaluate('INKEY$')
                        out += [len(r)] + list(r)
                    elif k == 'S':
                        r = s.evaluate('INPUT$(%d)' % o[1])
                        # None: INPUT$ raised Input past end (a waiting key with an empty char was read)
                        out += ([len(r)] + list(r)) if r is not None else [-2]
                    elif k == 'P':
                        r = s.evaluate('PEEK(%d)' % o[1])
                        out.append(int(r))
                    elif k == 'K':
                        s.execute('POKE %d,%d' % (o[1], o[2]))
                    elif k == 'F':
                        s.execute('POKE %d,PEEK(%d)' % (o[1], o[2]))
                    else:
                        raise ValueError(k)
        except TimeoutError:
            C37.hangs += 1
            raise
        finally:
            try:
                with core.time_limit(4):
                    s.close()
            except Exception:
                pass
        return out

    # ---- model
    @staticmethod
    def coq_op(o):
        k = o[0]
        if k == 'D':
            return ['Down %s %d' % (core.zl(o[1]), o[2] or 0)]
        if k == 'J':
            return ['Inject %s' % core.zl(c) for c in o[1]]
        if k == 'I':
            return ['Inkey']
        if k == 'S':
            return ['InputS %d' % o[1]]
        if k == 'P':
            return ['Peek %d' % o[1]]
        if k == 'K':
            return ['Poke %d %d' % (o[1], o[2])]
        if k == 'F':
            return ['PokeFrom %d %d' % (o[1], o[2])]
        raise ValueError(k)

    def model_term(self, case):
        ops = [t for o in case['ops'] for t in self.coq_op(o)]
        return '(run_out [%s])' % '; '.join(ops)

    # ---- property oracle (no Coq model involved)
    def oracle(self, case, out):
        ref = Ref()
        pos = 0

        def take_bytes():
            nonlocal pos
            if pos < len(out) and out[pos] == -2:
                pos += 1
                return 'error'
            if pos >= len(out) or out[pos] < 0:
                return None
            n = out[pos]
            b = bytes(out[pos + 1:pos + 1 + n])
            pos += 1 + n
            return b
        for i, o in enumerate(case['ops']):
            if ref.over:
                return None
            k = o[0]
            if k == 'D':
                ref.press(o[1], o[2], True)
            elif k == 'J':
                for c in o[1]:
                    ref.press(c, None, False)
            elif k in ('I', 'S'):
                got = take_bytes()
                if got is None:
                    return 'op %d %s: no result (exception marker or truncated output)' % (i, o)
                exp = b''
                unknown = False
                for _ in range(1 if k == 'I' else o[1]):
                    c = ref.read()
                    if c is None:
                        unknown = True
                    else:
                        exp += c
                if not unknown and got != exp:
                    if got == 'error':
                        return 'op %d %s failed, the FIFO / BIOS ring holds %r' % (i, o, exp)
                    return 'op %d %s returned %r, the FIFO / BIOS ring holds %r' % (i, o, got, exp)
            elif k == 'P':
                if pos >= len(out):
                    return 'op %d %s: no result' % (i, o)
                got = out[pos]
                pos += 1
                exp = ref.peek(o[1])
                if exp is not None and got != exp:
                    return 'op %d PEEK(%d) = %d, expected %d (head %d, tail %d)' % (
                        i, o[1], got, exp, 30 + 2 * ref.head, 30 + 2 * ref.tail)
                if exp is None and SLOT_LO <= o[1] < SLOT_HI:
                    # learn what the property leaves open
                    slot = ref.mem[(o[1] - SLOT_LO) // 2]
                    if (o[1] - SLOT_LO) % 2:
                        slot[1] = got
            elif k == 'K':
                ref.poke(o[1], o[2])
            elif k == 'F':
                v = ref.peek(o[2])
                if v is None:
                    return None
                ref.poke(o[1], v)
        return None

    def nontrivial(self, case, out):
        pos = 0
        for o in case['ops']:
            if o[0] in ('I', 'S'):
                if pos < len(out) and out[pos] > 0:
                    return True
                pos += 1 + (out[pos] if pos < len(out) and out[pos] >= 0 else 0)
            elif o[0] == 'P':
                pos += 1
        return False


CHECK = C37
