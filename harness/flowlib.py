"""Shared machinery of the C19 / C21 checks (model/Flow.v, model/FlowRef.v).

Abstract programs (JSON-able):
  expr  := int | ['v', i] | [op, a, b] (op in + - \\ < <= = <> >= >) | 'ERR' | 'ERL'
  slot  := ['L', n] | ['P', e] | ['=', v, e] | ['F', v, a, b, s] | ['N', [v...]] | ['W', c] | ['D']
         | ['GS', n] | ['R', n|None] | ['G', n] | ['IF', c, j|None] | ['EL', j|None]
         | ['ON', e, gosub, [n...]] | ['END'] | ['ERR', e] | ['OEG', n] | ['RES', 'S'|'N'|n]
  flat program = list of slots beginning with ['L', n]; direct line = list of slots (no 'L') or None (= RUN)
  structured statement := ['line', n] | ['print', e] | ['let', v, e] | ['for', v, a, b, s, named, body]
         | ['while', c, body] | ['if', c, th, el, n] | ['gosub', n] | ['ongosub', e, [n...]]
  structured program = {'main': block, 'subs': [[n, block], ...]}

This module provides: BASIC text and Coq terms for them, the layout (compile) of structured programs,
a step-limited runner of the real interpreter, and two reference interpreters written independently of the
Coq model (RefFlat: GW-BASIC statement semantics on a two-level line/statement program; ref_struct: a
recursive interpreter of structured programs, loops as Python loops and GOSUB as a Python call)."""
import io
import re

from vlib import core
from harness import common

VARS = ['A%', 'B%', 'C%', 'D%', 'I%', 'J%', 'K%', 'N%']
FUEL = 1500          # model steps / implementation statements before "runs for ever" is declared
SHORT = 300          # generated terminating cases take at most this many reference steps ...
LONG = 12000         # ... and generated diverging cases at least this many

# GW-BASIC error messages (own copy: the implementation's table is what is being checked)
MESSAGES = {
    1: 'NEXT without FOR', 2: 'Syntax error', 3: 'RETURN without GOSUB', 4: 'Out of DATA',
    5: 'Illegal function call', 6: 'Overflow', 7: 'Out of memory', 8: 'Undefined line number',
    9: 'Subscript out of range', 10: 'Duplicate Definition', 11: 'Division by zero', 12: 'Illegal direct',
    13: 'Type mismatch', 14: 'Out of string space', 15: 'String too long', 16: 'String formula too complex',
    17: "Can't continue", 18: 'Undefined user function', 19: 'No RESUME', 20: 'RESUME without error',
    22: 'Missing operand', 23: 'Line buffer overflow', 24: 'Device Timeout', 25: 'Device Fault',
    26: 'FOR without NEXT', 27: 'Out of paper', 29: 'WHILE without WEND', 30: 'WEND without WHILE',
    50: 'FIELD overflow', 51: 'Internal error', 52: 'Bad file number', 53: 'File not found',
    54: 'Bad file mode', 55: 'File already open', 57: 'Device I/O error', 58: 'File already exists',
    61: 'Disk full', 62: 'Input past end', 63: 'Bad record number', 64: 'Bad file name',
    66: 'Direct statement in file', 67: 'Too many files', 68: 'Device Unavailable',
    69: 'Communication buffer overflow', 70: 'Permission Denied', 71: 'Disk not Ready',
    72: 'Disk media error', 73: 'Advanced Feature', 74: 'Rename across disks',
    75: 'Path/File access error', 76: 'Path not found', 77: 'Deadlock',
}


def message(code):
    return MESSAGES.get(code, 'Unprintable error')


# ---------------------------------------------------------------------------------------------------------
# BASIC text

CMPS = ('<', '<=', '=', '<>', '>=', '>')


def etext(e, top=True):
    if isinstance(e, int):
        return str(e) if e >= 0 else '(%d)' % e
    if e == 'ERR' or e == 'ERL':
        return e
    if e[0] == 'v':
        return VARS[e[1]]
    s = '%s%s%s' % (etext(e[1], False), e[0], etext(e[2], False))
    return s if top else '(' + s + ')'


def stext(s):
    k = s[0]
    if k == 'P':
        return 'PRINT ' + etext(s[1])
    if k == '=':
        return '%s=%s' % (VARS[s[1]], etext(s[2]))
    if k == 'F':
        return 'FOR %s=%s TO %s STEP %s' % (VARS[s[1]], etext(s[2]), etext(s[3]), etext(s[4]))
    if k == 'N':
        return 'NEXT' + (' ' + ','.join(VARS[v] for v in s[1]) if s[1] else '')
    if k == 'W':
        return 'WHILE ' + etext(s[1])
    if k == 'D':
        return 'WEND'
    if k == 'GS':
        return 'GOSUB %d' % s[1]
    if k == 'R':
        return 'RETURN' + ('' if s[1] is None else ' %d' % s[1])
    if k == 'G':
        return 'GOTO %d' % s[1]
    if k == 'IF':
        return 'IF %s THEN' % etext(s[1]) + ('' if s[2] is None else ' %d' % s[2])
    if k == 'EL':
        return 'ELSE' + ('' if s[1] is None else ' %d' % s[1])
    if k == 'ON':
        return 'ON %s %s %s' % (etext(s[1]), 'GOSUB' if s[2] else 'GOTO', ','.join('%d' % n for n in s[3]))
    if k == 'END':
        return 'END'
    if k == 'ERR':
        return 'ERROR ' + etext(s[1])
    if k == 'OEG':
        return 'ON ERROR GOTO %d' % s[1]
    if k == 'RD':
        return 'READ ' + ','.join(VARS[v] for v in s[1])
    if k == 'DT':
        return 'DATA ' + ','.join('%d' % z for z in s[1])
    if k == 'RS':
        return 'RESTORE' + ('' if s[1] is None else ' %d' % s[1])
    if k == 'RES':
        return 'RESUME' + ('' if s[1] == 'S' else ' NEXT' if s[1] == 'N' else ' %d' % s[1])
    raise ValueError(s)


def then_joined(s):
    return (s[0] == 'IF' and s[2] is None) or (s[0] == 'EL' and s[1] is None)


def join(slots):
    out = ''
    prev = None
    for s in slots:
        t = stext(s)
        if prev is None:
            out = t
        elif then_joined(prev) or s[0] == 'EL':
            out += ' ' + t
        else:
            out += ':' + t
        prev = s
    return out


def split_lines(prog):
    """flat program -> [(n, [slots])]"""
    lines = []
    for s in prog:
        if s[0] == 'L':
            lines.append((s[1], []))
        else:
            lines[-1][1].append(s)
    return lines


def program_text(prog):
    return [('%d %s' % (n, join(sl))) for n, sl in split_lines(prog)]


def valid_layout(prog):
    """can this flat program be typed in as it is? (starts with a line, no empty lines, increasing numbers,
    lines short enough)"""
    if not prog or prog[0][0] != 'L':
        return False
    lines = split_lines(prog)
    nums = [n for n, _ in lines]
    if nums != sorted(set(nums)) or any(not (0 <= n <= 65529) for n in nums):
        return False
    for n, sl in lines:
        for a, b in zip(sl, sl[1:]):
            if a[0] == 'DT' and b[0] == 'EL':
                return False        # DATA swallows the text up to the next colon, ELSE included
    return all(sl and len('%d %s' % (n, join(sl))) < 250 for n, sl in lines)


# ---------------------------------------------------------------------------------------------------------
# Coq terms

def zc(n):
    return '(%d)' % n if n < 0 else '%d' % n


def oz(n):
    return 'None' if n is None else '(Some %s)' % zc(n)


def nat(n):
    return '%d%%nat' % n


COQ_CMP = {'<': 'CLt', '<=': 'CLe', '=': 'CEq', '<>': 'CNe', '>=': 'CGe', '>': 'CGt'}


def ecoq(e):
    if isinstance(e, int):
        return '(EConst %s)' % zc(e)
    if e == 'ERR':
        return 'EErr'
    if e == 'ERL':
        return 'EErl'
    if e[0] == 'v':
        return '(EVar %s)' % nat(e[1])
    a, b = ecoq(e[1]), ecoq(e[2])
    if e[0] == '+':
        return '(EAdd %s %s)' % (a, b)
    if e[0] == '-':
        return '(ESub %s %s)' % (a, b)
    if e[0] == '\\':
        return '(EIDiv %s %s)' % (a, b)
    return '(ECmp %s %s %s)' % (COQ_CMP[e[0]], a, b)


def zlist(l):
    return '[' + '; '.join(zc(x) for x in l) + ']'


def scoq(s):
    k = s[0]
    if k == 'L':
        return 'SLine %s' % zc(s[1])
    if k == 'P':
        return 'SPrint %s' % ecoq(s[1])
    if k == '=':
        return 'SLet %s %s' % (nat(s[1]), ecoq(s[2]))
    if k == 'F':
        return 'SFor %s %s %s %s' % (nat(s[1]), ecoq(s[2]), ecoq(s[3]), ecoq(s[4]))
    if k == 'N':
        return 'SNext [%s]' % '; '.join(nat(v) for v in s[1])
    if k == 'W':
        return 'SWhile %s' % ecoq(s[1])
    if k == 'D':
        return 'SWend'
    if k == 'GS':
        return 'SGosub %s' % zc(s[1])
    if k == 'R':
        return 'SReturn %s' % oz(s[1])
    if k == 'G':
        return 'SGoto %s' % zc(s[1])
    if k == 'IF':
        return 'SIf %s %s' % (ecoq(s[1]), oz(s[2]))
    if k == 'EL':
        return 'SElse %s' % oz(s[1])
    if k == 'ON':
        return 'SOn %s %s %s' % (ecoq(s[1]), 'true' if s[2] else 'false', zlist(s[3]))
    if k == 'END':
        return 'SEnd'
    if k == 'ERR':
        return 'SError %s' % ecoq(s[1])
    if k == 'OEG':
        return 'SOnErrorGoto %s' % zc(s[1])
    if k == 'RD':
        return 'SRead [%s]' % '; '.join(nat(v) for v in s[1])
    if k == 'DT':
        return 'SData %s' % zlist(s[1])
    if k == 'RS':
        return 'SRestore %s' % oz(s[1])
    if k == 'RES':
        return 'SResume %s' % ('RSame' if s[1] == 'S' else 'RNext' if s[1] == 'N' else '(RLine %s)' % zc(s[1]))
    raise ValueError(s)


def code_coq(prog, direct):
    return '[' + '; '.join([scoq(s) for s in prog] + ['SEndProg'] + [scoq(s) for s in (direct or [])]) + ']'


def tcoq(s):
    k = s[0]
    if k == 'line':
        return 'TLine %s' % zc(s[1])
    if k == 'print':
        return 'TPrint %s' % ecoq(s[1])
    if k == 'let':
        return 'TLet %s %s' % (nat(s[1]), ecoq(s[2]))
    if k == 'for':
        return 'TFor %s %s %s %s %s %s' % (nat(s[1]), ecoq(s[2]), ecoq(s[3]), ecoq(s[4]),
                                            'true' if s[5] else 'false', bcoq(s[6]))
    if k == 'while':
        return 'TWhile %s %s' % (ecoq(s[1]), bcoq(s[2]))
    if k == 'if':
        return 'TIf %s %s %s %s' % (ecoq(s[1]), bcoq(s[2]), bcoq(s[3]), zc(s[4]))
    if k == 'gosub':
        return 'TGosub %s' % zc(s[1])
    if k == 'ongosub':
        return 'TOnGosub %s %s' % (ecoq(s[1]), zlist(s[2]))
    raise ValueError(s)


def bcoq(b):
    return '[' + '; '.join(tcoq(s) for s in b) + ']'


def sprog_coq(p):
    subs = '; '.join('(%s, %s)' % (zc(n), bcoq(b)) for n, b in p['subs'])
    return '{| p_main := %s; p_subs := [%s] |}' % (bcoq(p['main']), subs)


# ---------------------------------------------------------------------------------------------------------
# layout of structured programs (Python port of FlowRef.compile_prog; the Coq one is what the model runs)

def cstmt(s):
    k = s[0]
    if k == 'line':
        return [['L', s[1]]]
    if k == 'print':
        return [['P', s[1]]]
    if k == 'let':
        return [['=', s[1], s[2]]]
    if k == 'for':
        return [['F', s[1], s[2], s[3], s[4]]] + cblock(s[6]) + [['N', [s[1]] if s[5] else []]]
    if k == 'while':
        return [['W', s[1]]] + cblock(s[2]) + [['D']]
    if k == 'if':
        return [['IF', s[1], None]] + cblock(s[2]) + [['EL', None]] + cblock(s[3]) + [['L', s[4]]]
    if k == 'gosub':
        return [['GS', s[1]]]
    if k == 'ongosub':
        return [['ON', s[1], 1, list(s[2])]]
    raise ValueError(s)


def cblock(b):
    out = []
    for s in b:
        out += cstmt(s)
    return out


def compile_prog(p):
    out = cblock(p['main']) + [['END']]
    for n, b in p['subs']:
        out += [['L', n]] + cblock(b) + [['R', None]]
    return out


# ---------------------------------------------------------------------------------------------------------
# running the real interpreter, step-limited

class StepLimit(BaseException):
    pass


def run_impl(prog, direct, limit=FUEL, seconds=30):
    """-> canonical result: [0]+trace | [1, err, line]+trace | [2, k] | [3] (statement limit reached)"""
    text = program_text(prog)
    cmd = 'RUN' if direct is None else join(direct)
    with common.new_session() as s:
        with core.time_limit(seconds):
            for line in text:
                s.execute(line)
            impl = s._impl
            parser = impl.interpreter.parser
            count = [0]
            orig = parser.parse_statement

            def counting(ins):
                count[0] += 1
                if count[0] > limit:
                    raise StepLimit()
                return orig(ins)
            parser.parse_statement = counting
            out = io.BytesIO()
            limited = False
            with impl.io_streams.activate():
                s.add_pipes(output_streams=out)
                try:
                    impl.execute(cmd.encode('ascii'))
                except StepLimit:
                    limited = True
                finally:
                    parser.parse_statement = orig
                    s.remove_pipes(output_streams=out)
            err_num = impl.interpreter.error_num
        if limited:
            return [3]
        return parse_output(out.getvalue(), err_num)


def run_impl_session(prog, cmds, limit=FUEL, seconds=30):
    """the commands one after the other in ONE session; results joined with 55555 after every finished one"""
    text = program_text(prog)
    res = []
    with common.new_session() as s:
        with core.time_limit(seconds):
            for line in text:
                s.execute(line)
            impl = s._impl
            parser = impl.interpreter.parser
            orig = parser.parse_statement
            for cmd in cmds:
                count = [0]

                def counting(ins, count=count):
                    count[0] += 1
                    if count[0] > limit:
                        raise StepLimit()
                    return orig(ins)
                parser.parse_statement = counting
                out = io.BytesIO()
                limited = False
                with impl.io_streams.activate():
                    s.add_pipes(output_streams=out)
                    try:
                        impl.execute(('RUN' if cmd is None else join(cmd)).encode('ascii'))
                    except StepLimit:
                        limited = True
                    finally:
                        parser.parse_statement = orig
                        s.remove_pipes(output_streams=out)
                if limited:
                    return res + [3]
                r = parse_output(out.getvalue(), impl.interpreter.error_num)
                res += r
                if r[0] == 2:
                    return res
                res.append(55555)
    return res


MSG_RE = re.compile(br'^(.*?)(?: in (\d+))?$')


def parse_output(raw, err_num):
    lines = raw.split(b'\r\n')
    if lines and lines[-1] == b'':
        lines.pop()
    trace = []
    final = None
    for idx, ln in enumerate(lines):
        if ln.endswith(b'\xff'):
            if idx != len(lines) - 1:
                return [2, 97]
            mo = MSG_RE.match(ln[:-1])
            text = mo.group(1).decode('latin-1')
            lnum = int(mo.group(2)) if mo.group(2) else 65535
            if text != message(err_num):
                return [2, 96]
            final = [1, err_num, lnum]
        else:
            t = ln.strip()
            if t == b'Division by zero':
                trace.append(77711)          # the soft message (no line number, no 0xFF)
            elif t == b'1.701412E+38':
                trace.append(88888)          # machine infinity
            elif t == b'-1.701412E+38':
                trace.append(-88888)
            elif not re.match(br'^-?\d+$', t):
                return [2, 98]
            else:
                trace.append(int(t))
    return (final or [0]) + trace


# ---------------------------------------------------------------------------------------------------------
# reference interpreter for flat programs (independent of the Coq model)

class BasicError(Exception):
    def __init__(self, code, where=None):
        Exception.__init__(self, code)
        self.code = code
        self.where = where      # (line index, statement index) that names the line of the error


class Unmodelled(Exception):
    pass


class Finish(Exception):
    pass


def i16(x):
    return -32768 <= x <= 32767


class RefFlat(object):
    """GW-BASIC control flow on a program held as lines of statements.
    A position is (li, si): li = index of the program line or -1 for the direct line; si = statement index.
    next_dir_zero_nonneg: the direction of a zero STEP is non-negative both at FOR and at NEXT."""

    def __init__(self, prog, direct):
        self.lines = split_lines(prog)
        self.direct = list(direct) if direct is not None else None
        self.lineidx = {}
        for i, (n, _) in enumerate(self.lines):
            self.lineidx.setdefault(n, i)
        self.vars = {}
        self.fors = []       # dicts: var, stop, step, body (pos after FOR), at (li, si, k) of its NEXT variable
        self.whiles = []     # (while pos, wend pos)
        self.calls = []      # position of the calling statement
        self.handler = 0
        self.in_handler = False
        self.resume = None
        self.err = 0
        self.erl = 0
        self.hard_math = False
        self.data = ('scan', 0, 0)     # DATA pointer: ('scan', li, si) or ('at', li, si, k)
        self.trace = []
        self.steps = 0

    # -- program text navigation
    def stmts(self, li):
        if li == -2:
            # a position in an EARLIER direct line (a byte offset into text that has been replaced): not modelled
            raise Unmodelled()
        return self.direct if li < 0 else self.lines[li][1]

    def new_direct_line(self, cmd):
        """a new direct line replaces the old one: positions remembered in the old one become stale"""
        def st(p):
            return (-2,) + tuple(p[1:]) if p is not None and p[0] == -1 else p
        self.calls = [st(p) for p in self.calls]
        self.resume = st(self.resume)
        self.whiles = [(st(a), st(b)) for a, b in self.whiles]
        for rec in self.fors:
            rec['body'] = st(rec['body'])
            rec['at'] = st(rec['at'])
        self.direct = list(cmd)

    def stmt(self, pos):
        li, si = pos
        return self.stmts(li)[si]

    def lineno(self, li):
        return 65535 if li < 0 else self.lines[li][0]

    def after(self, pos):
        return (pos[0], pos[1] + 1)

    def line_start(self, n):
        if n not in self.lineidx:
            raise BasicError(8)
        return (self.lineidx[n], 0)

    def next_line(self, li):
        """start of the line after li; None = end of the program / direct line"""
        if li < 0 or li + 1 >= len(self.lines):
            return None
        return (li + 1, 0)

    def forward(self, pos):
        """all statement positions after pos in text order, to the end of the stream pos is in"""
        li, si = pos
        while True:
            sl = self.stmts(li)
            for j in range(si + 1, len(sl)):
                yield (li, j)
            if li < 0 or li + 1 >= len(self.lines):
                return
            li, si = li + 1, -1

    # -- values
    def ev(self, e):
        if isinstance(e, int):
            if abs(e) > 16777216:
                raise Unmodelled()
            return e
        if e == 'ERR':
            return self.err
        if e == 'ERL':
            return self.erl
        if e[0] == 'v':
            return self.vars.get(e[1], 0)
        a = self.ev(e[1])
        b = self.ev(e[2])
        op = e[0]
        if op in ('+', '-'):
            r = a + b if op == '+' else a - b
            if abs(r) > 16777216:
                raise Unmodelled()
            return r
        if op == '\\':
            if not (i16(a) and i16(b)):
                raise BasicError(6)
            if b == 0:
                if self.hard_math:
                    raise BasicError(11)
                raise Unmodelled()
            q = abs(a) // abs(b)
            q = q if (a >= 0) == (b >= 0) else -q
            if not i16(q):
                raise BasicError(6)
            return q
        r = {'<': a < b, '<=': a <= b, '=': a == b, '<>': a != b, '>=': a >= b, '>': a > b}[op]
        return -1 if r else 0

    def ev_int(self, e):
        v = self.ev(e)
        if not i16(v):
            raise BasicError(6)
        return v

    # -- loops
    def find_next(self, pos):
        """the NEXT variable slot that closes the FOR at pos: (li, si, k) or None"""
        depth = 0
        for p in self.forward(pos):
            s = self.stmt(p)
            if s[0] == 'F':
                depth += 1
            elif s[0] == 'N':
                n = max(1, len(s[1]))
                if depth < n:
                    return p + (depth,)
                depth -= n
        return None

    def find_wend(self, pos):
        depth = 0
        for p in self.forward(pos):
            s = self.stmt(p)
            if s[0] == 'W':
                depth += 1
            elif s[0] == 'D':
                if depth == 0:
                    return p
                depth -= 1
        return None

    def do_next(self, at, name, errpos):
        """NEXT for the variable slot `at`; returns the position to continue at if the loop goes round,
        None if it has ended"""
        for d in range(len(self.fors) - 1, -1, -1):
            if self.fors[d]['at'] == at:
                break
        else:
            raise BasicError(1, errpos)
        rec = self.fors[d]
        if name is not None and name != rec['var']:
            raise BasicError(1, errpos)
        del self.fors[d + 1:]
        c = self.vars.get(rec['var'], 0) + rec['step']
        if not i16(c):
            raise BasicError(6, errpos)
        self.vars[rec['var']] = c
        passed = c > rec['stop'] if rec['step'] >= 0 else c < rec['stop']
        if passed:
            self.fors.pop()
            return None
        return rec['body']

    def next_list(self, pos, k, names, errpos):
        for nm in names:
            back = self.do_next(pos + (k,), nm, errpos)
            if back is not None:
                return back
            k += 1
        return self.after(pos)

    def while_test(self, wpos):
        """evaluate the WHILE condition; errors are reported on the WHILE's line"""
        try:
            return self.ev(self.stmt(wpos)[1]) != 0
        except BasicError as e:
            e.where = wpos
            raise

    # -- DATA
    def next_item(self):
        """(value, pointer after it) of the item the DATA pointer is at; None = no more data"""
        p = self.data
        if p[0] == 'at':
            li, si, k = p[1:]
            items = self.lines[li][1][si][1]
        else:
            found = None
            for li in range(p[1], len(self.lines)):
                sl = self.lines[li][1]
                for si in range(p[2] if li == p[1] else 0, len(sl)):
                    if sl[si][0] == 'DT' and (si == 0 or not then_joined(sl[si - 1])):
                        found = (li, si)
                        break
                if found:
                    break
            if not found:
                return None
            li, si = found
            k = 0
            items = self.lines[li][1][si][1]
        if k >= len(items):
            return None
        nxt = ('at', li, si, k + 1) if k + 1 < len(items) else ('scan', li, si + 1)
        return items[k], nxt

    # -- one statement; returns the next position (None = fell off the end of the line)
    def execute(self, pos):
        s = self.stmt(pos)
        k = s[0]
        nxt = self.after(pos)
        if k == 'P':
            e = s[1]
            if isinstance(e, list) and e[0] == '\\' and not self.hard_math:
                a, b = self.ev(e[1]), self.ev(e[2])
                if i16(a) and i16(b) and b == 0:
                    # no error trap: Division by zero is only a message, the result is machine infinity
                    self.trace += [77711, -88888 if a < 0 else 88888]
                    return nxt
            self.trace.append(self.ev(e))
        elif k == '=':
            self.vars[s[1]] = self.ev_int(s[2])
        elif k == 'G':
            return self.line_start(s[1])
        elif k == 'GS':
            tgt = self.line_start(s[1])
            self.calls.append(pos)
            return tgt
        elif k == 'R':
            if not self.calls:
                raise BasicError(3)
            back = self.calls.pop()
            if s[1] is None:
                return self.after(back)
            return self.line_start(s[1])
        elif k == 'IF':
            if self.ev(s[1]) != 0:
                return nxt if s[2] is None else self.line_start(s[2])
            nest = 0
            sl = self.stmts(pos[0])
            for j in range(pos[1] + 1, len(sl)):
                if sl[j][0] == 'IF':
                    nest += 1
                elif sl[j][0] == 'EL':
                    if nest == 0:
                        return (pos[0], j + 1) if sl[j][1] is None else self.line_start(sl[j][1])
                    nest -= 1
            return (pos[0], len(sl))
        elif k == 'EL':
            return (pos[0], len(self.stmts(pos[0])))
        elif k == 'ON':
            v = self.ev_int(s[1])
            if not 0 <= v <= 255:
                raise BasicError(5)
            if 1 <= v <= len(s[3]):
                tgt = self.line_start(s[3][v - 1])
                if s[2]:
                    self.calls.append(pos)
                return tgt
        elif k == 'RD':
            for v in s[1]:
                item = self.next_item()
                if item is None:
                    raise BasicError(4)
                z, nxt_ptr = item
                if abs(z) > 16777216:
                    raise Unmodelled()
                if not i16(z):
                    raise BasicError(6)
                self.vars[v] = z
                self.data = nxt_ptr
        elif k == 'DT':
            pass
        elif k == 'RS':
            if s[1] is None:
                self.data = ('scan', 0, 0)
            else:
                if s[1] not in self.lineidx:
                    raise BasicError(8)
                self.data = ('scan', self.lineidx[s[1]], 0)
        elif k == 'END':
            raise Finish()
        elif k == 'ERR':
            v = self.ev_int(s[1])
            if not 1 <= v <= 255:
                raise BasicError(5)
            raise BasicError(v)
        elif k == 'OEG':
            if s[1] != 0 and s[1] not in self.lineidx:
                raise BasicError(8)
            self.handler = s[1]
            self.hard_math = s[1] != 0
            if s[1] == 0 and self.in_handler:
                self.in_handler = False
                raise BasicError(self.err, 'same')
        elif k == 'RES':
            if self.resume is None:
                self.handler = 0
                raise BasicError(20)
            where = self.resume
            self.resume = None
            self.in_handler = False
            self.err = 0
            if s[1] == 'S':
                return where
            if s[1] == 'N':
                # the next statement that starts with a colon or a new line
                li, si = where
                sl = self.stmts(li)
                j = si + 1
                while j < len(sl) and then_joined(sl[j - 1]) and sl[j][0] != 'EL':
                    j += 1
                return (li, j)
            return self.line_start(s[1])
        elif k == 'F':
            a = self.ev_int(s[2])
            b = self.ev_int(s[3])
            st = self.ev_int(s[4])
            at = self.find_next(pos)
            if at is None:
                raise BasicError(26)
            names = self.stmt(at[:2])[1]
            if names and names[at[2]] != s[1]:
                raise BasicError(1, at[:2])
            self.vars[s[1]] = a
            self.fors.append({'var': s[1], 'stop': b, 'step': st, 'body': nxt, 'at': at})
            if (a > b) if st >= 0 else (a < b):
                # nothing to do: go to the NEXT, which closes this loop (and possibly outer ones)
                return self.next_list(at[:2], at[2], [None] + list(names[at[2] + 1:]), at[:2])
        elif k == 'N':
            return self.next_list(pos, 0, list(s[1]) or [None], pos)
        elif k == 'W':
            wend = self.find_wend(pos)
            if wend is None:
                raise BasicError(29)
            self.whiles.append((pos, wend))
            if not self.while_test(pos):
                self.whiles.pop()
                return self.after(wend)
        elif k == 'D':
            while self.whiles and self.whiles[-1][1] != pos:
                self.whiles.pop()
            if not self.whiles:
                raise BasicError(30)
            wpos = self.whiles[-1][0]
            if self.while_test(wpos):
                return self.after(wpos)
            self.whiles.pop()
        else:
            raise ValueError(s)
        return nxt

    def run(self, max_steps):
        """-> ('fin'|'err'|'unmodelled'|'long', trace, err, line); steps are counted as the model counts them
        (line headers included)"""
        pos = (0, 0) if self.direct is None else (-1, 0)
        self.trace = []
        if self.direct is None and not self.lines:
            return ('fin', self.trace, 0, 0)
        self.steps = 1 if self.direct is None else 0
        try:
            while True:
                li, si = pos
                if si >= len(self.stmts(li)):
                    nl = self.next_line(li)
                    if nl is None:
                        if li >= 0 and self.resume is not None:
                            self.err, self.erl, self.in_handler = 19, self.lineno(li), False
                            return ('err', self.trace, 19, self.lineno(li))
                        return ('fin', self.trace, 0, 0)
                    pos = nl
                    self.steps += 1
                    continue
                self.steps += 1
                if self.steps > max_steps:
                    return ('long', self.trace, 0, 0)
                try:
                    pos = self.execute(pos)
                except BasicError as e:
                    if e.where == 'same':
                        line = self.erl
                    else:
                        line = self.lineno((e.where or pos)[0])
                    self.err, self.erl = e.code, line
                    if self.handler != 0 and not self.in_handler:
                        self.resume = pos
                        self.in_handler = True
                        pos = (self.lineidx[self.handler], 0)
                        self.steps += 0
                    else:
                        self.in_handler = False
                        return ('err', self.trace, e.code, line)
        except Finish:
            # END: the error being handled (if any) is forgotten
            self.in_handler = False
            self.resume = None
            return ('fin', self.trace, 0, 0)
        except Unmodelled:
            return ('unmodelled', self.trace, 0, 0)


def ref_session(prog, cmds, max_steps=LONG):
    """several commands typed one after the other (None = RUN, else a direct line); everything the interpreter
    keeps between commands is kept; RUN clears variables, stacks, handler and error state"""
    r = RefFlat(prog, None)
    out = []
    kinds = []
    total = 0
    for cmd in cmds:
        if cmd is None:
            r = RefFlat(prog, None)          # RUN: a fresh interpreter state
        else:
            r.new_direct_line(cmd)
        kind, trace, err, line = r.run(max_steps)
        total += r.steps
        kinds.append(kind)
        out += canon(kind, trace, err, line)
        if kind in ('long', 'unmodelled'):
            return kinds, out, total
        out.append(55555)
    return kinds, out, total


def ref_flat(prog, direct, max_steps=LONG):
    r = RefFlat(prog, direct)
    kind, trace, err, line = r.run(max_steps)
    return kind, canon(kind, trace, err, line), r.steps


def canon(kind, trace, err, line):
    if kind == 'fin':
        return [0] + list(trace)
    if kind == 'err':
        return [1, err, line] + list(trace)
    if kind == 'long':
        return [3]
    return [2, 99]


# ---------------------------------------------------------------------------------------------------------
# reference interpreter for structured programs: recursion, no program counter, no stacks

class RefStruct(object):
    def __init__(self, p, max_steps):
        self.subs = {}
        for n, b in p['subs']:
            self.subs.setdefault(n, b)
        self.main = p['main']
        self.vars = {}
        self.trace = []
        self.steps = 0
        self.max = max_steps
        self.line = 65535
        self.depth = 0

    def tick(self):
        self.steps += 1
        if self.steps > self.max:
            raise TimeoutError()

    def ev(self, e):
        if isinstance(e, int):
            if abs(e) > 16777216:
                raise Unmodelled()
            return e
        if e in ('ERR', 'ERL'):
            return 0
        if e[0] == 'v':
            return self.vars.get(e[1], 0)
        a, b = self.ev(e[1]), self.ev(e[2])
        op = e[0]
        if op in '+-':
            r = a + b if op == '+' else a - b
            if abs(r) > 16777216:
                raise Unmodelled()
            return r
        if op == '\\':
            if not (i16(a) and i16(b)):
                raise BasicError(6)
            if b == 0:
                raise Unmodelled()
            q = abs(a) // abs(b)
            q = q if (a >= 0) == (b >= 0) else -q
            if not i16(q):
                raise BasicError(6)
            return q
        return -1 if {'<': a < b, '<=': a <= b, '=': a == b, '<>': a != b, '>=': a >= b, '>': a > b}[op] else 0

    def ev_int(self, e):
        v = self.ev(e)
        if not i16(v):
            raise BasicError(6)
        return v

    def call(self, n):
        if n not in self.subs:
            raise BasicError(8)
        self.depth += 1
        if self.depth > 400:
            raise TimeoutError()
        saved = self.line
        self.line = n
        self.tick()                      # the subroutine's line header
        self.block(self.subs[n])
        self.tick()                      # RETURN
        self.line = saved
        self.depth -= 1

    def block(self, b):
        for s in b:
            self.stmt(s)

    def stmt(self, s):
        self.tick()
        k = s[0]
        if k == 'line':
            self.line = s[1]
        elif k == 'print':
            e = s[1]
            if isinstance(e, list) and e[0] == '\\':
                a, b = self.ev(e[1]), self.ev(e[2])
                if i16(a) and i16(b) and b == 0:
                    self.trace += [77711, -88888 if a < 0 else 88888]
                    return
            self.trace.append(self.ev(e))
        elif k == 'let':
            self.vars[s[1]] = self.ev_int(s[2])
        elif k == 'for':
            v = s[1]
            a, b, st = self.ev_int(s[2]), self.ev_int(s[3]), self.ev_int(s[4])
            start_line = self.line
            end_line = self.after_lines(s[6], start_line)

            def passed(c):
                return c > b if st >= 0 else c < b
            self.vars[v] = a
            if passed(a):
                # zero passes; the counter still takes one step at the NEXT
                self.line = end_line
                c = a + st
                if not i16(c):
                    raise BasicError(6)
                self.vars[v] = c
            else:
                while True:
                    self.line = start_line
                    self.block(s[6])
                    self.tick()          # NEXT
                    c = self.vars.get(v, 0) + st
                    if not i16(c):
                        raise BasicError(6)
                    self.vars[v] = c
                    if passed(c):
                        break
        elif k == 'while':
            start_line = self.line
            end_line = self.after_lines(s[2], start_line)
            while True:
                self.line = start_line
                if self.ev(s[1]) == 0:
                    self.line = end_line
                    break
                self.block(s[2])
                self.tick()              # WEND
        elif k == 'if':
            if self.ev(s[1]) != 0:
                self.block(s[2])
                self.tick()              # ELSE: rest of the line is skipped
            else:
                self.block(s[3])
            self.tick()                  # header of the next line
            self.line = s[4]
        elif k == 'gosub':
            self.call(s[1])
        elif k == 'ongosub':
            v = self.ev_int(s[1])
            if not 0 <= v <= 255:
                raise BasicError(5)
            if 1 <= v <= len(s[2]):
                self.call(s[2][v - 1])
        else:
            raise ValueError(s)

    def after_lines(self, b, cur):
        """the program line that the text after block b is on"""
        for s in b:
            if s[0] == 'line':
                cur = s[1]
            elif s[0] == 'if':
                cur = s[4]
            elif s[0] == 'for':
                cur = self.after_lines(s[6], cur)
            elif s[0] == 'while':
                cur = self.after_lines(s[2], cur)
        return cur

    def run(self):
        try:
            self.block(self.main)
            self.tick()
            return canon('fin', self.trace, 0, 0)
        except BasicError as e:
            return canon('err', self.trace, e.code, self.line)
        except Unmodelled:
            return canon('unmodelled', [], 0, 0)
        except (TimeoutError, RecursionError):
            return canon('long', [], 0, 0)


def ref_struct(p, max_steps=LONG):
    r = RefStruct(p, max_steps)
    out = r.run()
    return out, r.steps


# ---------------------------------------------------------------------------------------------------------
# FOR with a single-precision counter (model/FlowSingle.v)

SINGLE_FUEL = 300        # passes of the body before "no end" is declared (model); statements = 2 per pass


def mbf_bytes(x):
    """Python float -> 4 MBF single bytes (x must be a float32 value within MBF range)"""
    import struct
    bits = struct.unpack('<I', struct.pack('<f', x))[0]
    sign, e, man = bits >> 31, (bits >> 23) & 0xff, bits & 0x7fffff
    if e == 0:
        return [0, 0, 0, 0]
    eb = e + 2
    if eb > 255:
        raise ValueError(x)
    return [man & 0xff, (man >> 8) & 0xff, ((man >> 16) & 0x7f) | (sign << 7), eb]


def mbf_value(b):
    """4 MBF bytes -> exact Fraction"""
    from fractions import Fraction
    if b[3] == 0:
        return Fraction(0)
    man = b[0] + (b[1] << 8) + ((b[2] & 0x7f) << 16) + 0x800000
    v = Fraction(man) * Fraction(2) ** (b[3] - 152)
    return -v if b[2] & 0x80 else v


def round24(x, ties_away=True):
    """a rational rounded to 24 significant bits (nearest; ties away from zero or towards it)"""
    from fractions import Fraction
    if x == 0:
        return x
    neg, m = x < 0, abs(x)
    e = 0
    while m >= 2 ** 24:
        m /= 2
        e += 1
    while m < 2 ** 23:
        m *= 2
        e -= 1
    n = int(m + Fraction(1, 2))
    if not ties_away and m + Fraction(1, 2) == n:
        n -= 1
    r = Fraction(n) * Fraction(2) ** e
    return -r if neg else r


def ulp24(x):
    """unit in the last place of a 24-bit float holding x"""
    from fractions import Fraction
    m = abs(x)
    if m == 0:
        return Fraction(0)
    e = 0
    while m >= 2 ** 24:
        m /= 2
        e += 1
    while m < 2 ** 23:
        m *= 2
        e -= 1
    return Fraction(2) ** e


def word16(lo, hi):
    u = lo + 256 * hi
    return u if u < 32768 else u - 65536


def words(b):
    return [word16(b[0], b[1]), word16(b[2], b[3])]


def unwords(w0, w1):
    u0, u1 = w0 % 65536, w1 % 65536
    return [u0 & 0xff, u0 >> 8, u1 & 0xff, u1 >> 8]


def cvs_text(b):
    w = words(b)
    return 'CVS(MKI$(%d)+MKI$(%d))' % (w[0], w[1])


PROBE = 'PRINT CVI(LEFT$(MKS$(X),2));CVI(RIGHT$(MKS$(X),2))'


def single_text(case):
    lines = []
    if case.get('susp'):
        lines.append('5 ON ERROR GOTO 90')
    lines.append('10 A=%s:B=%s:S=%s' % (cvs_text(case['a']), cvs_text(case['b']), cvs_text(case['s'])))
    lines.append('20 FOR X=A TO B STEP S:%s:NEXT' % PROBE)
    lines.append('30 %s:END' % PROBE)
    lines.append('90 PRINT ERR:END')
    return lines


def run_single(case, seconds=30):
    """-> [0]+words... (77777 = the Overflow message) | [1, err]+words | [2, k] | [3]"""
    limit = 2 * SINGLE_FUEL + 8
    with common.new_session() as s:
        with core.time_limit(seconds):
            for line in single_text(case):
                s.execute(line)
            impl = s._impl
            parser = impl.interpreter.parser
            count = [0]
            orig = parser.parse_statement

            def counting(ins):
                count[0] += 1
                if count[0] > limit:
                    raise StepLimit()
                return orig(ins)
            parser.parse_statement = counting
            out = io.BytesIO()
            res = None
            with impl.io_streams.activate():
                s.add_pipes(output_streams=out)
                try:
                    impl.execute(b'RUN')
                except StepLimit:
                    res = [3]
                except Exception as e:
                    res = common.canon_exc(e)
                finally:
                    parser.parse_statement = orig
                    s.remove_pipes(output_streams=out)
        if res is not None:
            return res
    vals = []
    err = None
    for ln in out.getvalue().split(b'\r\n'):
        t = ln.strip()
        if not t:
            continue
        if t == b'Overflow':
            vals.append(77777)
            continue
        parts = t.split()
        try:
            nums = [int(p) for p in parts]
        except ValueError:
            return [2, 98]
        if len(nums) == 2:
            vals += nums
        elif len(nums) == 1:
            err = nums[0]
        else:
            return [2, 98]
    return ([1, err] if err is not None else [0]) + vals


def single_model_term(case):
    return 'enc_sfor (s_for %d%%nat %s %s %s %s)' % (
        SINGLE_FUEL, 'true' if case.get('susp') else 'false', zlist(case['a']), zlist(case['b']), zlist(case['s']))


SINGLE_MAX = [255, 255, 127, 255]
SINGLE_MIN = [255, 255, 255, 255]


def single_oracle(case, out):
    """direct reading of the property on the observed counter values: the body runs once per value of the
    ACCUMULATED counter (each value is the previous one plus the step, rounded to single precision) while it
    has not passed the end in the direction of the step; zero times if the start is already past"""
    from fractions import Fraction
    a, b, st = mbf_value(case['a']), mbf_value(case['b']), mbf_value(case['s'])
    up = st >= 0

    def passed(c):
        return c > b if up else c < b
    if out[0] == 2:
        return 'the interpreter raised a host exception (%s)' % out
    if out[0] == 3:
        # no end: legitimate only if the counter cannot reach the end in SINGLE_FUEL passes
        # (the rounding of an exact tie is not part of the property: either way is accepted)
        for ties in (True, False):
            c = a
            ended = False
            for _ in range(SINGLE_FUEL - 2):
                if passed(c):
                    ended = True
                    break
                if abs(st) <= 2 * ulp24(c):
                    # within the error bound of Float.iadd (2 units in the last place, C04/C05) the sum may be
                    # the counter itself: the property does not decide this loop
                    return None
                c = round24(c + st, ties)
                big = mbf_value(SINGLE_MAX)
                if abs(c) > big:
                    c = big if c > 0 else -big      # overflow: the counter becomes machine infinity
            if not ended:
                return None
        return 'the loop did not end although the accumulated counter passes the end'
    vals = out[2:] if out[0] == 1 else out[1:]
    seq = []          # ('v', bytes) | ('ovf',)
    i = 0
    while i < len(vals):
        if vals[i] == 77777:
            seq.append(('ovf',))
            i += 1
        else:
            seq.append(('v', unwords(vals[i], vals[i + 1])))
            i += 2
    cur = a
    first = True
    n = len(seq)
    k = 0
    pending_ovf = False
    while k < n:
        ev = seq[k]
        if ev[0] == 'ovf':
            pending_ovf = True
            k += 1
            continue
        c = mbf_value(ev[1])
        last = (k == n - 1) and out[0] == 0
        if first and not passed(a):
            if ev[1] != case['a'] and c != a:
                return 'the first pass does not run with the start value'
            first = False
        else:
            first = False
            want = cur + st
            if pending_ovf:
                if ev[1] not in (SINGLE_MAX, SINGLE_MIN):
                    return 'after Overflow the counter is not machine infinity'
            else:
                tol = 2 * max(ulp24(want), ulp24(c), ulp24(cur))
                if abs(c - want) > tol:
                    return 'counter %s is not the previous value %s plus the step, rounded' % (float(c), float(cur))
        pending_ovf = False
        if last:
            if not passed(c):
                return 'the loop ended although the counter %s has not passed the end' % float(c)
        else:
            if passed(c):
                return 'the body ran with counter %s, which has passed the end' % float(c)
        cur = c
        k += 1
    if out[0] == 1 and out[1] != 6:
        return 'unexpected error %d' % out[1]
    if out[0] == 1 and not case.get('susp'):
        return 'an error stopped the program without ON ERROR'
    return None


# ---------------------------------------------------------------------------------------------------------
# common part of the C19 / C21 plugins

class FlowCheck(core.Check):
    GEN = ['gen_flow']
    MODEL_IMPORTS = ['gen.Gen_flow', 'model.Flow', 'model.FlowRef']
    histogram = None

    WITH_TRAP_REF = False     # C21: also evaluate the mode-structured reference semantics (FlowTrap.ref_run)

    def impl(self, case):
        if case['k'] == 'single' or 'cmds' in case:
            return self._run(case)
        out = self._run(case)
        if case['k'] == 'struct' or self.WITH_TRAP_REF:
            # the model term evaluates both the machine and a reference semantics
            return out + out
        return out

    def _run(self, case):
        cache = self.__dict__.setdefault('_runs', {})
        if case['k'] == 'single':
            key = core.sha(case)
            if key not in cache:
                cache[key] = run_single(case)
            return cache[key]
        if 'cmds' in case:
            key = core.sha([case['prog'], case['cmds']])
            if key not in cache:
                cache[key] = run_impl_session(case['prog'], case['cmds'], limit=2 * SHORT + 100)
            return cache[key]
        key = core.sha([case['prog'], case.get('direct')])
        if key not in cache:
            # statement budget: FUEL for programs the reference runs for ever, else well above what the
            # reference needs (<= SHORT), so that a mutant that loops does not cost FUEL statements per case
            limit = FUEL if self.expected(case) == [3] else 2 * SHORT + 100
            cache[key] = run_impl(case['prog'], case.get('direct'), limit=limit)
        return cache[key]

    def model_term(self, case):
        if case['k'] == 'single':
            return single_model_term(case)
        if 'cmds' in case:
            cmds = '; '.join('CRun' if c is None else 'CDirect [%s]' % '; '.join(scoq(x) for x in c)
                             for c in case['cmds'])
            return 'run_session [%s] [%s] harness_fuel (init_at 0%%nat)' % (
                '; '.join(scoq(x) for x in case['prog']), cmds)
        if case['k'] == 'struct':
            sp = sprog_coq(case['sp'])
            return ('(let p := %s in enc_run (run_program (compile_prog p) harness_fuel) ++ '
                    'enc_run (exec_prog p harness_fuel))' % sp)
        fn = 'run_program' if case.get('direct') is None else 'run_direct'
        code = code_coq(case['prog'], case.get('direct'))
        if self.WITH_TRAP_REF:
            start = '0%nat' if case.get('direct') is None else '(direct_start c)'
            return ('(let c := %s in enc_run (%s c harness_fuel) ++ '
                    'enc_run (ref_run c harness_fuel MMain (init_at %s)))' % (code, fn, start))
        return 'enc_run (%s %s harness_fuel)' % (fn, code)

    def expected(self, case):
        if 'cmds' in case:
            return ref_session(case['prog'], case['cmds'])[1]
        if case['k'] == 'struct':
            return ref_struct(case['sp'])[0]
        return ref_flat(case['prog'], case.get('direct'))[1]

    def oracle(self, case, out):
        if case['k'] == 'single':
            return single_oracle(case, self._run(case))
        got = self._run(case)
        want = self.expected(case)
        if 'cmds' in case:
            if want[-2:] == [2, 99]:
                return None
            if got != want:
                return 'commands %s: reference semantics gives %s, the interpreter %s' % (
                    ' / '.join('RUN' if c is None else join(c) for c in case['cmds']),
                    show_session(want), show_session(got))
            return None
        if want == [2, 99]:
            return None          # outside the modelled arithmetic: nothing is claimed
        if got != want:
            return 'reference semantics gives %s, the interpreter %s' % (show(want), show(got))
        if case['k'] == 'struct' and compile_prog(case['sp']) != case['prog']:
            return 'case is not the layout of its structured program'
        return None

    def nontrivial(self, case, out):
        return len(out) > 1

    def describe(self, case):
        if case['k'] == 'single':
            d = dict(case)
            d['text'] = single_text(case)
            d['values'] = [float(mbf_value(case[x])) for x in ('a', 'b', 's')]
            d['command'] = 'RUN'
            return d
        d = dict(case)
        d['text'] = program_text(case['prog'])
        if 'cmds' in case:
            d['command'] = ['RUN' if c is None else join(c) for c in case['cmds']]
            return d
        d['command'] = 'RUN' if case.get('direct') is None else join(case['direct'])
        return d

    def undescribe(self, d):
        return {k: v for k, v in d.items() if k not in ('text', 'command', 'values')}

    def shrink_candidates(self, case):
        if case['k'] == 'single':
            return
        yield from self._shrink_programs(case)

    def _shrink_programs(self, case):
        """smaller programs: drop a line, drop a statement (structured cases: drop a statement of any block
        or replace a loop / IF by its body), keeping the text enterable"""
        if case['k'] == 'struct':
            for sp in shrink_struct(case['sp']):
                prog = compile_prog(sp)
                if valid_layout(prog):
                    yield {'k': 'struct', 'sp': sp, 'prog': prog, 'direct': None}
            return
        if 'cmds' in case:
            cmds = case['cmds']
            for i in range(1, len(cmds)):
                if len(cmds) > 1:
                    yield {'k': 'flat', 'prog': case['prog'], 'cmds': cmds[:i] + cmds[i + 1:]}
            for i, c in enumerate(cmds):
                if c is not None and len(c) > 1:
                    for j in range(len(c)):
                        yield {'k': 'flat', 'prog': case['prog'], 'cmds': cmds[:i] + [c[:j] + c[j + 1:]] + cmds[i + 1:]}
            for sub in self._shrink_programs({'k': 'flat', 'prog': case['prog'], 'direct': None}):
                yield {'k': 'flat', 'prog': sub['prog'], 'cmds': cmds}
            return
        prog, direct = case['prog'], case.get('direct')
        lines = split_lines(prog)
        for i in range(len(lines)):
            rest = lines[:i] + lines[i + 1:]
            cand = [s for n, sl in rest for s in [['L', n]] + sl]
            if valid_layout(cand):
                yield {'k': 'flat', 'prog': cand, 'direct': direct}
        for i, s in enumerate(prog):
            if s[0] != 'L':
                cand = prog[:i] + prog[i + 1:]
                if valid_layout(cand):
                    yield {'k': 'flat', 'prog': cand, 'direct': direct}
        if direct:
            for i in range(len(direct)):
                if len(direct) > 1:
                    yield {'k': 'flat', 'prog': prog, 'direct': direct[:i] + direct[i + 1:]}

    def count(self, cases):
        hist = {}
        for c in cases:
            if c['k'] == 'single':
                hist['kind:single'] = hist.get('kind:single', 0) + 1
                continue
            if 'cmds' in c:
                hist['kind:session'] = hist.get('kind:session', 0) + 1
                hist['session commands'] = hist.get('session commands', 0) + len(c['cmds'])
                continue
            hist['kind:' + c['k'] + (':direct' if c.get('direct') is not None else '')] = \
                hist.get('kind:' + c['k'] + (':direct' if c.get('direct') is not None else ''), 0) + 1
            for s in list(c['prog']) + list(c.get('direct') or []):
                key = 'stmt:' + s[0] + (':' + str(s[1]) if s[0] == 'RES' and isinstance(s[1], str) else '')
                hist[key] = hist.get(key, 0) + 1
            want = self.expected(c)
            key = 'outcome:' + ('finished' if want[0] == 0 else 'error %d' % want[1] if want[0] == 1
                                else 'endless' if want[0] == 3 else 'unmodelled')
            hist[key] = hist.get(key, 0) + 1
        self.histogram = hist


def shrink_block(b):
    for i, s in enumerate(b):
        yield b[:i] + b[i + 1:]
        if s[0] == 'for':
            yield b[:i] + s[6] + b[i + 1:]
            for nb in shrink_block(s[6]):
                yield b[:i] + [s[:6] + [nb]] + b[i + 1:]
        elif s[0] == 'while':
            yield b[:i] + s[2] + b[i + 1:]
            for nb in shrink_block(s[2]):
                yield b[:i] + [[s[0], s[1], nb]] + b[i + 1:]
        elif s[0] == 'if':
            for nb in shrink_block(s[2]):
                yield b[:i] + [[s[0], s[1], nb, s[3], s[4]]] + b[i + 1:]
            for nb in shrink_block(s[3]):
                yield b[:i] + [[s[0], s[1], s[2], nb, s[4]]] + b[i + 1:]


def shrink_struct(sp):
    used = set()

    def targets(b):
        for s in b:
            if s[0] == 'gosub':
                used.add(s[1])
            elif s[0] == 'ongosub':
                used.update(s[2])
            elif s[0] == 'for':
                targets(s[6])
            elif s[0] == 'while':
                targets(s[2])
            elif s[0] == 'if':
                targets(s[2])
                targets(s[3])
    targets(sp['main'])
    for n, b in sp['subs']:
        targets(b)
    for i, (n, b) in enumerate(sp['subs']):
        if n not in used:
            yield {'main': sp['main'], 'subs': sp['subs'][:i] + sp['subs'][i + 1:]}
    for nb in shrink_block(sp['main']):
        yield {'main': nb, 'subs': sp['subs']}
    for i, (n, b) in enumerate(sp['subs']):
        for nb in shrink_block(b):
            yield {'main': sp['main'], 'subs': sp['subs'][:i] + [[n, nb]] + sp['subs'][i + 1:]}


def show_session(r):
    parts, cur = [], []
    for x in r:
        if x == 55555:
            parts.append(show(cur))
            cur = []
        else:
            cur.append(x)
    if cur:
        parts.append(show(cur))
    return ' | '.join(parts)


def show(r):
    if r[0] == 0:
        return 'output %s' % r[1:]
    if r[0] == 1:
        return 'output %s then "%s%s"' % (r[3:], message(r[1]), '' if r[2] == 65535 else ' in %d' % r[2])
    if r[0] == 3:
        return 'no end within the statement limit'
    return 'unreadable output %s' % r
