"""C21 - Error trapping reports and resumes at the right place."""
from harness import flowlib as F
from harness import flowgen as G
from harness.flowlib import FlowCheck

V = G.V
L = lambda n: ['L', n]
H = [L(900), ['P', 'ERR'], ['P', 'ERL']]


def flat(prog, direct=None):
    return {'k': 'flat', 'prog': prog, 'direct': direct}


class C21(FlowCheck):
    ID = 'C21'
    PROPS = 'props/C21.v'
    MODEL_IMPORTS = ['gen.Gen_flow', 'model.Flow', 'model.FlowRef', 'model.FlowTrap']
    WITH_TRAP_REF = True
    QUICK_CASES = 700
    THOROUGH_CASES = 7000
    TRUSTED = ['hand model model/Flow.v of interpreter.py parse loop + trap_error, on_error_goto_, resume_, '
               'erl_/err_, end of program inside a handler, implementation.py end_/_handle_error over integer '
               'variables and expressions, tied by correspondence on generated programs; error numbers and '
               'the ERROR/ON ranges regenerated from the source (gen_flow); the GW-BASIC message table is the '
               "harness's own copy"]
    PARTIAL = ('errors raised by statements outside the modelled language (files, strings, floating point: '
               'division by zero and overflow are soft outside ON ERROR and then unmodelled), Syntax error '
               '(its EDIT prompt and ERR reset) and event traps (suspend_all) are not covered')
    RULE = ('programs with ON ERROR GOTO handlers (every RESUME form, handlers that end, fail, fall off the '
            'program, leave by GOTO, switch trapping off), faults by ERROR n and real faults (overflow, '
            'division by zero, undefined line, RETURN/NEXT/WEND/RESUME out of place, ON out of range, FOR at '
            'the 16-bit limit) on multi-statement lines, in IF branches, loops and GOSUBs, RUN or typed as a '
            'direct line, in a real Session with a statement limit; output trace (ERR, ERL values) and final '
            'message compared with the Coq machine, with the Coq reference semantics ref_run and with an '
            'independent Python reference interpreter (oracle). non-trivial = some output or a message')

    def corpus(self):
        # histories: a stop inside a handler must leave handler mode (seed C21c); what a stop leaves behind
        demo = [L(10), ['OEG', 100], L(20), ['P', 1], ['ERR', 5], ['P', 2], L(30), ['P', 3], ['END'],
                L(100), ['IF', ['=', V(7), 0], None], ['=', 7, 1], ['ERR', 6],
                L(110), ['P', 'ERR'], ['P', 'ERL'], ['RES', 'N']]
        rd = [L(10), ['OEG', 900], L(20), ['RD', [0, 1]], ['P', V(0)], L(30), ['RD', [2]], ['P', V(2)], L(40), ['END'],
              L(450), ['DT', [7, 99999]], L(460), ['DT', [5]]] + H + [['RES', 'N']]
        return [
            # READ: Overflow of the assignment / Out of DATA belong to the READ line, not to the DATA line (seed C21e)
            flat(rd),
            flat([L(10), ['RD', [0]], L(20), ['END'], L(450), ['DT', [99999]]]),
            flat([L(10), ['OEG', 900], L(20), ['RD', [0]], ['RS', None], ['RD', [1, 2]], ['P', V(2)], L(40), ['END'],
                  L(450), ['DT', [1]]] + H + [['RES', 'N']]),
            flat([L(10), ['DT', [40000]], ['RD', [0]], L(20), ['P', 1]]),
            flat([L(450), ['DT', [3, -40000]]], [['RD', [0, 1]], ['P', V(0)]]),
            # RUN resets the switch that makes math errors hard (D23e): soft in both runs, trapped from the prompt
            {'k': 'flat', 'prog': [L(10), ['P', ['\\', 1, V(0)]], ['OEG', 900], ['END'], L(900), ['P', 'ERR'], ['RES', 'N']],
             'cmds': [None, None, [['P', ['\\', -1, 0]], ['P', 5]], None]},
            {'k': 'flat', 'prog': [L(10), ['OEG', 900], L(20), ['END'], L(900), ['RES', 'N']],
             'cmds': [None, [['OEG', 0], ['P', ['\\', 7, 0]], ['P', 5]]]},
            {'k': 'flat', 'prog': demo, 'cmds': [None, [['G', 10]]]},
            {'k': 'flat', 'prog': demo, 'cmds': [None, [['ERR', 8], ['P', 9]], [['P', 'ERR'], ['P', 'ERL']]]},
            {'k': 'flat', 'prog': [L(10), ['OEG', 100], L(20), ['ERR', 5], ['P', 2], L(30), ['END'],
                                   L(100), ['IF', ['=', V(7), 0], None], ['=', 7, 1], ['OEG', 0],
                                   L(110), ['P', 'ERR'], ['RES', 'N']],
             'cmds': [None, [['G', 10]], [['RES', 'N']]]},
            {'k': 'flat', 'prog': [L(10), ['OEG', 100], L(20), ['ERR', 5], ['P', 2], L(30), ['END'],
                                   L(100), ['P', 'ERL']],
             'cmds': [None, [['ERR', 7], ['P', 4]], [['RES', 'N']], None]},
            flat([L(10), ['OEG', 900], L(20), ['ERR', 5], ['P', 3], L(40), ['END']] + H + [['RES', 'N']]),
            flat([L(10), ['OEG', 900], L(20), ['=', 0, 1], ['P', ['\\', 10, V(1)]], ['P', 3], L(40), ['END']] + H +
                 [['=', 1, 2], ['RES', 'S']]),
            flat([L(10), ['OEG', 900], L(20), ['ERR', 5], ['P', 3], L(40), ['P', 4], ['END']] + H + [['RES', 40]]),
            flat([L(10), ['OEG', 900], L(20), ['ERR', 5], ['P', 3], L(40), ['END']] + H),               # No RESUME
            flat([L(10), ['OEG', 900], L(20), ['ERR', 5], ['P', 3], L(40), ['END']] + H + [['ERR', 7]]),  # in handler
            flat([L(10), ['OEG', 900], L(20), ['ERR', 5], ['P', 3], L(40), ['END']] + H + [['OEG', 0]]),
            flat([L(10), ['RES', 'S']]), flat([L(10), ['OEG', 20], L(20), ['RES', 'N']]),
            flat([L(10), ['OEG', 30], L(20), ['ERR', 7], L(30), ['RES', 5]]),                            # endless
            flat([L(10), ['ERR', 200]]), flat([L(10), ['ERR', 0]]), flat([L(10), ['ERR', 256]]),
            flat([L(10), ['=', 0, ['+', 32767, 1]], L(20), ['P', 2]]),
            # IF: error in the condition, in THEN, in ELSE, with RESUME NEXT
            flat([L(10), ['OEG', 900], L(20), ['IF', ['\\', 1, 0], None], ['P', 1], ['P', 2], ['EL', None], ['P', 3],
                  L(30), ['P', 4], L(40), ['END']] + H + [['RES', 'N']]),
            flat([L(10), ['OEG', 900], L(20), ['IF', 1, None], ['ERR', 5], ['P', 2], ['EL', None], ['P', 3],
                  L(30), ['P', 4], L(40), ['END']] + H + [['RES', 'N']]),
            flat([L(10), ['OEG', 900], L(20), ['IF', 0, None], ['ERR', 5], ['P', 2], ['EL', None], ['ERR', 6], ['P', 3],
                  L(30), ['P', 4], L(40), ['END']] + H + [['RES', 'N']]),
            # loops: the error position is the NEXT / the WHILE, the statement to resume is the FOR / the WEND
            flat([L(10), ['OEG', 900], L(20), ['F', 4, 32767, 1, 1], ['P', 5], L(30), ['N', []], ['P', 6],
                  L(40), ['END']] + H + [['RES', 'N']]),
            flat([L(10), ['OEG', 900], L(20), ['W', ['\\', 1, V(1)]], L(25), ['P', 5], L(30), ['=', 1, 0], ['D'],
                  ['P', 6], L(40), ['END']] + H + [['=', 1, 1], ['RES', 'N']]),
            flat([L(10), ['OEG', 900], L(20), ['F', 4, 1, 2, 1], ['P', 5], L(30), ['N', [5]], ['P', 6],
                  L(40), ['END']] + H + [['RES', 'N']]),
            # nested GOSUB
            flat([L(10), ['OEG', 900], L(20), ['GS', 500], ['P', 2], L(40), ['END'],
                  L(500), ['GS', 600], ['P', 500], ['R', None], L(600), ['ERR', 9], ['P', 600], ['R', None]] + H +
                 [['RES', 'N']]),
            # direct mode
            flat(H + [['RES', 'N']], [['OEG', 900], ['ERR', 5], ['P', 7]]),
            flat(H + [['RES', 'S']], [['ERR', 5]]),
            flat([L(10), ['P', 1]], [['RES', 'S']]),
            flat([L(500), ['ERR', 11], ['R', None]] + H + [['RES', 'N']], [['OEG', 900], ['GS', 500], ['P', 7]]),
        ]

    def gen_cases(self, n):
        rng = self.rng
        out = []
        for i in range(n):
            out.append(G.gen_trap_session(rng) if i % 4 == 3 else G.gen_trap(rng))
        self.count(out)
        return out


CHECK = C21
