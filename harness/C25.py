"""C25 - Random-access files behave as arrays of fixed-length records."""
import os
import struct

from vlib import core
from harness import common

RECLENS = [1, 2, 2, 3, 4, 5, 7, 8, 8, 16, 31, 32, 64, 127, 128, 128]
BAD_POS = [0, -1, 2 ** 25 + 3, 2 ** 25 + 4, 2 ** 25 + 100, 2 ** 26, -40000]
FAR_GET = [2 ** 25, 2 ** 25 + 1, 2 ** 25 + 2, 2 ** 25 - 1, 2 ** 24 + 1, 40000, 1000]


def single(x):
    """nearest single-precision value of an integer (independent of pcbasic and of the model)."""
    return int(struct.unpack('<f', struct.pack('<f', float(x)))[0])


def trunc24(x):
    """what a BASIC single-precision function result can show of a non-negative integer: exact below 2^24,
    24 significant bits above (LOF, LOC)."""
    if x < 2 ** 24:
        return x
    k = x.bit_length() - 24
    return (x >> k) << k


def z(x):
    return '(%d)' % x if x < 0 else '%d' % x


def opt(x):
    return 'None' if x is None else '(Some %s)' % z(x)


def coq_op(op):
    k = op[0]
    if k == 'open':
        return '(WOpen %s %s)' % (z(op[1]), z(op[2]))
    if k == 'close':
        return '(WClose %s)' % z(op[1])
    if k == 'field':
        _, n, off, w, right, data = op
        return '(WField %s %s %s %s %s)' % (z(n), z(off), z(w), 'true' if right else 'false', core.zl(data))
    if k in ('put', 'get'):
        return '(%s %s %s)' % ('WPut' if k == 'put' else 'WGet', z(op[1]), opt(op[2]))
    return '(WQuery %s)' % z(op[1])


def describe_op(op):
    k = op[0]
    if k == 'open':
        return 'OPEN "R%d" FOR RANDOM AS %d LEN=%d' % (op[1], op[1], op[2])
    if k == 'close':
        return 'CLOSE %d' % op[1]
    if k == 'field':
        _, n, off, w, right, data = op
        f = 'FIELD #%d, %d AS Z$, %d AS A$' % (n, off, w) if off else 'FIELD #%d, %d AS A$' % (n, w)
        return f + ': %s A$=%r' % ('RSET' if right else 'LSET', bytes(data))
    if k in ('put', 'get'):
        return '%s #%d' % (k.upper(), op[1]) + (', %d' % op[2] if op[2] is not None else '')
    return 'PRINT LOF(%d); LOC(%d); EOF(%d)' % (op[1], op[1], op[1])


def decode(out, ops):
    """trace -> (list of per-op results ('ok', values) / ('err', kind, code), final [(bytes, buf)] * 3)."""
    res = []
    i = 0
    for _ in ops:
        if out[i] == 0:
            n = out[i + 1]
            res.append(('ok', out[i + 2:i + 2 + n]))
            i += 2 + n
        else:
            res.append(('err', out[i], out[i + 1]))
            i += 2
    fin = []
    for _ in range(3):
        n = out[i]
        b = out[i + 1:i + 1 + n]
        i += 1 + n
        fin.append((bytes(b), bytes(out[i:i + 128])))
        i += 128
    if i != len(out):
        raise ValueError('trailing data')
    return res, fin


class Ref(object):
    """The property as a reference: per file a dict record number -> bytes and the length written so far."""

    def __init__(self):
        self.recs = {}
        self.length = 0          # bytes; = reclen * highest record written for a file made in one record length
        self.L = None
        self.open = False
        self.loc = 0
        self.buf = bytearray(128)

    def flat(self):
        b = bytearray(self.length)
        for k, d in self.recs.items():
            b[(k - 1) * self.L:(k - 1) * self.L + len(d)] = d
        return bytes(b[:self.length]) if self.L else b''

    def reopen(self, L):
        flat = self.flat()
        self.recs = {}
        self.L = L
        for k in range(1, (len(flat) + L - 1) // L + 1):
            self.recs[k] = flat[(k - 1) * L:k * L]
        self.open = True
        self.loc = 0

    def get(self, k):
        return bytes(self.recs.get(k, b'')).ljust(self.L, b'\0')


class C25(core.Check):
    ID = 'C25'
    GEN = ['gen_locks']
    PROPS = 'props/C25.v'
    MODEL_IMPORTS = ['gen.Gen_locks', 'model.Locks', 'model.RandomFile']
    QUICK_CASES = 300
    THOROUGH_CASES = 2000
    TRUSTED = ['hand model model/RandomFile.v: the host stream (seek/read/write/tell of a Python binary file object '
               'with zero fill past the end) is a MODEL of io, not verified; RandomFile.get/put/_set_record_pos/'
               'eof/lof/loc control flow, FieldFile.set_buffer, LSET/RSET into the FIELD buffer and the statement '
               'glue are hand-written and tied by correspondence on statement histories in a real Session '
               '(returned field bytes, LOF/LOC/EOF, file bytes on disk, FIELD buffers); the pointer arithmetic of '
               'RandomFile and the record-number limits are regenerated from the AST (gen_locks)',
               'record numbers are integer literals; single-precision rounding of record numbers (single_round) '
               'is modelled and tied by correspondence only; one file number per file at a time (two handles on '
               'one file are buffered separately by the host and are outside the model; C26 covers sharing)',
               'LOF()/LOC() are single-precision numbers: modelled as the 24-bit truncation of the exact value '
               '(exact below 2^24) - known finding fixes/K25a.json']
    RULE = ('histories of 6..30 OPEN (LEN 1..128) / FIELD+LSET/RSET (full and partial fields, short and long '
            'strings) / PUT / GET (explicit with gaps and repeats, implicit, beyond the end, invalid numbers) / '
            'LOF,LOC,EOF / CLOSE and reopen (same or different record length) over 1..3 files in a real Session '
            'on a temp disk; compared with the model: every result, the record returned by every GET, '
            'the bytes of every file on disk and every FIELD buffer at the end; oracle = dict-of-records '
            'reference. non-trivial = at least 2 successful PUT and 2 successful GET; distinct by hash')
    histogram = None

    def corpus(self):
        ab, cd, xy = [97, 98], [99, 100], [120, 121]
        return [
            # D7 witness 1: PUT beyond the end with a small record length
            {'ops': [['open', 1, 2], ['field', 1, 0, 2, 0, ab], ['put', 1, 1], ['field', 1, 0, 2, 0, cd],
                     ['put', 1, 5], ['get', 1, 5], ['query', 1], ['get', 1, 3], ['get', 1, 1], ['close', 1]]},
            # D7 witness 2: implicit PUT after a GET at the end of the file
            {'ops': [['open', 1, 2], ['field', 1, 0, 2, 0, ab], ['put', 1, 1], ['field', 1, 0, 2, 0, cd],
                     ['put', 1, 2], ['get', 1, 3], ['field', 1, 0, 2, 0, xy], ['put', 1, None], ['query', 1],
                     ['get', 1, 4], ['get', 1, 3]]},
            # bad record numbers, limits, single-precision rounding
            {'ops': [['open', 2, 1], ['get', 2, 0], ['get', 2, -1], ['get', 2, 2 ** 25], ['query', 2],
                     ['get', 2, 2 ** 25 + 2], ['query', 2], ['get', 2, 2 ** 25 + 3], ['put', 2, 2 ** 25 + 4],
                     ['get', 2, None], ['get', 2, 2 ** 24 + 1], ['query', 2], ['put', 2, 0]]},
            # LOC above 2^24 is shown with 24 significant bits (K25a); implicit GET past record 2^25
            {'ops': [['open', 1, 2], ['get', 1, 2 ** 24 - 1], ['query', 1], ['get', 1, None], ['query', 1],
                     ['get', 1, None], ['query', 1], ['get', 1, None], ['query', 1], ['get', 1, 2 ** 24 + 3],
                     ['query', 1], ['get', 1, 2 ** 25], ['get', 1, None], ['query', 1], ['get', 1, None],
                     ['query', 1]]},
            # errors: not open, open twice, LEN out of range, FIELD overflow
            {'ops': [['get', 1, 1], ['put', 3, 1], ['query', 2], ['field', 1, 0, 2, 0, ab], ['open', 1, 0],
                     ['open', 1, 129], ['open', 1, 128], ['open', 1, 2], ['field', 1, 100, 29, 0, ab],
                     ['field', 1, 129, 0, 0, ab], ['field', 1, 120, 8, 1, ab], ['put', 1, 2], ['close', 1],
                     ['open', 1, 3], ['get', 1, 86], ['query', 1]]},
            # reopen, partial fields, RSET, short strings
            {'ops': [['open', 3, 5], ['field', 3, 0, 5, 0, [65, 66, 67, 68, 69, 70]], ['put', 3, 3],
                     ['field', 3, 1, 3, 1, [49]], ['put', 3, None], ['close', 3], ['open', 3, 5], ['get', 3, 4],
                     ['get', 3, 2], ['get', 3, None], ['query', 3], ['close', 3], ['open', 3, 4], ['get', 3, 4],
                     ['put', 3, 7], ['query', 3]]},
        ]

    def gen_history(self, rng, hist):
        files = rng.sample([1, 2, 3], rng.choice([1, 1, 2, 3]))
        L = {n: rng.choice(RECLENS) if rng.random() < 0.85 else rng.randint(1, 128) for n in files}
        is_open = {}
        far = set()
        ops = []
        n_ops = rng.randint(6, 30)
        maxrec = rng.choice([4, 8, 12])
        while len(ops) < n_ops:
            n = rng.choice(files) if rng.random() < 0.98 else rng.choice([1, 2, 3])
            r = rng.random()
            if not is_open.get(n) and r < 0.85:
                if n in L and rng.random() < 0.2:
                    L[n] = rng.choice(RECLENS)
                reclen = L.get(n, 8)
                if rng.random() < 0.02:
                    reclen = rng.choice([0, 129, 200])
                ops.append(['open', n, reclen])
                if 1 <= reclen <= 128:
                    is_open[n] = True
                hist['open'] += 1
                continue
            reclen = L.get(n, 8)
            if r < 0.3:
                rr = rng.random()
                if rr < 0.6:
                    off, w = 0, reclen
                elif rr < 0.9:
                    off = rng.randint(0, max(0, reclen - 1))
                    w = rng.randint(0, max(0, reclen - off))
                elif rr < 0.96:
                    off = rng.randint(0, 128)
                    w = rng.randint(0, 128 - off)
                else:
                    off, w = rng.choice([(100, 29), (129, 0), (0, 129), (128, 1), (0, 256), (256, 0), (128, 0)])
                dl = rng.choice([w, w, w, max(0, w - 1), w + 2, 0, rng.randint(0, 10)])
                data = common.rand_bytes(rng, min(dl, 140))
                ops.append(['field', n, off, w, int(rng.random() < 0.25), data])
                hist['field'] += 1
            elif r < 0.82:
                k = 'put' if rng.random() < 0.5 else 'get'
                rr = rng.random()
                if rr < 0.3:
                    pos = None
                elif rr < 0.34:
                    pos = rng.choice(BAD_POS)
                elif rr < 0.37:
                    pos = rng.choice(FAR_GET)
                else:
                    pos = rng.randint(1, maxrec)
                # a PUT far beyond the end writes the whole gap: far positions only for GET
                if pos is not None and 64 < single(pos) <= 2 ** 25:
                    k = 'get'
                    far.add(n)
                elif pos is not None:
                    far.discard(n)
                elif n in far:
                    k = 'get'
                ops.append([k, n, pos])
                hist[k] += 1
            elif r < 0.92:
                ops.append(['query', n])
                hist['query'] += 1
            else:
                ops.append(['close', n])
                is_open[n] = False
                far.discard(n)
                hist['close'] += 1
        return {'ops': ops}

    def gen_cases(self, n):
        hist = {'open': 0, 'field': 0, 'put': 0, 'get': 0, 'query': 0, 'close': 0}
        out = [self.gen_history(self.rng, hist) for _ in range(n)]
        self.histogram = hist
        return out

    # ---- implementation
    def impl(self, case):
        d = common.tmpdir('c25')
        try:
            with common.new_session(devices={'C': d}, current_device='C:') as s:
                s.execute('REM')
                imp = s._impl
                errs = []
                orig = imp._handle_error

                def hook(e):
                    errs.append(e.err)
                    return orig(e)
                imp._handle_error = hook

                def run(text):
                    del errs[:]
                    with core.time_limit(60):
                        s.execute(text)
                    return errs[0] if errs else 0

                def ev(text):
                    del errs[:]
                    with core.time_limit(60):
                        v = s.evaluate(text)
                    return (errs[0], None) if errs else (0, v)
                out = []
                for op in case['ops']:
                    try:
                        out += self.one(s, imp, run, ev, op)
                    except Exception as e:
                        out += common.canon_exc(e)
                for n in (1, 2, 3):
                    f = imp.files.files.get(n)
                    if f is not None:
                        f._fhandle.flush()
                    p = os.path.join(d, 'R%d' % n)
                    b = open(p, 'rb').read() if os.path.exists(p) else b''
                    out += [len(b)] + list(b) + list(bytes(imp.memory.fields[n].view_buffer()[:128]))
            return out
        finally:
            common.rmtree(d)

    @staticmethod
    def one(s, imp, run, ev, op):
        k = op[0]
        if k == 'open':
            if op[2] % 3 == 0:
                e = run('OPEN "R", #%d, "R%d", %d' % (op[1], op[1], op[2]))
            else:
                e = run(describe_op(op))
            return [1, e] if e else [0, 0]
        if k == 'close':
            e = run('CLOSE %d' % op[1])
            return [1, e] if e else [0, 0]
        if k == 'field':
            _, n, off, w, right, data = op
            e = run('FIELD #%d, %d AS Z$, %d AS A$' % (n, off, w) if off else 'FIELD #%d, %d AS A$' % (n, w))
            if e:
                return [1, e]
            s.set_variable('D$', bytes(data))
            e = run('%s A$=D$' % ('RSET' if right else 'LSET'))
            return [1, e] if e else [0, 0]
        if k in ('put', 'get'):
            e = run(describe_op(op))
            if e:
                return [1, e]
            if k == 'put':
                return [0, 0]
            n = op[1]
            L = imp.files.files[n].reclen
            rec = bytes(imp.memory.fields[n].view_buffer()[:L])
            # the same through BASIC: a FIELD variable over the whole record
            e = run('FIELD #%d, %d AS G$' % (n, L))
            g = s.get_variable('G$')
            if e or bytes(g) != rec:
                return [-1, -1]
            return [0, L] + list(rec)
        n = op[1]
        vals = []
        for fn in ('LOF', 'LOC', 'EOF'):
            e, v = ev('%s(%d)' % (fn, n))
            if e:
                return [1, e]
            vals.append(int(v))
        return [0, 3] + vals

    def model_term(self, case):
        return '(wtrace w_init [%s])' % '; '.join(coq_op(o) for o in case['ops'])

    def describe(self, case):
        return {'ops': case['ops'], 'basic': [describe_op(o) for o in case['ops']]}

    def undescribe(self, d):
        return {'ops': d['ops']}

    def nontrivial(self, case, out):
        res, _ = decode(out, case['ops'])
        puts = sum(1 for op, r in zip(case['ops'], res) if op[0] == 'put' and r[0] == 'ok')
        gets = sum(1 for op, r in zip(case['ops'], res) if op[0] == 'get' and r[0] == 'ok')
        return puts >= 2 and gets >= 2

    # ---- the property read on the observed behaviour: dict of records per file
    def oracle(self, case, out):
        try:
            res, fin = decode(out, case['ops'])
        except Exception:
            return 'trace cannot be decoded (host exception or GET differs between FIELD variable and buffer)'
        refs = {n: Ref() for n in (1, 2, 3)}
        for i, (op, r) in enumerate(zip(case['ops'], res)):
            where = 'step %d %s: ' % (i + 1, describe_op(op))
            k, n = op[0], op[1]
            ref = refs[n]
            ok = r[0] == 'ok'
            if k == 'open' and ok:
                ref.reopen(op[2])
            elif k == 'close':
                ref.open = False
            elif k == 'field' and ok:
                _, _, off, w, right, data = op
                d = bytes(data)[:w]
                ref.buf[off:off + w] = d.rjust(w) if right else d.ljust(w)
            elif k in ('put', 'get') and ref.open:
                pos = op[2]
                if pos is not None:
                    rec = single(pos)
                    if not 1 <= rec <= 2 ** 25:
                        if r != ('err', 1, 63):
                            return where + 'record number outside 1..2^25 gave %s, not Bad record number' % (r,)
                        continue
                else:
                    rec = ref.loc + 1
                if not ok:
                    return where + 'valid record %d refused: %s' % (rec, r)
                ref.loc = rec
                if k == 'put':
                    ref.recs[rec] = bytes(ref.buf[:ref.L])
                    ref.length = max(ref.length, rec * ref.L)
                else:
                    want = ref.get(rec)
                    if bytes(r[1]) != want:
                        return where + 'GET of record %d returned %r, last PUT (or zeros) is %r' % (
                            rec, bytes(r[1]), want)
                    ref.buf[:ref.L] = want
            elif k == 'query' and ref.open and ok:
                lof, loc, eof = r[1]
                # LOF and LOC are BASIC single-precision numbers: exact below 2^24 (fixes/K25a.json above)
                if lof != trunc24(ref.length):
                    return where + 'LOF = %d, but record length * highest record written = %d' % (lof, ref.length)
                if loc != trunc24(ref.loc):
                    return where + 'LOC = %d, last record accessed = %d' % (loc, ref.loc)
        for n in (1, 2, 3):
            if refs[n].L and fin[n - 1][0] != refs[n].flat():
                return 'file R%d on disk is %r, the records written are %r' % (n, fin[n - 1][0], refs[n].flat())
            if fin[n - 1][1] != bytes(refs[n].buf):
                return 'FIELD buffer of #%d differs from the reference' % n
        return None


    # ---- known finding K25a: LOF()/LOC() are single-precision numbers
    K25A = [['open', 1, 2], ['get', 1, 2 ** 24 + 1], ['get', 1, None], ['query', 1]]

    def known_match(self, finding, case, out):
        return False

    def known_rerun(self, finding):
        if finding.get('id') != 'K25a':
            return True
        out = self.impl({'ops': self.K25A})
        res, _ = decode(out, self.K25A)
        # record pointer is 2^24 + 1 (GET 16777217 rounds to 16777216, then one implicit GET), LOC shows 2^24
        return res[3] == ('ok', [0, 2 ** 24, -1])


CHECK = C25
