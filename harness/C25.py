"""C25 - Random-access files behave as arrays of fixed-length records."""
import os
import struct

from vlib import core
from harness import common
from harness import C26 as L26

RECLENS = [1, 2, 2, 3, 4, 5, 7, 8, 8, 16, 31, 32, 64, 127, 128, 128]
BAD_POS = [0, -1, 2 ** 25 + 3, 2 ** 25 + 4, 2 ** 25 + 100, 2 ** 26, -40000]
FAR_GET = [2 ** 25, 2 ** 25 + 1, 2 ** 25 + 2, 2 ** 25 - 1, 2 ** 24 + 1, 40000, 1000]


def single(x):
    """nearest single-precision value of an integer (independent of pcbasic and of the model)."""
    return int(struct.unpack('<f', struct.pack('<f', float(x)))[0])


def trunc24(x):
    """what a BASIC single-precision function result can show of a non-negative integer: exact below 2^24,
    24 significant bits above (LOF, LOC)."""
    if x < 2 ** 24:
        return x
    k = x.bit_length() - 24
    return (x >> k) << k


def z(x):
    return '(%d)' % x if x < 0 else '%d' % x


def opt(x):
    return 'None' if x is None else '(Some %s)' % z(x)


def coq_op(op):
    k = op[0]
    if k == 'open':
        return '(WOpen %s %s)' % (z(op[1]), z(op[2]))
    if k == 'close':
        return '(WClose %s)' % z(op[1])
    if k == 'field':
        _, n, off, w, right, data = op
        return '(WField %s %s %s %s %s)' % (z(n), z(off), z(w), 'true' if right else 'false', core.zl(data))
    if k in ('put', 'get'):
        return '(%s %s %s)' % ('WPut' if k == 'put' else 'WGet', z(op[1]), opt(op[2]))
    return '(WQuery %s)' % z(op[1])


def describe_op(op):
    k = op[0]
    if k == 'open':
        return 'OPEN "R%d" FOR RANDOM AS %d LEN=%d' % (op[1], op[1], op[2])
    if k == 'close':
        return 'CLOSE %d' % op[1]
    if k == 'field':
        _, n, off, w, right, data = op
        f = 'FIELD #%d, %d AS Z$, %d AS A$' % (n, off, w) if off else 'FIELD #%d, %d AS A$' % (n, w)
        return f + ': %s A$=%r' % ('RSET' if right else 'LSET', bytes(data))
    if k in ('put', 'get'):
        return '%s #%d' % (k.upper(), op[1]) + (', %d' % op[2] if op[2] is not None else '')
    return 'PRINT LOF(%d); LOC(%d); EOF(%d)' % (op[1], op[1], op[1])


def decode(out, ops):
    """trace -> (list of per-op results ('ok', values) / ('err', kind, code), final [(bytes, buf)] * 3)."""
    res = []
    i = 0
    for _ in ops:
        if out[i] == 0:
            n = out[i + 1]
            res.append(('ok', out[i + 2:i + 2 + n]))
            i += 2 + n
        else:
            res.append(('err', out[i], out[i + 1]))
            i += 2
    fin = []
    for _ in range(3):
        n = out[i]
        b = out[i + 1:i + 1 + n]
        i += 1 + n
        fin.append((bytes(b), bytes(out[i:i + 128])))
        i += 128
    if i != len(out):
        raise ValueError('trailing data')
    return res, fin


def sh_stmt(op):
    """BASIC text of an operation of a shared-file case (file names F1/F2 as in C26)."""
    k = op[0]
    if k == 'sopen':
        _, nm, n, acc, lock, reclen = op
        return L26.stmt(['open', nm, n, 'R', acc, lock, reclen, False])
    if k in ('close', 'lock', 'unlock'):
        return L26.stmt(op)
    if k == 'field':
        return describe_op(op)
    if k in ('put', 'get'):
        return L26.stmt(op)
    return describe_op(op)


def sh_coq(op):
    k = op[0]
    if k == 'sopen':
        _, nm, n, acc, lock, reclen = op
        return '(COpen %d %s %s %s %s)' % (nm, z(n), L26.COQ_ACC[acc], L26.COQ_LOCK[lock], z(reclen))
    if k == 'close':
        return '(CClose %s)' % z(op[1])
    if k in ('lock', 'unlock'):
        return '(%s %s %s %s)' % ('CLock' if k == 'lock' else 'CUnlock', z(op[1]), opt(op[2]), opt(op[3]))
    if k == 'field':
        _, n, off, w, right, data = op
        return '(CField %s %s %s %s %s)' % (z(n), z(off), z(w), 'true' if right else 'false', core.zl(data))
    if k in ('put', 'get'):
        return '(%s %s %s)' % ('CPut' if k == 'put' else 'CGet', z(op[1]), opt(op[2]))
    return '(CQuery %s)' % z(op[1])


def sh_decode(out, ops):
    """-> per-op results, final lock table {n: entry}, [bytes of F1, F2], [buffers 1..3]."""
    res = []
    i = 0
    for _ in ops:
        if out[i] == 0:
            n = out[i + 1]
            res.append(('ok', out[i + 2:i + 2 + n]))
            i += 2 + n
        else:
            res.append(('err', out[i], out[i + 1]))
            i += 2
    ents = {}
    for n in (1, 2, 3):
        if out[i] == 0:
            i += 1
            continue
        name, mode, lock, acc, recpos, cnt = out[i + 1:i + 7]
        i += 7
        ents[n] = {'name': name, 'recpos': recpos, 'locks': [tuple(out[i + 2 * j:i + 2 * j + 2]) for j in range(cnt)]}
        i += 2 * cnt
    i += 2
    files = []
    for _ in range(2):
        n = out[i]
        files.append(bytes(out[i + 1:i + 1 + n]))
        i += 1 + n
    bufs = [bytes(out[i + 128 * j:i + 128 * j + 128]) for j in range(3)]
    if i + 384 != len(out):
        raise ValueError('trailing data')
    return res, ents, files, bufs


VARS = {1: 'A$', 2: 'B$', 3: 'C$'}


def fv_stmt(op):
    k = op[0]
    if k == 'ffield':
        return 'FIELD #1' + ''.join(', %d AS %s' % (w, VARS[v]) for w, v in op[1])
    if k == 'flset':
        return '%s %s=%r' % ('RSET' if op[2] else 'LSET', VARS[op[1]], bytes(op[3]))
    if k == 'fmid':
        return 'MID$(%s, %d%s)=%r' % (VARS[op[1]], op[2], '' if op[3] is None else ', %d' % op[3], bytes(op[4]))
    if k == 'flet':
        return '%s=%r' % (VARS[op[1]], bytes(op[2]))
    return '%s #1, %d' % ('PUT' if k == 'fput' else 'GET', op[1])


def fv_coq(op):
    k = op[0]
    if k == 'ffield':
        return '(FField [%s])' % '; '.join('(%s, %d)' % (z(w), v) for w, v in op[1])
    if k == 'flset':
        return '(FLset %d %s %s)' % (op[1], 'true' if op[2] else 'false', core.zl(op[3]))
    if k == 'fmid':
        return '(FMid %d %s %s %s)' % (op[1], z(op[2]), opt(op[3]), core.zl(op[4]))
    if k == 'flet':
        return '(FLet %d %s)' % (op[1], core.zl(op[2]))
    return '(%s %d)' % ('FPut' if k == 'fput' else 'FGet', op[1])


def fv_decode(out, ops):
    res = []
    i = 0
    for _ in ops:
        r = (out[i], out[i + 1])
        i += 2
        vals = []
        for _ in range(3):
            n = out[i]
            vals.append(bytes(out[i + 1:i + 1 + n]))
            i += 1 + n
        res.append((r, vals))
    buf = bytes(out[i:i + 128])
    i += 128
    n = out[i]
    data = bytes(out[i + 1:i + 1 + n])
    if i + 1 + n != len(out):
        raise ValueError('trailing data')
    return res, buf, data


class Ref(object):
    """The property as a reference: per file a dict record number -> bytes and the length written so far."""

    def __init__(self):
        self.recs = {}
        self.length = 0          # bytes; = reclen * highest record written for a file made in one record length
        self.L = None
        self.open = False
        self.loc = 0
        self.buf = bytearray(128)

    def flat(self):
        b = bytearray(self.length)
        for k, d in self.recs.items():
            b[(k - 1) * self.L:(k - 1) * self.L + len(d)] = d
        return bytes(b[:self.length]) if self.L else b''

    def reopen(self, L):
        flat = self.flat()
        self.recs = {}
        self.L = L
        for k in range(1, (len(flat) + L - 1) // L + 1):
            self.recs[k] = flat[(k - 1) * L:k * L]
        self.open = True
        self.loc = 0

    def get(self, k):
        return bytes(self.recs.get(k, b'')).ljust(self.L, b'\0')


class C25(core.Check):
    ID = 'C25'
    GEN = ['gen_locks']
    PROPS = 'props/C25.v'
    MODEL_IMPORTS = ['gen.Gen_locks', 'model.Locks', 'model.RandomFile', 'model.SharedFile', 'model.FieldVars']
    QUICK_CASES = 300
    THOROUGH_CASES = 3000
    TRUSTED = ['hand model model/RandomFile.v: the host stream (seek/read/write/tell of a Python binary file object '
               'with zero fill past the end) is a MODEL of io, not verified; RandomFile.get/put/_set_record_pos/'
               'eof/lof/loc control flow, FieldFile.set_buffer, LSET/RSET into the FIELD buffer and the statement '
               'glue are hand-written and tied by correspondence on statement histories in a real Session '
               '(returned field bytes, LOF/LOC/EOF, file bytes on disk, FIELD buffers); the pointer arithmetic of '
               'RandomFile and the record-number limits are regenerated from the AST (gen_locks)',
               'record numbers are integer literals; single-precision rounding of record numbers (single_round) '
               'is modelled and tied by correspondence only; one file number per file at a time (two handles on '
               'one file are buffered separately by the host and are outside the model; C26 covers sharing)',
               'LOF()/LOC() are single-precision numbers: modelled as the 24-bit truncation of the exact value '
               '(exact below 2^24) - known finding fixes/K25a.json']
    RULE = ('histories of 6..30 OPEN (LEN 1..128) / FIELD+LSET/RSET (full and partial fields, short and long '
            'strings) / PUT / GET (explicit with gaps and repeats, implicit, beyond the end, invalid numbers) / '
            'LOF,LOC,EOF / CLOSE and reopen (same or different record length) over 1..3 files in a real Session '
            'on a temp disk; compared with the model: every result, the record returned by every GET, '
            'the bytes of every file on disk and every FIELD buffer at the end; oracle = dict-of-records '
            'reference. non-trivial = at least 2 successful PUT and 2 successful GET; distinct by hash')
    histogram = None

    def corpus(self):
        ab, cd, xy = [97, 98], [99, 100], [120, 121]
        return [
            # D7 witness 1: PUT beyond the end with a small record length
            {'ops': [['open', 1, 2], ['field', 1, 0, 2, 0, ab], ['put', 1, 1], ['field', 1, 0, 2, 0, cd],
                     ['put', 1, 5], ['get', 1, 5], ['query', 1], ['get', 1, 3], ['get', 1, 1], ['close', 1]]},
            # D7 witness 2: implicit PUT after a GET at the end of the file
            {'ops': [['open', 1, 2], ['field', 1, 0, 2, 0, ab], ['put', 1, 1], ['field', 1, 0, 2, 0, cd],
                     ['put', 1, 2], ['get', 1, 3], ['field', 1, 0, 2, 0, xy], ['put', 1, None], ['query', 1],
                     ['get', 1, 4], ['get', 1, 3]]},
            # bad record numbers, limits, single-precision rounding
            {'ops': [['open', 2, 1], ['get', 2, 0], ['get', 2, -1], ['get', 2, 2 ** 25], ['query', 2],
                     ['get', 2, 2 ** 25 + 2], ['query', 2], ['get', 2, 2 ** 25 + 3], ['put', 2, 2 ** 25 + 4],
                     ['get', 2, None], ['get', 2, 2 ** 24 + 1], ['query', 2], ['put', 2, 0]]},
            # D25a: a PUT through #1 must be visible to a GET through #2; implicit GET after another number
            # extended the file
            {'k': 'sh', 'ops': [['sopen', 1, 1, '', '', 2], ['sopen', 1, 2, '', '', 2],
                                ['field', 1, 0, 2, 0, ab], ['put', 1, 1], ['get', 2, 1], ['query', 2],
                                ['field', 1, 0, 2, 0, cd], ['put', 1, 2], ['get', 2, 2], ['query', 2]]},
            {'k': 'sh', 'ops': [['sopen', 1, 1, '', 'SHARED', 2], ['sopen', 1, 2, '', 'SHARED', 2],
                                ['get', 2, 2], ['field', 1, 0, 2, 0, ab], ['put', 1, 1], ['field', 1, 0, 2, 0, cd],
                                ['put', 1, 2], ['field', 1, 0, 2, 0, xy], ['put', 1, 3], ['get', 2, None],
                                ['query', 2]]},
            # a locked record: the refused PUT changes nothing; CLOSE releases the lock; different LEN per number
            {'k': 'sh', 'ops': [['sopen', 1, 1, '', 'SHARED', 2], ['sopen', 1, 2, '', 'SHARED', 4],
                                ['lock', 1, 2, 3], ['field', 2, 0, 4, 0, [49, 50, 51, 52]], ['put', 2, 1],
                                ['put', 2, 2], ['get', 1, 2], ['get', 1, 3], ['close', 1], ['put', 2, 2],
                                ['sopen', 1, 3, '', 'SHARED', 2], ['get', 3, 4], ['query', 3]]},
            # FIELD variables: partition, overlapping redefinition, MID$=, LET detaches, several FIELD statements
            {'k': 'fv', 'L': 6, 'ops': [['ffield', [[2, 1], [4, 2]]], ['flset', 1, 0, [97, 98, 99]],
                                        ['flset', 2, 1, [49, 50]], ['fput', 1], ['ffield', [[1, 3], [3, 1]]],
                                        ['flset', 1, 0, [120]], ['fmid', 2, 2, 2, [89, 90, 91]], ['flet', 2, [81, 82]],
                                        ['flset', 2, 0, [122]], ['fmid', 3, 1, None, [33, 34]], ['fput', 2],
                                        ['fget', 1], ['fmid', 1, 4, 1, [1]], ['fmid', 1, 0, 0, [1]],
                                        ['ffield', [[100, 1], [29, 2]]], ['ffield', [[256, 3]]], ['fget', 2]]},
            # LOC above 2^24 is shown with 24 significant bits (K25a); implicit GET past record 2^25
            {'ops': [['open', 1, 2], ['get', 1, 2 ** 24 - 1], ['query', 1], ['get', 1, None], ['query', 1],
                     ['get', 1, None], ['query', 1], ['get', 1, None], ['query', 1], ['get', 1, 2 ** 24 + 3],
                     ['query', 1], ['get', 1, 2 ** 25], ['get', 1, None], ['query', 1], ['get', 1, None],
                     ['query', 1]]},
            # errors: not open, open twice, LEN out of range, FIELD overflow
            {'ops': [['get', 1, 1], ['put', 3, 1], ['query', 2], ['field', 1, 0, 2, 0, ab], ['open', 1, 0],
                     ['open', 1, 129], ['open', 1, 128], ['open', 1, 2], ['field', 1, 100, 29, 0, ab],
                     ['field', 1, 129, 0, 0, ab], ['field', 1, 120, 8, 1, ab], ['put', 1, 2], ['close', 1],
                     ['open', 1, 3], ['get', 1, 86], ['query', 1]]},
            # reopen, partial fields, RSET, short strings
            {'ops': [['open', 3, 5], ['field', 3, 0, 5, 0, [65, 66, 67, 68, 69, 70]], ['put', 3, 3],
                     ['field', 3, 1, 3, 1, [49]], ['put', 3, None], ['close', 3], ['open', 3, 5], ['get', 3, 4],
                     ['get', 3, 2], ['get', 3, None], ['query', 3], ['close', 3], ['open', 3, 4], ['get', 3, 4],
                     ['put', 3, 7], ['query', 3]]},
        ]

    def gen_history(self, rng, hist):
        files = rng.sample([1, 2, 3], rng.choice([1, 1, 2, 3]))
        L = {n: rng.choice(RECLENS) if rng.random() < 0.85 else rng.randint(1, 128) for n in files}
        is_open = {}
        far = set()
        ops = []
        n_ops = rng.randint(6, 30)
        maxrec = rng.choice([4, 8, 12])
        while len(ops) < n_ops:
            n = rng.choice(files) if rng.random() < 0.98 else rng.choice([1, 2, 3])
            r = rng.random()
            if not is_open.get(n) and r < 0.85:
                if n in L and rng.random() < 0.2:
                    L[n] = rng.choice(RECLENS)
                reclen = L.get(n, 8)
                if rng.random() < 0.02:
                    reclen = rng.choice([0, 129, 200])
                ops.append(['open', n, reclen])
                if 1 <= reclen <= 128:
                    is_open[n] = True
                hist['open'] += 1
                continue
            reclen = L.get(n, 8)
            if r < 0.3:
                rr = rng.random()
                if rr < 0.6:
                    off, w = 0, reclen
                elif rr < 0.9:
                    off = rng.randint(0, max(0, reclen - 1))
                    w = rng.randint(0, max(0, reclen - off))
                elif rr < 0.96:
                    off = rng.randint(0, 128)
                    w = rng.randint(0, 128 - off)
                else:
                    off, w = rng.choice([(100, 29), (129, 0), (0, 129), (128, 1), (0, 256), (256, 0), (128, 0)])
                dl = rng.choice([w, w, w, max(0, w - 1), w + 2, 0, rng.randint(0, 10)])
                data = common.rand_bytes(rng, min(dl, 140))
                ops.append(['field', n, off, w, int(rng.random() < 0.25), data])
                hist['field'] += 1
            elif r < 0.82:
                k = 'put' if rng.random() < 0.5 else 'get'
                rr = rng.random()
                if rr < 0.3:
                    pos = None
                elif rr < 0.34:
                    pos = rng.choice(BAD_POS)
                elif rr < 0.37:
                    pos = rng.choice(FAR_GET)
                else:
                    pos = rng.randint(1, maxrec)
                # a PUT far beyond the end writes the whole gap: far positions only for GET
                if pos is not None and 64 < single(pos) <= 2 ** 25:
                    k = 'get'
                    far.add(n)
                elif pos is not None and 1 <= single(pos) <= 64:
                    far.discard(n)      # (a rejected record number leaves the record pointer where it was)
                elif n in far:
                    k = 'get'
                ops.append([k, n, pos])
                hist[k] += 1
            elif r < 0.92:
                ops.append(['query', n])
                hist['query'] += 1
            else:
                ops.append(['close', n])
                is_open[n] = False
                far.discard(n)
                hist['close'] += 1
        return {'ops': ops}

    def gen_cases(self, n):
        hist = {'open': 0, 'field': 0, 'put': 0, 'get': 0, 'query': 0, 'close': 0}
        out = [self.gen_shared(self.rng, hist) if i % 4 == 2 else self.gen_fv(self.rng, hist) if i % 4 == 3
               else self.gen_history(self.rng, hist) for i in range(n)]
        self.histogram = hist
        return out

    # ---- implementation
    def impl(self, case):
        if case.get('k') == 'sh':
            return self.impl_shared(case)
        if case.get('k') == 'fv':
            return self.impl_fv(case)
        d = common.tmpdir('c25')
        try:
            with common.new_session(devices={'C': d}, current_device='C:') as s:
                s.execute('REM')
                imp = s._impl
                errs = []
                orig = imp._handle_error

                def hook(e):
                    errs.append(e.err)
                    return orig(e)
                imp._handle_error = hook

                def run(text):
                    del errs[:]
                    with core.time_limit(60):
                        s.execute(text)
                    return errs[0] if errs else 0

                def ev(text):
                    del errs[:]
                    with core.time_limit(60):
                        v = s.evaluate(text)
                    return (errs[0], None) if errs else (0, v)
                out = []
                for op in case['ops']:
                    try:
                        out += self.one(s, imp, run, ev, op)
                    except Exception as e:
                        out += common.canon_exc(e)
                for n in (1, 2, 3):
                    f = imp.files.files.get(n)
                    if f is not None:
                        f._fhandle.flush()
                    p = os.path.join(d, 'R%d' % n)
                    b = open(p, 'rb').read() if os.path.exists(p) else b''
                    out += [len(b)] + list(b) + list(bytes(imp.memory.fields[n].view_buffer()[:128]))
            return out
        finally:
            common.rmtree(d)

    @staticmethod
    def one(s, imp, run, ev, op):
        k = op[0]
        if k == 'open':
            if op[2] % 3 == 0:
                e = run('OPEN "R", #%d, "R%d", %d' % (op[1], op[1], op[2]))
            else:
                e = run(describe_op(op))
            return [1, e] if e else [0, 0]
        if k == 'close':
            e = run('CLOSE %d' % op[1])
            return [1, e] if e else [0, 0]
        if k == 'field':
            _, n, off, w, right, data = op
            e = run('FIELD #%d, %d AS Z$, %d AS A$' % (n, off, w) if off else 'FIELD #%d, %d AS A$' % (n, w))
            if e:
                return [1, e]
            s.set_variable('D$', bytes(data))
            e = run('%s A$=D$' % ('RSET' if right else 'LSET'))
            return [1, e] if e else [0, 0]
        if k in ('put', 'get'):
            e = run(describe_op(op))
            if e:
                return [1, e]
            if k == 'put':
                return [0, 0]
            n = op[1]
            L = imp.files.files[n].reclen
            rec = bytes(imp.memory.fields[n].view_buffer()[:L])
            # the same through BASIC: a FIELD variable over the whole record
            e = run('FIELD #%d, %d AS G$' % (n, L))
            g = s.get_variable('G$')
            if e or bytes(g) != rec:
                return [-1, -1]
            return [0, L] + list(rec)
        n = op[1]
        vals = []
        for fn in ('LOF', 'LOC', 'EOF'):
            e, v = ev('%s(%d)' % (fn, n))
            if e:
                return [1, e]
            vals.append(int(v))
        return [0, 3] + vals

    def model_term(self, case):
        if case.get('k') == 'fv':
            return '(ftrace (fv_init %d) [%s])' % (case['L'], '; '.join(fv_coq(o) for o in case['ops']))
        if case.get('k') == 'sh':
            return '(ctrace c_init [%s])' % '; '.join(sh_coq(o) for o in case['ops'])
        return '(wtrace w_init [%s])' % '; '.join(coq_op(o) for o in case['ops'])

    def describe(self, case):
        if case.get('k') == 'fv':
            return {'k': 'fv', 'L': case['L'], 'ops': case['ops'], 'basic': [fv_stmt(o) for o in case['ops']]}
        if case.get('k') == 'sh':
            return {'k': 'sh', 'ops': case['ops'], 'basic': [sh_stmt(o) for o in case['ops']]}
        return {'ops': case['ops'], 'basic': [describe_op(o) for o in case['ops']]}

    def undescribe(self, d):
        if d.get('k') == 'fv':
            return {'k': 'fv', 'L': d['L'], 'ops': d['ops']}
        return {'k': d['k'], 'ops': d['ops']} if d.get('k') else {'ops': d['ops']}

    def nontrivial(self, case, out):
        if case.get('k') == 'fv':
            return sum(1 for o in case['ops'] if o[0] in ('flset', 'fmid')) >= 2
        if case.get('k') == 'sh':
            res = sh_decode(out, case['ops'])[0]
            nums = set(op[1] for op, r in zip(case['ops'], res) if op[0] in ('put', 'get') and r[0] == 'ok')
            return len(nums) >= 2
        res, _ = decode(out, case['ops'])
        puts = sum(1 for op, r in zip(case['ops'], res) if op[0] == 'put' and r[0] == 'ok')
        gets = sum(1 for op, r in zip(case['ops'], res) if op[0] == 'get' and r[0] == 'ok')
        return puts >= 2 and gets >= 2

    # ---- the property read on the observed behaviour: dict of records per file
    def oracle(self, case, out):
        if case.get('k') == 'fv':
            return self.oracle_fv(case, out)
        if case.get('k') == 'sh':
            return self.oracle_shared(case, out)
        try:
            res, fin = decode(out, case['ops'])
        except Exception:
            return 'trace cannot be decoded (host exception or GET differs between FIELD variable and buffer)'
        refs = {n: Ref() for n in (1, 2, 3)}
        for i, (op, r) in enumerate(zip(case['ops'], res)):
            where = 'step %d %s: ' % (i + 1, describe_op(op))
            k, n = op[0], op[1]
            ref = refs[n]
            ok = r[0] == 'ok'
            if k == 'open' and ok:
                ref.reopen(op[2])
            elif k == 'close':
                ref.open = False
            elif k == 'field' and ok:
                _, _, off, w, right, data = op
                d = bytes(data)[:w]
                ref.buf[off:off + w] = d.rjust(w) if right else d.ljust(w)
            elif k in ('put', 'get') and ref.open:
                pos = op[2]
                if pos is not None:
                    rec = single(pos)
                    if not 1 <= rec <= 2 ** 25:
                        if r != ('err', 1, 63):
                            return where + 'record number outside 1..2^25 gave %s, not Bad record number' % (r,)
                        continue
                else:
                    rec = ref.loc + 1
                if not ok:
                    return where + 'valid record %d refused: %s' % (rec, r)
                ref.loc = rec
                if k == 'put':
                    ref.recs[rec] = bytes(ref.buf[:ref.L])
                    ref.length = max(ref.length, rec * ref.L)
                else:
                    want = ref.get(rec)
                    if bytes(r[1]) != want:
                        return where + 'GET of record %d returned %r, last PUT (or zeros) is %r' % (
                            rec, bytes(r[1]), want)
                    ref.buf[:ref.L] = want
            elif k == 'query' and ref.open and ok:
                lof, loc, eof = r[1]
                # LOF and LOC are BASIC single-precision numbers: exact below 2^24 (fixes/K25a.json above)
                if lof != trunc24(ref.length):
                    return where + 'LOF = %d, but record length * highest record written = %d' % (lof, ref.length)
                if loc != trunc24(ref.loc):
                    return where + 'LOC = %d, last record accessed = %d' % (loc, ref.loc)
        for n in (1, 2, 3):
            if refs[n].L and fin[n - 1][0] != refs[n].flat():
                return 'file R%d on disk is %r, the records written are %r' % (n, fin[n - 1][0], refs[n].flat())
            if fin[n - 1][1] != bytes(refs[n].buf):
                return 'FIELD buffer of #%d differs from the reference' % n
        return None


    # ---- several file numbers on one random file (shared bytes, own pointers / buffers / record lengths)
    def impl_shared(self, case):
        d = common.tmpdir('c25s')
        try:
            with common.new_session(devices={'C': d}, current_device='C:') as s:
                s.execute('REM')
                imp = s._impl
                errs = []
                orig = imp._handle_error

                def hook(e):
                    errs.append(e.err)
                    return orig(e)
                imp._handle_error = hook

                def run(text):
                    del errs[:]
                    with core.time_limit(60):
                        s.execute(text)
                    return errs[0] if errs else 0

                def ev(text):
                    del errs[:]
                    with core.time_limit(60):
                        v = s.evaluate(text)
                    return (errs[0], None) if errs else (0, v)
                out = []
                for op in case['ops']:
                    try:
                        if op[0] in ('sopen', 'close', 'lock', 'unlock'):
                            e = run(sh_stmt(op))
                            out += [1, e] if e else [0, 0]
                        else:
                            out += self.one(s, imp, run, ev, op)
                    except Exception as e:
                        out += common.canon_exc(e)
                out += L26.C26.observe(imp, d)
                for f in imp.files.files.values():
                    f._fhandle.flush()      # observation only: what is on disk once every handle has flushed
                for nm in ('F1', 'F2'):
                    p = os.path.join(d, nm)
                    b = open(p, 'rb').read() if os.path.exists(p) else b''
                    out += [len(b)] + list(b)
                for n in (1, 2, 3):
                    out += list(bytes(imp.memory.fields[n].view_buffer()[:128]))
            return out
        finally:
            common.rmtree(d)

    def gen_shared(self, rng, hist):
        nums = rng.sample([1, 2, 3], rng.choice([2, 3, 3]))
        lock = rng.choice(['SHARED', 'SHARED', ''])
        L0 = rng.choice([1, 2, 2, 3, 4, 8, 16])
        same = rng.random() < 0.7
        L = {n: (L0 if same else rng.choice([1, 2, 3, 4, 6, 8])) for n in nums}
        ops = []
        for n in nums:
            nm = 1 if rng.random() < 0.9 else 2
            ops.append(['sopen', nm, n, '', lock, L[n]])
        held = []
        for _ in range(rng.randint(6, 22)):
            n = rng.choice(nums)
            r = rng.random()
            if r < 0.28:
                w = L[n]
                data = common.rand_bytes(rng, rng.choice([w, w, max(0, w - 1), w + 1]))
                ops.append(['field', n, 0, w, int(rng.random() < 0.2), data])
                hist['field'] += 1
            elif r < 0.74:
                k = 'put' if rng.random() < 0.5 else 'get'
                pos = None if rng.random() < 0.3 else rng.randint(1, 8)
                ops.append([k, n, pos])
                hist[k] += 1
            elif r < 0.82:
                a = rng.randint(1, 7)
                b = a + rng.randint(0, 2)
                ops.append(['lock', n, a, b])
                held.append((n, a, b))
            elif r < 0.88 and held:
                m, a, b = rng.choice(held)
                ops.append(['unlock', m, a, b])
            elif r < 0.94:
                ops.append(['query', n])
                hist['query'] += 1
            elif r < 0.97:
                ops.append(['close', n])
                hist['close'] += 1
            else:
                ops.append(['sopen', 1, n, rng.choice(['', 'R', 'W']), lock, L[n]])
                hist['open'] += 1
        hist['shared'] = hist.get('shared', 0) + 1
        return {'k': 'sh', 'ops': ops}

    def oracle_shared(self, case, out):
        """byte reference per file NAME; record length, last record and FIELD buffer per file number.  Which
        accesses the locks refuse is C26's business: here an access that is refused must change nothing."""
        try:
            res, ents, files, bufs = sh_decode(out, case['ops'])
        except Exception:
            return 'trace cannot be decoded'
        data = {1: bytearray(), 2: bytearray()}
        num = {}
        buf = {n: bytearray(128) for n in (1, 2, 3)}
        for i, (op, r) in enumerate(zip(case['ops'], res)):
            where = 'step %d %s: ' % (i + 1, sh_stmt(op))
            k, ok = op[0], r[0] == 'ok'
            if k == 'sopen':
                if ok:
                    num[op[2]] = {'name': op[1], 'L': op[5], 'loc': 0}
                continue
            n = op[1]
            if k == 'close':
                num.pop(n, None)
            elif k == 'field' and ok:
                _, _, off, w, right, dat = op
                dd = bytes(dat)[:w]
                buf[n][off:off + w] = dd.rjust(w) if right else dd.ljust(w)
            elif k in ('put', 'get') and n in num:
                f = num[n]
                rec = op[2] if op[2] is not None else f['loc'] + 1
                f['loc'] = rec - 1 if not ok else rec      # _set_record_pos happens before the lock check
                if not ok:
                    if r not in (('err', 1, 70), ('err', 1, 75)):
                        return where + 'unexpected result %s' % (r,)
                    continue
                b, Ln = data[f['name']], f['L']
                if k == 'put':
                    if len(b) < (rec - 1) * Ln:
                        b.extend(bytes((rec - 1) * Ln - len(b)))
                    b[(rec - 1) * Ln:rec * Ln] = buf[n][:Ln]
                else:
                    want = bytes(b[(rec - 1) * Ln:rec * Ln]).ljust(Ln, b'\0')
                    if bytes(r[1]) != want:
                        return where + 'GET of record %d through #%d returned %r, the file holds %r' % (
                            rec, n, bytes(r[1]), want)
                    buf[n][:Ln] = want
            elif k == 'query' and n in num and ok:
                f = num[n]
                if r[1][0] != trunc24(len(data[f['name']])):
                    return where + 'LOF = %d, the file has %d bytes' % (r[1][0], len(data[f['name']]))
                if r[1][1] != trunc24(f['loc']):
                    return where + 'LOC = %d, last record accessed through this number = %d' % (r[1][1], f['loc'])
        for nm in (1, 2):
            if files[nm - 1] != bytes(data[nm]):
                return 'file F%d on disk is %r, the records written are %r' % (nm, files[nm - 1], bytes(data[nm]))
        for n in (1, 2, 3):
            if bufs[n - 1] != bytes(buf[n]):
                return 'FIELD buffer of #%d differs from the reference' % n
        if set(ents) != set(num):
            return 'lock table has entries %s, open file numbers are %s' % (sorted(ents), sorted(num))
        return None

    # ---- FIELD variables: attached / detached strings, LSET / RSET / MID$= / LET, overlapping definitions
    def impl_fv(self, case):
        d = common.tmpdir('c25f')
        try:
            with common.new_session(devices={'C': d}, current_device='C:') as s:
                s.execute('OPEN "R1" FOR RANDOM AS 1 LEN=%d' % case['L'])
                imp = s._impl
                errs = []
                orig = imp._handle_error

                def hook(e):
                    errs.append(e.err)
                    return orig(e)
                imp._handle_error = hook
                out = []
                for op in case['ops']:
                    del errs[:]
                    k = op[0]
                    with core.time_limit(60):
                        if k == 'ffield':
                            s.execute(fv_stmt(op))
                        elif k in ('fput', 'fget'):
                            s.execute(fv_stmt(op))
                        else:
                            s.set_variable('D$', bytes(op[-1]))
                            if k == 'flset':
                                s.execute('%s %s=D$' % ('RSET' if op[2] else 'LSET', VARS[op[1]]))
                            elif k == 'fmid':
                                s.execute('MID$(%s, %d%s)=D$' % (VARS[op[1]], op[2],
                                                                 '' if op[3] is None else ', %d' % op[3]))
                            else:
                                s.execute('%s=D$' % VARS[op[1]])
                    out += [1, errs[0]] if errs else [0, 0]
                    for v in (1, 2, 3):
                        val = bytes(s.get_variable(VARS[v]))
                        out += [len(val)] + list(val)
                imp.files.files[1]._fhandle.flush()
                out += list(bytes(imp.memory.fields[1].view_buffer()[:128]))
                b = open(os.path.join(d, 'R1'), 'rb').read()
                out += [len(b)] + list(b)
            return out
        finally:
            common.rmtree(d)

    def gen_fv(self, rng, hist):
        L = rng.choice([2, 4, 6, 8, 12, 16])
        ops = []
        for _ in range(rng.randint(5, 16)):
            r = rng.random()
            v = rng.randint(1, 3)
            if r < 0.25:
                nv = rng.choice([1, 2, 2, 3])
                vs = rng.sample([1, 2, 3], nv) if rng.random() < 0.85 else [rng.randint(1, 3) for _ in range(nv)]
                rr = rng.random()
                if rr < 0.5:            # a partition of the record
                    cuts = sorted(rng.randint(0, L) for _ in range(nv - 1))
                    ws = [b - a for a, b in zip([0] + cuts, cuts + [L])]
                elif rr < 0.9:          # anything, overlapping earlier definitions
                    ws = [rng.randint(0, L) for _ in range(nv)]
                else:                   # overflow / bad width
                    ws = [rng.choice([100, 129, 256, 60]) for _ in range(nv)]
                ops.append(['ffield', [[w, x] for w, x in zip(ws, vs)]])
            elif r < 0.5:
                ops.append(['flset', v, int(rng.random() < 0.3), common.rand_bytes(rng, rng.randint(0, L + 2))])
            elif r < 0.65:
                ops.append(['fmid', v, rng.randint(0, L + 1), rng.choice([None, None, 0, 1, 2, 3, 256, rng.randint(0, L)]),
                            common.rand_bytes(rng, rng.randint(0, 5))])
            elif r < 0.75:
                ops.append(['flet', v, common.rand_bytes(rng, rng.randint(0, 6))])
            else:
                ops.append(['fput' if rng.random() < 0.5 else 'fget', rng.randint(1, 4)])
        hist['fieldvars'] = hist.get('fieldvars', 0) + 1
        return {'k': 'fv', 'L': L, 'ops': ops}

    def oracle_fv(self, case, out):
        """reference: a bytearray buffer, variables as (offset, width) or own bytes, a dict of records."""
        try:
            res, fbuf, fdata = fv_decode(out, case['ops'])
        except Exception:
            return 'trace cannot be decoded'
        L = case['L']
        buf = bytearray(128)
        var = {}
        recs = {}

        def val(v):
            x = var.get(v, b'')
            return bytes(buf[x[0]:x[0] + x[1]]) if isinstance(x, tuple) else x

        def store(v, new):
            x = var.get(v, b'')
            if isinstance(x, tuple):
                buf[x[0]:x[0] + x[1]] = new
            else:
                var[v] = new
        for i, (op, (r, vals)) in enumerate(zip(case['ops'], res)):
            where = 'step %d %s: ' % (i + 1, fv_stmt(op))
            k = op[0]
            if k == 'ffield':
                off = 0
                for w, v in op[1]:
                    if not 0 <= w <= 255 or off + w > 128:
                        break
                    var[v] = (off, w)
                    off += w
            elif k == 'flset' and r == (0, 0):
                n = len(val(op[1]))
                dd = bytes(op[3])[:n]
                store(op[1], dd.rjust(n) if op[2] else dd.ljust(n))
            elif k == 'fmid' and r == (0, 0):
                cur = bytearray(val(op[1]))
                num = 255 if op[3] is None else op[3]
                num = min(num, len(op[4]), len(cur) - (op[2] - 1))
                if num > 0:
                    cur[op[2] - 1:op[2] - 1 + num] = bytes(op[4])[:num]
                    store(op[1], bytes(cur))
            elif k == 'flet' and r == (0, 0):
                var[op[1]] = bytes(op[2])
            elif k == 'fput':
                recs[op[1]] = bytes(buf[:L])
            elif k == 'fget':
                buf[:L] = recs.get(op[1], bytes(L))
            for v in (1, 2, 3):
                if vals[v - 1] != val(v):
                    return where + '%s is %r, the buffer/variable relation gives %r' % (VARS[v], vals[v - 1], val(v))
        if fbuf != bytes(buf):
            return 'FIELD buffer differs from the reference at the end'
        hw = max(recs) if recs else 0
        want = b''.join(recs.get(kk, bytes(L)) for kk in range(1, hw + 1))
        if fdata != want:
            return 'file on disk is %r, the records PUT are %r' % (fdata, want)
        return None

    # ---- known finding K25a: LOF()/LOC() are single-precision numbers
    K25A = [['open', 1, 2], ['get', 1, 2 ** 24 + 1], ['get', 1, None], ['query', 1]]

    def known_match(self, finding, case, out):
        return False

    def known_rerun(self, finding):
        if finding.get('id') != 'K25a':
            return True
        out = self.impl({'ops': self.K25A})
        res, _ = decode(out, self.K25A)
        # record pointer is 2^24 + 1 (GET 16777217 rounds to 16777216, then one implicit GET), LOC shows 2^24
        return res[3] == ('ok', [0, 2 ** 24, -1])


CHECK = C25
