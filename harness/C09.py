"""C09 - String functions and statements match their reference definitions."""
from fractions import Fraction

from vlib import core
from harness import common

IFC, OVF, STL = 5, 6, 15

# functions with their argument shapes
#   s, t : byte strings   a, b : numeric arguments [m, k, suffix] (value m / 2**k; b may be None)
FUNCS = ['LEFT', 'RIGHT', 'MID', 'INSTR', 'STRING', 'STRINGS', 'SPACE', 'LEN', 'ASC', 'CHR', 'CONCAT', 'CMP',
         'MIDSET', 'LSET', 'RSET', 'COMP']


def num_text(arg):
    """Exact decimal text of the BASIC numeric literal m / 2**k with optional type suffix."""
    m, k, suf = arg
    if suf == 'E':            # huge literal in exponent notation (value only needs to be far out of range)
        return ('-' if m < 0 else '') + '1E+38'
    neg = m < 0
    m = abs(m)
    ip, fp = divmod(m, 1 << k)
    txt = str(ip)
    if fp:
        digits = ''
        den = 1 << k
        while fp:
            fp *= 10
            d, fp = divmod(fp, den)
            digits += str(d)
        txt += '.' + digits
    return ('-' if neg else '') + txt + suf


def num_value(arg):
    m, k, suf = arg
    if suf == 'E':
        return Fraction(10 ** 38 * (1 if m >= 0 else -1))
    return Fraction(m, 1 << k)


def num_coq(arg):
    m, k, suf = arg
    if suf == 'E':
        m, k = 10 ** 38 * (1 if m >= 0 else -1), 0
    return '(round_half_away %s %d)' % ('(%d)' % m if m < 0 else '%d' % m, k)


def rnd(q):
    """Nearest integer, halves away from zero (reference reading of CINT rounding)."""
    n = (abs(q) + Fraction(1, 2)).__floor__()
    return -n if q < 0 else n


def str_expr(b, mode):
    """BASIC expression text for a byte string given inline."""
    if mode == 'lit':
        return '"' + bytes(b).decode('latin-1') + '"'
    if not b:
        return '""'
    return '+'.join('CHR$(%d)' % x for x in b)


def printable(b):
    return all(32 <= x < 127 and x != 34 for x in b)


def tight_slack(rng, f, ls, lt, garb):
    """free bytes before the statement, chosen so that it can succeed: with reclaimable garbage anything above the
    temporary; without, MID$= keeps the temporary alive while the literal is copied (sum needed), LSET/RSET have read
    the source by then (maximum needed).  The exact boundary depends on allocator details and is avoided (+3)."""
    if garb:
        return lt + rng.choice([0, 1, 2, 7, max(0, ls - 1), ls, ls + 1, 60])
    if f == 'MIDSET':
        return lt + ls + rng.choice([3, 4, 60])
    lo = max(lt, ls) + 3
    return rng.choice([lo, lo, lo + 1, max(lo, lt + ls - 1), lt + ls + 3])


# forms of a TEMPORARY string expression with the value of variable %s
TMPFORMS = ['%s+""', '""+%s', 'MID$(%s,1)', 'LEFT$(%s,255)']
GC_FUNCS = {  # function -> argument names in evaluation order
    'LEFT': ['s', 'a'], 'RIGHT': ['s', 'a'], 'MID': ['s', 'a', 'b'], 'INSTR': ['a', 's', 't'],
    'STRINGS': ['a', 't'], 'CONCAT': ['s', 't'], 'CMP': ['s', 't']}


def gc_slack(rng, case):
    """free string space left before the statement in 'full' mode: room for the temporaries evaluated before the
    argument that carries the collection, and too little for that argument's own 41-byte temporary."""
    order = [k for k in GC_FUNCS[case['f']] if case.get(k) is not None]
    before = order[:order.index(case['gc']['at'])]
    need = sum(len(case[k]) for k in before if k in 'st' and k in case['gc']['tmp'])
    return need + rng.choice([0, 1, 5, 20])


class Refused(Exception):
    pass


class C09(core.Check):
    ID = 'C09'
    GEN = ['gen_strfn']
    PROPS = 'props/C09.v'
    MODEL_IMPORTS = ['gen.Gen_strfn', 'model.StrFn']
    QUICK_CASES = 1300
    THOROUGH_CASES = 10000
    TRUSTED = ['hand model model/StrFn.v of values.py/strings.py/memory.py string functions (argument checks in '
               'code order) tied by correspondence through Session.execute; ranges, error numbers, midset '
               'clipping and the store length check are regenerated (gen_strfn)',
               'numeric arguments enter the model as exact dyadic values m/2^k written as exact decimal '
               'literals (tokeniser and float->int rounding of numbers.py are other properties; the rounding '
               'rule is re-checked here by correspondence)',
               'type errors (Type mismatch), Out of string space and FIELD-buffer aliasing are outside the model']
    RULE = ('every case runs one BASIC statement in a fresh Session (strings set as variables with all 256 byte '
            'values, or inline as CHR$() sums / literals; MID$=/LSET/RSET also on program-code literals and '
            'FIELD buffers); result value or error number compared with the Coq model and with an independent '
            'Python reference; a gc family evaluates functions/operators on temporary operands with a garbage collection '
            'forced during a later argument. non-trivial = no error and non-empty string operand; distinct by hash')
    histogram = None

    # ------------------------------------------------------------------ cases
    def corpus(self):
        A = [65, 66, 67, 68, 69, 70]
        full = [(i * 7 + 3) % 256 for i in range(255)]
        n = lambda m, k=0, s='': [m, k, s]
        c = []
        for f in ('LEFT', 'RIGHT'):
            for v in (n(0), n(1), n(6), n(7), n(255), n(256), n(-1), n(32767), n(32768), n(-32768), n(-32769),
                      n(1, 1), n(1, 2), n(-1, 1), n(-1, 2), n(511, 1), n(65535, 1), n(3, 0, '#'), n(3, 0, '!'),
                      n(3, 0, '%'), n(1, 0, 'E')):
                c.append({'f': f, 's': A, 'sm': 'var', 'a': v})
            c.append({'f': f, 's': full, 'sm': 'var', 'a': n(255)})
            c.append({'f': f, 's': full, 'sm': 'var', 'a': n(254)})
            c.append({'f': f, 's': [], 'sm': 'chr', 'a': n(1)})
        for st in (n(0), n(1), n(2), n(6), n(7), n(255), n(256), n(-1), n(32768), n(5, 1), n(1, 1), n(1, 2)):
            for nu in (None, n(0), n(1), n(5), n(6), n(255), n(256), n(-1), n(32768), n(-65537, 1)):
                c.append({'f': 'MID', 's': A, 'sm': 'var', 'a': st, 'b': nu})
        c.append({'f': 'MID', 's': full, 'sm': 'var', 'a': n(255), 'b': None})
        c.append({'f': 'MID', 's': full, 'sm': 'var', 'a': n(1), 'b': n(255)})
        c.append({'f': 'MID', 's': full, 'sm': 'var', 'a': n(2), 'b': n(255)})
        big = [65, 66, 67, 65, 66, 67]
        for st in (None, n(1), n(2), n(3), n(5), n(6), n(7), n(0), n(255), n(256), n(-1), n(32768), n(5, 1)):
            for small in ([66, 67], [], [65], [67, 65, 66, 67], [67, 65, 66, 67, 65], [68], big, big + [65]):
                c.append({'f': 'INSTR', 's': big, 't': small, 'sm': 'var', 'a': st})
            c.append({'f': 'INSTR', 's': [], 't': [], 'sm': 'chr', 'a': st})
            c.append({'f': 'INSTR', 's': [], 't': [65], 'sm': 'chr', 'a': st})
        for cnt in (n(0), n(1), n(3), n(255), n(256), n(-1), n(32768), n(5, 1)):
            for ch in (n(0), n(65), n(255), n(256), n(-1), n(32768), n(131, 1), n(65, 0, '#'), n(40000, 0, '#')):
                c.append({'f': 'STRING', 'a': cnt, 'b': ch})
            for t in ([66, 67], [], [0], [255, 1]):
                c.append({'f': 'STRINGS', 'a': cnt, 't': t, 'sm': 'var'})
        for v in (n(0), n(1), n(255), n(256), n(-1), n(511, 1), n(509, 1), n(32768), n(-1, 2)):
            c.append({'f': 'SPACE', 'a': v})
            c.append({'f': 'CHR', 'a': v})
        for s in ([], [0], [255], A, full):
            c.append({'f': 'LEN', 's': s, 'sm': 'var'})
            c.append({'f': 'ASC', 's': s, 'sm': 'var'})
        for a, b in (([], []), (A, []), ([], A), (full, []), (full, [1]), (full[:254], [1]), (full[:254], [1, 2]),
                     (full[:128], full[:127]), (full[:128], full[:128])):
            c.append({'f': 'CONCAT', 's': a, 't': b, 'sm': 'var'})
        for a, b in (([], []), ([65], []), ([], [65]), ([65], [65, 0]), ([65, 66], [65]), ([127], [128]),
                     ([128], [127]), ([255], [0]), ([65, 255], [65, 0, 9]), (A, A), (full, full),
                     (full, full[:254]), (full[:254] + [0], full)):
            c.append({'f': 'CMP', 's': a, 't': b, 'sm': 'var'})
        for st in (n(1), n(2), n(3), n(6), n(7), n(0), n(-1), n(255), n(256), n(32768), n(5, 1)):
            for nu in (None, n(0), n(1), n(2), n(5), n(255), n(256), n(-1), n(32768)):
                c.append({'f': 'MIDSET', 's': A, 't': [120, 121, 122], 'tm': 'var', 'a': st, 'b': nu, 'same': 0})
                c.append({'f': 'MIDSET', 's': A, 't': A, 'tm': 'var', 'a': st, 'b': nu, 'same': 1})
        c.append({'f': 'MIDSET', 's': A, 't': A, 'tm': 'prog', 'a': n(2), 'b': None, 'same': 1})
        c.append({'f': 'MIDSET', 's': A, 't': A, 'tm': 'alias', 'a': n(2), 'b': None, 'same': 0})
        c.append({'f': 'MIDSET', 's': A, 't': [120, 121], 'tm': 'prog', 'a': n(5), 'b': None, 'same': 0})
        c.append({'f': 'MIDSET', 's': A, 't': [120, 121], 'tm': 'field', 'a': n(5), 'b': None, 'same': 0})
        c.append({'f': 'MIDSET', 's': [], 't': [120], 'tm': 'var', 'a': n(1), 'b': None, 'same': 0})
        c.append({'f': 'MIDSET', 's': [], 't': [120], 'tm': 'var', 'a': n(1), 'b': n(0), 'same': 0})
        c.append({'f': 'MIDSET', 's': full, 't': full, 'tm': 'var', 'a': n(2), 'b': None, 'same': 1})
        c.append({'f': 'MIDSET', 's': full, 't': full, 'tm': 'var', 'a': n(100), 'b': n(100), 'same': 1})
        for f in ('LSET', 'RSET'):
            for tgt in ([], [1], A, full):
                for v in ([], [88], [88, 89, 90], A + [1], full):
                    c.append({'f': f, 's': tgt, 't': v, 'tm': 'var'})
            c.append({'f': f, 's': A, 't': [88, 89], 'tm': 'prog'})
            c.append({'f': f, 's': A, 't': [88, 89], 'tm': 'field'})
            c.append({'f': f, 's': A, 't': A, 'tm': 'self'})
        # concatenation when string space is short: String too long (length only) takes precedence over Out of
        # string space; free space is compared before and after a collection (seeded change C09f)
        for la, lb, slack, garb in ((200, 100, 10, 0), (200, 100, 10, 1), (255, 1, 40, 0), (128, 128, 100, 1),
                                    (100, 100, 20, 0), (100, 100, 20, 1), (100, 100, 120, 1), (30, 30, 100, 0),
                                    (120, 135, 60, 0), (120, 135, 60, 1), (60, 20, 30, 0), (60, 20, 30, 1)):
            c.append({'f': 'CONCAT', 's': full[:la], 't': full[:lb], 'mem': {'slack': slack, 'garb': garb}})
        # operands that are temporaries while a LATER argument triggers a string-space garbage collection
        # (seeded change C09e: MID$ un-rooted its operand before the count was evaluated)
        W = A + [88, 89, 90]
        for how in ('fre', 'full'):
            for form in range(len(TMPFORMS)):
                g = lambda tmp, at, sl=0: {'tmp': tmp, 'at': at, 'how': how, 'form': form, 'slack': sl}
                c.append({'f': 'MID', 's': W, 'a': n(2), 'b': n(3), 'gc': g('s', 'b', len(W))})
                c.append({'f': 'MID', 's': W, 'a': n(2), 'b': n(3), 'gc': g('s', 'a', len(W) + 1)})
                c.append({'f': 'MID', 's': W, 'a': n(5), 'b': None, 'gc': g('s', 'a', len(W))})
                c.append({'f': 'LEFT', 's': W, 'a': n(4), 'gc': g('s', 'a', len(W))})
                c.append({'f': 'RIGHT', 's': W, 'a': n(4), 'gc': g('s', 'a', len(W) + 5)})
                c.append({'f': 'INSTR', 's': W, 't': [88, 89], 'a': n(2), 'gc': g('st', 't', len(W))})
                c.append({'f': 'INSTR', 's': W, 't': [88, 89], 'a': n(2), 'gc': g('st', 's')})
                c.append({'f': 'INSTR', 's': W, 't': [88, 89], 'a': n(2), 'gc': g('st', 'a')})
                c.append({'f': 'INSTR', 's': W, 't': [67, 68], 'a': None, 'gc': g('st', 't', len(W) + 1)})
                c.append({'f': 'STRINGS', 'a': n(5), 't': [81, 82], 'gc': g('t', 't')})
                c.append({'f': 'STRINGS', 'a': n(5), 't': [81, 82], 'gc': g('t', 'a')})
                c.append({'f': 'CONCAT', 's': W, 't': A, 'gc': g('st', 't', len(W))})
                c.append({'f': 'CMP', 's': W, 't': W[:8] + [91], 'gc': g('st', 't', len(W))})
                c.append({'f': 'CMP', 's': W, 't': W, 'gc': g('st', 't', len(W) + 1)})
        # compositions: the result of a string function of V$ as the source of MID$= / LSET / RSET on V$
        # (seeded change C09b: LEFT$ handing back its operand made MID$(A$,2)=LEFT$(A$,255) an overlap copy)
        for tm in ('var', 'prog', 'arr', 'field'):
            for g, x, y in (('LEFT', n(255), None), ('LEFT', n(6), None), ('LEFT', n(5), None),
                            ('RIGHT', n(255), None), ('RIGHT', n(6), None), ('MID', n(1), None),
                            ('MID', n(1), n(255)), ('MID', n(1), n(6)), ('CAT', None, None), ('VAR', None, None),
                            ('LEFT', n(256), None), ('MID', n(0), None)):
                for st in (n(2), n(3), n(1)):
                    c.append({'f': 'COMP', 'st': 'MIDSET', 's': A, 'tm': tm, 'a': st, 'b': None,
                              'g': g, 'x': x, 'y': y})
                c.append({'f': 'COMP', 'st': 'MIDSET', 's': A, 'tm': tm, 'a': n(2), 'b': n(3), 'g': g, 'x': x, 'y': y})
                c.append({'f': 'COMP', 'st': 'MIDSET', 's': A, 'tm': tm, 'a': n(9), 'b': None, 'g': g, 'x': x, 'y': y})
                c.append({'f': 'COMP', 'st': 'LSET', 's': A, 'tm': tm, 'g': g, 'x': x, 'y': y})
                c.append({'f': 'COMP', 'st': 'RSET', 's': A, 'tm': tm, 'g': g, 'x': x, 'y': y})
        return c

    # pools
    def _len(self):
        r = self.rng.random()
        if r < 0.25:
            return self.rng.choice([0, 1, 2, 3, 254, 255])
        if r < 0.8:
            return self.rng.randrange(0, 12)
        return self.rng.randrange(0, 256)

    def _bytes(self, n=None, alphabet=None):
        rng = self.rng
        n = self._len() if n is None else n
        if alphabet:
            return [rng.choice(alphabet) for _ in range(n)]
        r = rng.random()
        if r < 0.2:
            return [rng.choice([65, 66]) for _ in range(n)]
        if r < 0.35:
            return [rng.choice([0, 127, 128, 255, 32, 34]) for _ in range(n)]
        return [rng.randrange(256) for _ in range(n)]

    def _num(self, length=0, suffix_ok=True):
        """A numeric argument from the boundary pool around 0, length, 255, int16 and beyond."""
        rng = self.rng
        r = rng.random()
        if r < 0.55:      # in and just around the string
            base = rng.choice([0, 1, 2, length - 1, length, length + 1, rng.randrange(0, 12),
                               rng.randrange(0, length + 2)])
        elif r < 0.8:     # around the 255 limit
            base = rng.choice([254, 255, 256, 257, rng.randrange(0, 260)])
        else:             # negative, int16 limits and beyond
            base = rng.choice([-1, -2, 32767, 32768, -32768, -32769, 65535, 65536, rng.randrange(-40000, 70000)])
        r = rng.random()
        if r < 0.68:
            m, k = base, 0
        elif r < 0.93:
            k = rng.choice([1, 1, 2, 3, 8])
            m = base * (1 << k) + rng.choice([-1, 1]) * rng.choice([1, (1 << k) // 2, (1 << k) - 1, (1 << k) // 2 + 1])
        elif r < 0.97:
            m, k = rng.choice([1, -1]) * (1 << rng.randrange(16, 53)), 0
        else:
            return [rng.choice([1, -1]), 0, 'E']
        suf = ''
        ndig = len(num_text([m, k, '']).replace('-', '').replace('.', '').lstrip('0'))
        if suffix_ok:
            r = rng.random()
            if r < 0.15:
                suf = '#'
            elif r < 0.3 and ndig <= 7 and abs(m) < (1 << 24):
                suf = '!'
            elif r < 0.4 and k == 0 and -32768 < m <= 32767:
                suf = '%'
        if abs(m) >= (1 << 53) or (ndig <= 7 and suf != '#' and abs(m) >= (1 << 24)):
            suf = '#'
        return [m, k, suf]

    def _smode(self, b):
        r = self.rng.random()
        if len(b) <= 8 and r < 0.3:
            return 'chr'
        if len(b) <= 60 and printable(b) and r < 0.5:
            return 'lit'
        return 'var'

    def gen_cases(self, n):
        rng = self.rng
        hist = {}
        out = []

        def add(c):
            for key in ('s', 't'):
                if key in c and len(c[key]) > 255:
                    c[key] = c[key][:255]
            if c['f'] == 'MIDSET' and c['same']:
                c['t'] = list(c['s'])
            out.append(c)
            hist[c['f']] = hist.get(c['f'], 0) + 1

        # exhaustive small sweeps (both tiers): every position/count around a 5-byte string, every CHR$ code
        s5 = [1, 2, 3, 4, 5]
        for v in range(-2, 9):
            add({'f': 'LEFT', 's': s5, 'sm': 'var', 'a': [v, 0, '']})
            add({'f': 'RIGHT', 's': s5, 'sm': 'var', 'a': [v, 0, '']})
            for w in [None] + list(range(-1, 8)):
                add({'f': 'MID', 's': s5, 'sm': 'var', 'a': [v, 0, ''], 'b': None if w is None else [w, 0, '']})
        step = 1 if self.tier == 'thorough' else 5
        for v in list(range(0, 256, step)) + [255]:
            add({'f': 'CHR', 'a': [v, 0, '']})
        if self.tier == 'thorough':
            for v in range(0, 257):
                add({'f': 'SPACE', 'a': [v, 0, '']})
                add({'f': 'STRING', 'a': [v, 0, ''], 'b': [v % 256, 0, '']})
                add({'f': 'ASC', 's': [v % 256, 7], 'sm': 'var'})
            s9 = [65, 66, 65, 66, 65, 67, 65, 66, 65]
            for st in range(0, 12):
                for i in range(0, 9):
                    for j in range(i, min(9, i + 4) + 1):
                        add({'f': 'INSTR', 's': s9, 't': s9[i:j], 'sm': 'var', 'a': [st, 0, '']})
            for st in range(0, 9):
                for nu in [None] + list(range(0, 9)):
                    add({'f': 'MIDSET', 's': s5 + [6, 7], 't': s5 + [6, 7], 'tm': 'var', 'a': [st, 0, ''],
                         'b': None if nu is None else [nu, 0, ''], 'same': 1})
                    add({'f': 'MIDSET', 's': s5 + [6, 7], 't': [9, 8, 7], 'tm': 'var', 'a': [st, 0, ''],
                         'b': None if nu is None else [nu, 0, ''], 'same': 0})
        weights = [('LEFT', 8), ('RIGHT', 8), ('MID', 14), ('INSTR', 14), ('STRING', 5), ('STRINGS', 3),
                   ('SPACE', 3), ('LEN', 2), ('ASC', 3), ('CHR', 3), ('CONCAT', 6), ('CMP', 10),
                   ('MIDSET', 14), ('LSET', 5), ('RSET', 5), ('COMP', 14)]
        names = [w[0] for w in weights]
        ws = [w[1] for w in weights]
        while len(out) < n:
            if rng.random() < 0.04:
                # in-place statements under memory pressure: literal target, temporary source, string space nearly full
                pr = [x for x in range(32, 127) if x != 34]
                s_ = [rng.choice(pr) for _ in range(rng.randrange(1, 40))]
                t_ = [rng.choice(pr) for _ in range(rng.choice([len(s_), len(s_), rng.randrange(0, 40)]))]
                g_, f_ = rng.randrange(2), rng.choice(['LSET', 'RSET', 'MIDSET'])
                c = {'f': f_, 's': s_, 't': t_, 'tm': 'tight', 'slack': tight_slack(rng, f_, len(s_), len(t_), g_), 'garb': g_}
                if f_ == 'MIDSET':
                    c.update({'a': [rng.randrange(1, len(s_) + 1), 0, ''], 'b': None, 'same': 0})
                add(c)
                continue
            if rng.random() < 0.02:
                # concatenation with little free string space, away (>= 20 bytes) from the exact fit
                garb = rng.randrange(2)
                slack = rng.choice([5, 10, 30, 60, 100, 140])
                r = rng.random()
                if r < 0.4:
                    tot = rng.choice([256, 257, 300, 400, 510])
                elif r < 0.75:
                    tot = rng.randrange(slack + 20, 256) if not garb else rng.randrange(20, min(255, slack + 150) + 1)
                    if garb and abs(tot - slack) < 20:
                        tot = slack + 20
                else:
                    tot = rng.randrange(0, max(1, slack - 20))
                la = rng.randrange(max(0, tot - 255), min(255, tot) + 1)
                add({'f': 'CONCAT', 's': self._bytes(n=la), 't': self._bytes(n=tot - la),
                     'mem': {'slack': slack, 'garb': garb}})
                continue
            if rng.random() < 0.09:
                # functions and operators whose string operands are temporaries, with a garbage collection while a
                # later (or the same) argument is evaluated: FRE("") inside it, or string space filled up so that the
                # argument's own temporary triggers the collection
                f_ = rng.choice(['MID', 'MID', 'MID', 'LEFT', 'RIGHT', 'INSTR', 'INSTR', 'STRINGS', 'CONCAT', 'CMP'])
                how = 'fre' if rng.random() < 0.7 else 'full'
                mx = 30 if how == 'full' else 120
                s_ = self._bytes(n=rng.randrange(0, mx))
                L = len(s_)
                c = {'f': f_}
                if f_ != 'STRINGS':
                    c['s'] = s_
                if f_ in ('INSTR', 'CONCAT', 'CMP', 'STRINGS'):
                    r = rng.random()
                    if f_ == 'INSTR' and s_ and r < 0.6:
                        i = rng.randrange(L)
                        c['t'] = s_[i:i + rng.choice([1, 2, 3])]
                    elif f_ == 'CMP' and r < 0.5:
                        c['t'] = s_[:rng.randrange(L + 1)] + self._bytes(n=rng.randrange(0, 3))
                    else:
                        c['t'] = self._bytes(n=rng.randrange(0, mx))
                if f_ in ('LEFT', 'RIGHT', 'STRINGS'):
                    c['a'] = [rng.randrange(0, L + 3), 0, ''] if rng.random() < 0.8 else self._num(L)
                elif f_ == 'MID':
                    c['a'] = [rng.randrange(1, L + 2), 0, ''] if rng.random() < 0.8 else self._num(L)
                    r = rng.random()
                    c['b'] = None if r < 0.2 else ([rng.randrange(0, L + 3), 0, ''] if r < 0.85 else self._num(L))
                elif f_ == 'INSTR':
                    c['a'] = None if rng.random() < 0.3 else ([rng.randrange(1, L + 2), 0, ''] if rng.random() < 0.8
                                                              else self._num(L))
                args = [k for k in GC_FUNCS[f_] if c.get(k) is not None]
                strs = [k for k in args if k in 'st']
                tmp = ''.join(k for k in strs if rng.random() < 0.85)
                # mostly the LAST argument carries the collection (everything before it must stay alive)
                at = args[-1] if rng.random() < 0.6 else rng.choice(args)
                c['gc'] = {'tmp': tmp, 'at': at, 'how': how, 'form': rng.randrange(len(TMPFORMS)), 'slack': 0,
                           'op': rng.randrange(6)}
                if how == 'full':
                    c['gc']['slack'] = gc_slack(rng, c)
                add(c)
                continue
            f = rng.choices(names, ws)[0]
            if f in ('LEFT', 'RIGHT'):
                s = self._bytes()
                add({'f': f, 's': s, 'sm': self._smode(s), 'a': self._num(len(s))})
            elif f == 'MID':
                s = self._bytes()
                b = None if rng.random() < 0.25 else self._num(len(s))
                add({'f': f, 's': s, 'sm': self._smode(s), 'a': self._num(len(s)), 'b': b})
            elif f == 'INSTR':
                alpha = rng.choice([[65, 66], [65, 66, 67], [0, 255], None])
                big = self._bytes(alphabet=alpha)
                r = rng.random()
                if big and r < 0.55:
                    i = rng.randrange(len(big))
                    small = big[i:i + rng.choice([0, 1, 1, 2, 3, 5, len(big)])]
                    if rng.random() < 0.2:
                        small = small + [rng.randrange(256)]
                elif r < 0.7:
                    small = []
                else:
                    small = self._bytes(n=rng.choice([0, 1, 1, 2, 3]), alphabet=alpha)
                a = None if rng.random() < 0.25 else self._num(len(big))
                add({'f': f, 's': big, 't': small, 'sm': self._smode(big + small), 'a': a})
            elif f == 'STRING':
                add({'f': f, 'a': self._num(), 'b': self._num(65)})
            elif f == 'STRINGS':
                t = self._bytes(n=rng.choice([0, 1, 1, 2, 5]))
                add({'f': f, 'a': self._num(), 't': t, 'sm': self._smode(t)})
            elif f in ('SPACE', 'CHR'):
                add({'f': f, 'a': self._num()})
            elif f in ('LEN', 'ASC'):
                s = self._bytes()
                add({'f': f, 's': s, 'sm': self._smode(s)})
            elif f == 'CONCAT':
                a = self._bytes()
                r = rng.random()
                if r < 0.4:
                    b = self._bytes(n=min(255, max(0, 255 - len(a) + rng.choice([-2, -1, 0, 0, 1, 1, 2, 30]))))
                else:
                    b = self._bytes()
                add({'f': f, 's': a, 't': b, 'sm': self._smode(a + b)})
            elif f == 'CMP':
                a = self._bytes()
                r = rng.random()
                if r < 0.2:
                    b = list(a)
                elif r < 0.4:
                    b = a + self._bytes(n=rng.choice([1, 1, 2]))
                    if len(b) > 255:
                        b = a[:-1]
                elif r < 0.55:
                    b = a[:rng.randrange(len(a) + 1)]
                elif r < 0.85 and a:
                    i = rng.randrange(len(a))
                    b = a[:i] + [(a[i] + rng.choice([1, -1, 128, 127])) % 256] + \
                        (a[i + 1:] if rng.random() < 0.5 else self._bytes(n=rng.randrange(3)))
                else:
                    b = self._bytes()
                if rng.random() < 0.5:
                    a, b = b, a
                add({'f': f, 's': a, 't': b, 'sm': self._smode(a + b)})
            elif f == 'MIDSET':
                s = self._bytes()
                if not s and rng.random() < 0.8:
                    s = self._bytes(n=rng.randrange(1, 10))
                same = 1 if rng.random() < 0.3 else 0
                t = list(s) if same else self._bytes()
                r = rng.random()
                tm = 'var'
                if r < 0.12 and printable(s + t) and len(s) + len(t) < 100:
                    tm = 'prog' if r < 0.07 or same else 'tight'
                elif r < 0.2 and not same:
                    tm = 'alias'
                    t = list(s)
                elif r < 0.3 and not same and 0 < len(s) <= 128:
                    tm = 'field'
                r = rng.random()
                if r < 0.3:
                    b = None
                elif r < 0.7:
                    b = [rng.randrange(0, len(t) + 3), 0, '']
                else:
                    b = self._num(len(t))
                if s and rng.random() < 0.65:
                    a = [rng.randrange(1, len(s) + 1), 0, rng.choice(['', '', '', '#', '!'])]
                else:
                    a = self._num(len(s))
                c = {'f': f, 's': s, 't': t, 'tm': tm, 'a': a, 'b': b, 'same': same}
                if tm == 'tight':
                    c['garb'] = rng.randrange(2)
                    c['slack'] = tight_slack(rng, f, len(s), len(t), c['garb'])
                add(c)
            elif f == 'COMP':
                s = self._bytes()
                if not s and rng.random() < 0.8:
                    s = self._bytes(n=rng.randrange(1, 10))
                L = len(s)
                st = rng.choices(['MIDSET', 'LSET', 'RSET'], [6, 2, 2])[0]
                g = rng.choice(['LEFT', 'LEFT', 'RIGHT', 'MID', 'MID', 'CAT', 'VAR'])

                def count():
                    # counts covering the whole string are the interesting ones
                    r = rng.random()
                    if r < 0.6:
                        return [rng.choice([L, L, L + 1, 255, 254, L + rng.randrange(0, 5)]), 0, '']
                    if r < 0.85:
                        return [rng.randrange(0, L + 2), 0, '']
                    return self._num(L)
                x = y = None
                if g in ('LEFT', 'RIGHT'):
                    x = count()
                elif g == 'MID':
                    x = [1, 0, ''] if rng.random() < 0.6 else self._num(L)
                    y = None if rng.random() < 0.4 else count()
                r = rng.random()
                tm = 'var'
                if r < 0.2 and printable(s) and len(s) < 100:
                    tm = 'prog'
                elif r < 0.4:
                    tm = 'arr'
                elif r < 0.55 and 0 < len(s) <= 128:
                    tm = 'field'
                c = {'f': 'COMP', 'st': st, 's': s, 'tm': tm, 'g': g, 'x': x, 'y': y}
                if st == 'MIDSET':
                    c['a'] = [rng.randrange(1, L + 1), 0, ''] if s and rng.random() < 0.8 else self._num(L)
                    r = rng.random()
                    c['b'] = None if r < 0.5 else ([rng.randrange(0, L + 3), 0, ''] if r < 0.85 else self._num(L))
                add(c)
            else:
                s = self._bytes()
                r = rng.random()
                t = self._bytes(n=min(255, max(0, len(s) + rng.choice([-1, 0, 1])))) if r < 0.3 else self._bytes()
                r = rng.random()
                tm = 'var'
                if r < 0.12 and printable(s + t) and len(s) + len(t) < 100:
                    tm = 'prog' if r < 0.06 else 'tight'
                elif r < 0.25 and 0 < len(s) <= 128:
                    tm = 'field'
                elif r < 0.3:
                    tm, t = 'self', list(s)
                c = {'f': f, 's': s, 't': t, 'tm': tm}
                if tm == 'tight':
                    c['garb'] = rng.randrange(2)
                    c['slack'] = tight_slack(rng, f, len(s), len(t), c['garb'])
                add(c)
        self.histogram = hist
        return out

    # ------------------------------------------------------------------ implementation
    _messages = None

    def _err_of(self, text):
        """Error number from the message the interpreter printed ('' = no error)."""
        if isinstance(text, bytes):
            text = text.decode('latin-1')
        text = text.replace('\xa0', ' ').replace('\xff', ' ').strip()
        if not text:
            return None
        if self._messages is None:
            from pcbasic.basic.base import error
            self._messages = sorted(((v.decode('latin-1'), k) for k, v in error.BASICError.messages.items()),
                                    key=lambda x: -len(x[0]))
        for msg, k in self._messages:
            if text.startswith(msg):
                return k
        raise Refused('unexpected interpreter output %r' % text)

    def _operand(self, sess, name, b, mode):
        """Make byte string b available; return the BASIC expression denoting it."""
        if mode == 'var':
            sess.set_variable(name, bytes(b))
            return name
        return str_expr(b, mode)

    def impl(self, case):
        try:
            with core.time_limit(30):
                return self._impl(case)
        except Refused:
            raise
        except Exception as e:  # host exception escaping the interpreter
            return common.canon_exc(e)

    def _run(self, sess, stmt):
        out = sess.execute(stmt)
        return self._err_of(out)

    def _impl(self, case):
        f = case['f']
        if len(case.get('s', [])) > 255 or len(case.get('t', [])) > 255:
            raise Refused('operand longer than 255 bytes cannot exist in BASIC')
        if f in ('MIDSET', 'LSET', 'RSET'):
            return self._impl_stmt(case)
        if f == 'COMP':
            return self._impl_comp(case)
        if case.get('gc'):
            return self._impl_gc(case)
        if case.get('mem'):
            return self._impl_mem(case)
        with common.new_session() as s:
            sm = case.get('sm', 'var')
            S = self._operand(s, 'A$', case['s'], sm) if 's' in case else None
            T = self._operand(s, 'B$', case['t'], sm) if 't' in case else None
            a = num_text(case['a']) if case.get('a') is not None else None
            b = num_text(case['b']) if case.get('b') is not None else None
            numeric = False
            if f == 'LEFT':
                e = 'LEFT$(%s,%s)' % (S, a)
            elif f == 'RIGHT':
                e = 'RIGHT$(%s,%s)' % (S, a)
            elif f == 'MID':
                e = 'MID$(%s,%s)' % (S, a) if b is None else 'MID$(%s,%s,%s)' % (S, a, b)
            elif f == 'INSTR':
                e = 'INSTR(%s,%s)' % (S, T) if a is None else 'INSTR(%s,%s,%s)' % (a, S, T)
                numeric = True
            elif f == 'STRING':
                e = 'STRING$(%s,%s)' % (a, b)
            elif f == 'STRINGS':
                e = 'STRING$(%s,%s)' % (a, T)
            elif f == 'SPACE':
                e = 'SPACE$(%s)' % a
            elif f == 'CHR':
                e = 'CHR$(%s)' % a
            elif f == 'LEN':
                e, numeric = 'LEN(%s)' % S, True
            elif f == 'ASC':
                e, numeric = 'ASC(%s)' % S, True
            elif f == 'CONCAT':
                e = '%s+%s' % (S, T)
            elif f == 'CMP':
                res = [0]
                for op in ('=', '<>', '>', '>=', '<=', '<'):
                    s.set_variable('R%', 77)
                    err = self._run(s, 'R%%=(%s%s%s)' % (S, op, T))
                    if err is not None:
                        return [1, err]
                    res.append(s.get_variable('R%'))
                return res
            else:
                raise Refused('unknown function %s' % f)
            if len(e) > 240:
                raise Refused('statement too long')
            if numeric:
                s.set_variable('R%', 77)
                err = self._run(s, 'R%=' + e)
                if err is not None:
                    return [1, err]
                return [0, s.get_variable('R%')]
            s.set_variable('R$', b'?')
            err = self._run(s, 'R$=' + e)
            if err is not None:
                return [1, err]
            # operands are not modified by a function call
            if sm == 'var' and 's' in case and list(s.get_variable('A$')) != case['s']:
                raise Refused('operand changed')
            return [0] + list(s.get_variable('R$'))

    def _mem_setup(self, s, case):
        mem = case['mem']
        if self._run(s, 'CLEAR ,9000:DIM F$(120):I=0:K=0') is not None:
            raise Refused('setup failed')
        s.set_variable('A$', bytes(case['s']))
        s.set_variable('B$', bytes(case['t']))
        s.set_variable('R$', b'?')
        s.set_variable('P%', 0)     # (used by the twin session that reads the free space; same layout in both)
        s.set_variable('Q%', 0)
        for l in ('K=FRE("")', 'G$=STRING$(200,"g")', 'G$=""' if mem['garb'] else 'G$="":K=FRE("")',
                  'WHILE FRE(0)>250:F$(I)=STRING$(100,"x"):I=I+1:WEND',
                  'K=FRE(0)-%d:F$(I)=STRING$(K,"y")' % mem['slack']):
            if self._run(s, l) is not None:
                raise Refused('memory setup failed at %s' % l)

    def _mem_free(self, case):
        """(free string space before, after a garbage collection) in the state in which the statement runs:
        read with FRE(0) / FRE("") in a second session that went through the same deterministic setup."""
        cache = self.__dict__.setdefault('_memfree', {})
        key = core.sha(case)
        if key not in cache:
            with common.new_session() as s:
                self._mem_setup(s, case)
                if self._run(s, 'P%=FRE(0):Q%=FRE("")') is not None:
                    raise Refused('reading the free space failed')
                cache[key] = (s.get_variable('P%'), s.get_variable('Q%'))
        return cache[key]

    def _impl_mem(self, case):
        """A$+B$ with about `slack` bytes of free string space and optionally reclaimable garbage."""
        with common.new_session() as s:
            self._mem_setup(s, case)
            err = self._run(s, 'R$=A$+B$')
            if err is not None:
                return [1, err]
            return [0] + list(s.get_variable('R$'))

    def _impl_gc(self, case):
        """A function / operator whose string operands are temporaries while one argument's evaluation collects
        garbage.  The value must be the same as without any of this (operands are values)."""
        f, gc = case['f'], case['gc']
        full = gc['how'] == 'full'
        trig = 'LEN(Z$+"q")' if full else 'FRE("")'
        with common.new_session() as s:
            if full:
                err = self._run(s, 'CLEAR ,9000:DIM F$(120):I=0:K=0')
                if err is not None:
                    raise Refused('setup failed with %s' % err)
            s.set_variable('Z$', b'0123456789' * 4)
            if 's' in case:
                s.set_variable('A$', bytes(case['s']))
            if 't' in case:
                s.set_variable('B$', bytes(case['t']))
            s.set_variable('R$', b'?')
            s.set_variable('R%', 77)

            def pressure():
                if not full:
                    return
                for l in ('G$=STRING$(200,"g"):G$=STRING$(200,"h")',
                          'WHILE FRE(0)>250:F$(I)=STRING$(100,"x"):I=I+1:WEND',
                          'K=FRE(0)-%d:F$(I)=STRING$(K,"y"):I=I+1' % gc['slack']):
                    err = self._run(s, l)
                    if err is not None:
                        raise Refused('memory pressure setup failed with %s' % err)

            def sarg(k, var):
                e = TMPFORMS[gc['form']] % var if k in gc['tmp'] else var
                if gc['at'] == k:
                    e = 'LEFT$(%s,255+0*%s)' % (e, trig)
                return e

            def narg(k):
                if case.get(k) is None:
                    return None
                e = num_text(case[k])
                return '%s*0+%s' % (trig, e) if gc['at'] == k else e
            S = sarg('s', 'A$') if 's' in case else None
            T = sarg('t', 'B$') if 't' in case else None
            a, b = narg('a'), narg('b')
            numeric = False
            if f == 'LEFT':
                e = 'LEFT$(%s,%s)' % (S, a)
            elif f == 'RIGHT':
                e = 'RIGHT$(%s,%s)' % (S, a)
            elif f == 'MID':
                e = 'MID$(%s,%s)' % (S, a) if b is None else 'MID$(%s,%s,%s)' % (S, a, b)
            elif f == 'INSTR':
                e = 'INSTR(%s,%s)' % (S, T) if a is None else 'INSTR(%s,%s,%s)' % (a, S, T)
                numeric = True
            elif f == 'STRINGS':
                e = 'STRING$(%s,%s)' % (a, T)
            elif f == 'CONCAT':
                e = '%s+%s' % (S, T)
            elif f == 'CMP':
                ops = ['=', '<>', '>', '>=', '<=', '<']
                res = {}
                # in 'full' mode the string space is filled up once, just before the operator gc['op'] (run last)
                last = ops[gc.get('op', 2) % 6]
                for op in [o for o in ops if o != last] + [last]:
                    if op == last:
                        pressure()
                    s.set_variable('R%', 77)
                    err = self._run(s, 'R%%=(%s%s%s)' % (S, op, T))
                    if err is not None:
                        return [1, err]
                    res[op] = s.get_variable('R%')
                return [0] + [res[o] for o in ops]
            else:
                raise Refused('no collection variant of %s' % f)
            pressure()
            if numeric:
                err = self._run(s, 'R%=' + e)
                if err is not None:
                    return [1, err]
                return [0, s.get_variable('R%')]
            err = self._run(s, 'R$=' + e)
            if err is not None:
                return [1, err]
            for k, var in (('s', 'A$'), ('t', 'B$')):
                if k in case and list(s.get_variable(var)) != case[k]:
                    raise Refused('operand changed')
            return [0] + list(s.get_variable('R$'))

    @staticmethod
    def _comp_source(case, V):
        g = case['g']
        x = num_text(case['x']) if case.get('x') is not None else None
        y = num_text(case['y']) if case.get('y') is not None else None
        if g == 'LEFT':
            return 'LEFT$(%s,%s)' % (V, x)
        if g == 'RIGHT':
            return 'RIGHT$(%s,%s)' % (V, x)
        if g == 'MID':
            return 'MID$(%s,%s)' % (V, x) if y is None else 'MID$(%s,%s,%s)' % (V, x, y)
        if g == 'CAT':
            return V + '+""'
        if g == 'VAR':
            return V
        raise Refused('unknown source %s' % g)

    def _impl_comp(self, case):
        """<statement on V$> = <string function of V$>, V$ a string-space string, a program literal,
        an array element or a FIELD variable."""
        st, tm, tgt = case['st'], case['tm'], case['s']
        V = 'A$(1)' if tm == 'arr' else 'A$'
        src = self._comp_source(case, V)
        if st == 'MIDSET':
            a = num_text(case['a'])
            head = 'MID$(%s,%s)' % (V, a) if case.get('b') is None else 'MID$(%s,%s,%s)' % (V, a, num_text(case['b']))
        else:
            head = '%s %s' % (st, V)
        stmt = '%s=%s' % (head, src)
        d = None
        try:
            kw = {}
            if tm == 'field':
                d = common.tmpdir('c09')
                kw = dict(devices={'C': d}, current_device='C:')
            with common.new_session(**kw) as s:
                if tm == 'prog':
                    line = '10 A$=%s:%s' % (str_expr(tgt, 'lit'), stmt)
                    if len(line) > 250:
                        raise Refused('line too long')
                    s.execute(line)
                    err = self._run(s, 'RUN')
                elif tm == 'arr':
                    s.set_variable('B$', bytes(tgt))
                    err = self._run(s, 'DIM A$(3):A$(1)=B$')
                    if err is not None:
                        raise Refused('array setup failed with %s' % err)
                    err = self._run(s, stmt)
                elif tm == 'field':
                    err = self._run(s, 'OPEN "R",#1,"T.DAT",%d:FIELD #1,%d AS A$' % (len(tgt), len(tgt)))
                    if err is not None:
                        raise Refused('FIELD setup failed with %s' % err)
                    s.set_variable('B$', bytes(tgt))
                    err = self._run(s, 'LSET A$=B$')
                    if err is not None or list(s.get_variable('A$')) != tgt:
                        raise Refused('FIELD fill failed')
                    err = self._run(s, stmt)
                else:
                    s.set_variable('A$', bytes(tgt))
                    err = self._run(s, stmt)
                if err is not None:
                    return [1, err]
                s.set_variable('R$', b'?')
                err = self._run(s, 'R$=' + V)
                if err is not None:
                    raise Refused('reading the target back failed with %s' % err)
                return [0] + list(s.get_variable('R$'))
        finally:
            if d:
                common.rmtree(d)

    def _impl_stmt(self, case):
        f, tm = case['f'], case.get('tm', 'var')
        tgt, val = case['s'], case['t']
        if f == 'MIDSET':
            a = num_text(case['a'])
            head = 'MID$(A$,%s)' % a if case.get('b') is None else 'MID$(A$,%s,%s)' % (a, num_text(case['b']))
            src = 'A$' if case['same'] else 'B$'
        else:
            head = f + ' A$'
            src = 'A$' if tm == 'self' else 'B$'
        stmt = '%s=%s' % (head, src)
        d = None
        try:
            kw = {}
            if tm == 'field':
                d = common.tmpdir('c09')
                kw = dict(devices={'C': d}, current_device='C:')
            with common.new_session(**kw) as s:
                if tm == 'prog':
                    # the target is a string literal in program code (copied on first modification)
                    line = '10 A$=%s:B$=%s:%s' % (str_expr(tgt, 'lit'), str_expr(val, 'lit'), stmt)
                    if len(line) > 250:
                        raise Refused('line too long')
                    s.execute(line)
                    err = self._run(s, 'RUN')
                elif tm == 'tight':
                    # the target is a literal in program code, the source a temporary expression, and string space holds
                    # just `slack` free bytes (and maybe garbage): copying the literal out has to collect garbage while
                    # the temporary is alive (seeded change C09c)
                    src = str_expr(val, 'lit') + '+""'
                    prog = ['10 CLEAR ,9000:DIM F$(90):G$="":A$="":I=0:K=0',
                            '30 G$=STRING$(200,"g"):G$=STRING$(200,"h")' if case.get('garb') else '30 K=FRE("")',
                            '40 WHILE FRE(0)>250:F$(I)=STRING$(100,"x"):I=I+1:WEND',
                            '50 K=FRE(0)-%d:F$(I)=STRING$(K,"y")' % case['slack'],
                            '60 A$=%s' % str_expr(tgt, 'lit')]
                    if max(len(l) for l in prog) > 250:
                        raise Refused('line too long')
                    for l in prog:
                        s.execute(l)
                    err = self._run(s, 'RUN')
                    if err is not None:
                        raise Refused('tight setup failed with %s' % err)
                    err = self._run(s, '%s=%s' % (head, src))
                elif tm == 'alias':
                    # B$ is a copy of A$ (equal contents, different pointer)
                    s.set_variable('A$', bytes(tgt))
                    err = self._run(s, 'B$=A$:' + stmt)
                elif tm == 'field':
                    err = self._run(s, 'OPEN "R",#1,"T.DAT",%d:FIELD #1,%d AS A$' % (len(tgt), len(tgt)))
                    if err is not None:
                        raise Refused('FIELD setup failed with %s' % err)
                    s.set_variable('B$', bytes(tgt))
                    err = self._run(s, 'LSET A$=B$')
                    if err is not None or list(s.get_variable('A$')) != tgt:
                        raise Refused('FIELD fill failed')
                    s.set_variable('B$', bytes(val))
                    err = self._run(s, stmt)
                else:
                    s.set_variable('A$', bytes(tgt))
                    s.set_variable('B$', bytes(val))
                    err = self._run(s, stmt)
                if err is not None:
                    return [1, err]
                res = list(s.get_variable('A$'))
                if src == 'B$' and tm not in ('alias', 'tight') and list(s.get_variable('B$')) != val:
                    raise Refused('source changed')
                return [0] + res
        finally:
            if d:
                common.rmtree(d)

    # ------------------------------------------------------------------ model
    def model_term(self, case):
        f = case['f']
        S = core.zl(case['s']) if 's' in case else None
        T = core.zl(case['t']) if 't' in case else None
        a = num_coq(case['a']) if case.get('a') is not None else None
        b = num_coq(case['b']) if case.get('b') is not None else None
        opt = lambda x: 'None' if x is None else '(Some %s)' % x
        if f == 'LEFT':
            return 'enc_res (left_ %s %s)' % (S, a)
        if f == 'RIGHT':
            return 'enc_res (right_ %s %s)' % (S, a)
        if f == 'MID':
            return 'enc_res (mid_ %s %s %s)' % (S, a, opt(b))
        if f == 'INSTR':
            return 'enc_resZ (instr_ %s %s %s)' % (opt(a), S, T)
        if f == 'STRING':
            return 'enc_res (string_ %s (ArgNum %s))' % (a, b)
        if f == 'STRINGS':
            return 'enc_res (string_ %s (ArgStr %s))' % (a, T)
        if f == 'SPACE':
            return 'enc_res (space_ %s)' % a
        if f == 'CHR':
            return 'enc_res (chr_ %s)' % a
        if f == 'LEN':
            return 'enc_resZ (len_ %s)' % S
        if f == 'ASC':
            return 'enc_resZ (asc_ %s)' % S
        if f == 'CONCAT' and case.get('mem'):
            f0, f1 = self._mem_free(case)
            return 'enc_res (concat_mem %d %d %s %s)' % (f0, f1, S, T)
        if f == 'CONCAT':
            return 'enc_res (concat %s %s)' % (S, T)
        if f == 'CMP':
            return ('(let a := %s in let b := %s in '
                    '[0; op_eq a b; op_neq a b; op_gt a b; op_gte a b; op_lte a b; op_lt a b])' % (S, T))
        if f == 'MIDSET':
            return 'enc_res (mid_stmt %s %s %s %s %s)' % (S, a, opt(b), T, 'true' if case['same'] else 'false')
        if f == 'COMP':
            g = case['g']
            x = num_coq(case['x']) if case.get('x') is not None else None
            y = num_coq(case['y']) if case.get('y') is not None else None
            # the source is composed as a VALUE (a fresh string); only the bare variable is the same buffer
            src = {'LEFT': '(left_ s %s)' % x, 'RIGHT': '(right_ s %s)' % x, 'MID': '(mid_ s %s %s)' % (x, opt(y)),
                   'CAT': '(concat s [])', 'VAR': '(Ok s)'}[g]
            if case['st'] == 'MIDSET':
                if g == 'VAR':
                    return '(let s := %s in enc_res (mid_stmt s %s %s s true))' % (S, a, opt(b))
                return '(let s := %s in enc_res (mid_stmt_src s %s %s %s))' % (S, a, opt(b), src)
            return '(let s := %s in enc_res (lset_src s %s %s))' % (S, src, 'true' if case['st'] == 'RSET' else 'false')
        if f == 'LSET':
            return 'enc_res (lset_stmt %s %s)' % (S, T)
        if f == 'RSET':
            return 'enc_res (rset_stmt %s %s)' % (S, T)
        raise Refused('unknown function %s' % f)

    # ------------------------------------------------------------------ property oracle
    @staticmethod
    def _int16(q):
        """(value, None) or (None, Overflow)"""
        z = rnd(q)
        if not (-32768 <= z <= 32767):
            return None, [1, OVF]
        return z, None

    def reference(self, case):
        """The reference definition of each function on Python bytes, with the documented ranges."""
        f = case['f']
        if f == 'COMP':
            tgt = case['s']
            if case['st'] == 'MIDSET':
                # the statement's own argument errors come first
                pre = self.reference({'f': 'MIDSET', 's': tgt, 't': [], 'a': case['a'], 'b': case.get('b'), 'same': 0})
                if pre[0] == 1:
                    return pre
            g = case['g']
            if g in ('CAT', 'VAR'):
                val = [0] + list(tgt)
            else:
                val = self.reference({'f': g, 's': tgt, 'a': case['x'], 'b': case.get('y')})
            if val[0] == 1:
                return val
            # a function result is a value: a fresh copy of the bytes, whatever the count was
            if case['st'] == 'MIDSET':
                return self.reference({'f': 'MIDSET', 's': tgt, 't': val[1:], 'a': case['a'], 'b': case.get('b'),
                                       'same': 1 if g == 'VAR' else 0})
            return self.reference({'f': case['st'], 's': tgt, 't': val[1:]})
        s = bytes(case.get('s', []))
        t = bytes(case.get('t', []))
        qa = num_value(case['a']) if case.get('a') is not None else None
        qb = num_value(case['b']) if case.get('b') is not None else None
        if f in ('LEFT', 'RIGHT'):
            n, e = self._int16(qa)
            if e:
                return e
            if not 0 <= n <= 255:
                return [1, IFC]
            r = s[:n] if f == 'LEFT' else s[max(0, len(s) - n):]
            return [0] + list(r)
        if f == 'MID':
            st, e = self._int16(qa)
            if e:
                return e
            if qb is None:
                n = len(s)
            else:
                n, e = self._int16(qb)
                if e:
                    return e
            if not (1 <= st <= 255 and 0 <= n <= 255):
                return [1, IFC]
            return [0] + list(s[st - 1:][:n])
        if f == 'INSTR':
            st = 1
            if qa is not None:
                st, e = self._int16(qa)
                if e:
                    return e
                if not 1 <= st <= 255:
                    return [1, IFC]
            # least position p >= st (1-based, p <= len) at which t occurs in s; 0 if none
            for p in range(st, len(s) + 1):
                if s[p - 1:p - 1 + len(t)] == t:
                    return [0, p]
            return [0, 0]
        if f in ('STRING', 'STRINGS'):
            n, e = self._int16(qa)
            if e:
                return e
            if not 0 <= n <= 255:
                return [1, IFC]
            if f == 'STRINGS':
                return [0] + list(t[:1] * n)
            c, e = self._int16(qb)
            if e:
                return e
            if not 0 <= c <= 255:
                return [1, IFC]
            return [0] + [c] * n
        if f == 'SPACE':
            n, e = self._int16(qa)
            if e:
                return e
            return [0] + [32] * n if 0 <= n <= 255 else [1, IFC]
        if f == 'CHR':
            n, e = self._int16(qa)
            if e:
                return e
            return [0, n] if 0 <= n <= 255 else [1, IFC]
        if f == 'LEN':
            return [0, len(s)]
        if f == 'ASC':
            return [0, s[0]] if s else [1, IFC]
        if f == 'CONCAT' and case.get('mem'):
            # the limit of 255 bytes is a property of the result alone; memory is looked at only afterwards,
            # before and after collecting garbage
            free, free_collected = self._mem_free(case)
            if len(s) + len(t) > 255:
                return [1, STL]
            if max(free, free_collected) <= len(s) + len(t):
                return [1, 14]
            return [0] + list(s + t)
        if f == 'CONCAT':
            return [0] + list(s + t) if len(s) + len(t) <= 255 else [1, STL]
        if f == 'CMP':
            # byte-wise lexicographic, shorter prefix first == Python's order on bytes
            tv = lambda x: -1 if x else 0
            return [0, tv(s == t), tv(s != t), tv(s > t), tv(s >= t), tv(s <= t), tv(s < t)]
        if f == 'MIDSET':
            st, e = self._int16(qa)
            if e:
                return e
            n = 255
            if qb is not None:
                n, e = self._int16(qb)
                if e:
                    return e
            if not 0 <= n <= 255:
                return [1, IFC]
            if n > 0 and not 1 <= st <= len(s):
                return [1, IFC]
            if n == 0:
                return [0] + list(s)
            buf = bytearray(s)
            src = t
            cnt = min(n, len(src), len(s) - (st - 1))
            if case['same']:
                # source and target are the same buffer: sequential left-to-right byte copy
                for i in range(cnt):
                    buf[st - 1 + i] = buf[i]
            else:
                buf[st - 1:st - 1 + cnt] = src[:cnt]
            return [0] + list(buf)
        if f in ('LSET', 'RSET'):
            cut = t[:len(s)]
            pad = b' ' * (len(s) - len(cut))
            return [0] + list(cut + pad if f == 'LSET' else pad + cut)
        raise Refused('unknown function %s' % f)

    def oracle(self, case, out):
        want = self.reference(case)
        if out != want:
            def show(x):
                return str(x) if len(x) < 24 else str(x[:24])[:-1] + ', ... (%d items)]' % len(x)
            return '%s: observed %s, reference definition gives %s' % (case['f'], show(out), show(want))
        if case['f'] in ('MIDSET', 'LSET', 'RSET', 'COMP') and out[0] == 0 and len(out) - 1 != len(case['s']):
            return '%s changed the length of its target' % case['f']
        if out[0] == 0 and case['f'] not in ('INSTR', 'LEN', 'ASC', 'CMP') and len(out) - 1 > 255:
            return 'result longer than 255 bytes'
        return None

    def nontrivial(self, case, out):
        return out[0] == 0 and (len(case.get('s', [1])) > 0)


CHECK = C09
