"""Shared machinery of the C10 / C20 checks (string-space model theories/model/StrSpace.v, UserFn.v).

A *case* is a history of BASIC statements in a small abstract syntax (json lists).  This module
  - prints a history as BASIC text (program lines entered once, each step started with GOTO n, or
    executed as a direct-mode line) and runs it through a real Session, observing the memory model
    after every step without disturbing it (read from the interpreter's internals),
  - prints the same history as a Coq term for the model,
  - evaluates it in an independent reference semantics over Python dicts (the oracle).

Expression syntax (lists):
  ['lit', 'text']  ['num', z, ty]  ['sv', 'A$']  ['av', 'S$', i]  ['cat', e1, e2]  ['par', e]
  ['left', e, n]  ['right', e, n]  ['mid', e, s, n|None]  ['string', n, c]  ['space', n]
  ['str', n]  ['chr', n]  ['fre', e]  ['len', e]  ['instr', a, b]  ['fn', 'A$', [args]]
Statements:
  ['let', lv, e]  ['midset', lv, s, n|None, e]  ['lset', lv, e]  ['rset', lv, e]  ['swap', lv, lv]
  ['erase', 'S$']  ['dim', 'S$', n]  ['clear', None | k]   (k: CLEAR ,var_start+514+k -> k bytes free)
  ['def', 'A$', ['X$', ...], body]
  ['input', [lv, ...], [typed, ...]]   INPUT lv,...  with the line typed at the prompt (str for string fields, int)
A step is {'d': 0|1, 's': stmt}: d=1 runs the statement as a direct-mode line.
"""
import struct

from vlib import core
from harness import common

TYC = {'$': 3, '%': 2, '!': 4, '#': 8}
STR_SCALARS = ['A$', 'B$', 'C$', 'X$', 'Y$']
NUM_SCALARS = ['Q!', 'R!', 'N%', 'D#', 'X!', 'Y%', 'Z#', 'X%', 'X#']
STR_ARRAYS = ['S$', 'T$']
ARR_OBS = 13          # elements 0..12 of each array are observed (DIM goes up to 12)
HASH_MOD = 1000003
SNG_MAX = (2 ** 24 - 1) * 2 ** 103

E_IFC, E_OVERFLOW, E_OOM, E_SUBSCRIPT, E_DUPDEF, E_ILLDIRECT, E_TM, E_OOSS, E_TOOLONG, E_UNDEF_FN = \
    5, 6, 7, 9, 10, 12, 13, 14, 15, 18
E_STX = 2


DEFT = {'INT': '%', 'SNG': '!', 'DBL': '#', 'STR': '$'}


def nid(name):
    """numeric id of a variable / function name: 10 * letter index + type code (0: no sigil, default type)"""
    if len(name) == 1:
        return 10 * (ord(name.upper()) - 64)
    assert len(name) == 2 and name[0].isalpha() and name[1] in TYC, name
    return 10 * (ord(name[0].upper()) - 64) + TYC[name[1]]


# ---------------------------------------------------------------------------------------------
# BASIC text

def b_expr(e):
    k = e[0]
    if k == 'lit':
        return '"%s"' % e[1]
    if k == 'num':
        z, ty = e[1], e[2]
        if z < 0:
            return '(%s)' % b_expr(['neg', ['num', -z, ty]])
        return '%d%s' % (z, '' if ty == '%' and z < 32768 else ty)
    if k == 'neg':
        return '-' + b_expr(e[1])
    if k == 'sv':
        return e[1]
    if k == 'av':
        return '%s(%d)' % (e[1], e[2])
    if k == 'cat':
        return b_expr(e[1]) + '+' + b_expr(e[2])
    if k == 'par':
        return '(' + b_expr(e[1]) + ')'
    if k in ('left', 'right'):
        return '%s$(%s,%s)' % (k.upper(), b_expr(e[1]), b_expr(e[2]))
    if k == 'mid':
        if e[3] is None:
            return 'MID$(%s,%s)' % (b_expr(e[1]), b_expr(e[2]))
        return 'MID$(%s,%s,%s)' % (b_expr(e[1]), b_expr(e[2]), b_expr(e[3]))
    if k == 'string':
        return 'STRING$(%s,%s)' % (b_expr(e[1]), b_expr(e[2]))
    if k == 'space':
        return 'SPACE$(%s)' % b_expr(e[1])
    if k == 'str':
        return 'STR$(%s)' % b_expr(e[1])
    if k == 'chr':
        return 'CHR$(%s)' % b_expr(e[1])
    if k == 'fre':
        return 'FRE(%s)' % b_expr(e[1])
    if k == 'len':
        return 'LEN(%s)' % b_expr(e[1])
    if k == 'instr':
        return 'INSTR(%s,%s)' % (b_expr(e[1]), b_expr(e[2]))
    if k == 'fn':
        if not e[2]:
            return 'FN%s' % e[1]
        return 'FN%s(%s)' % (e[1], ','.join(b_expr(a) for a in e[2]))
    raise ValueError(e)


def b_lv(lv):
    return lv[1] if lv[0] == 'sv' else '%s(%d)' % (lv[1], lv[2])


def b_stmt(st, var_start=None):
    k = st[0]
    if k == 'let':
        return '%s=%s' % (b_lv(st[1]), b_expr(st[2]))
    if k == 'midset':
        if st[3] is None:
            return 'MID$(%s,%s)=%s' % (b_lv(st[1]), b_expr(st[2]), b_expr(st[4]))
        return 'MID$(%s,%s,%s)=%s' % (b_lv(st[1]), b_expr(st[2]), b_expr(st[3]), b_expr(st[4]))
    if k in ('lset', 'rset'):
        return '%s %s=%s' % (k.upper(), b_lv(st[1]), b_expr(st[2]))
    if k == 'swap':
        return 'SWAP %s,%s' % (b_lv(st[1]), b_lv(st[2]))
    if k == 'erase':
        return 'ERASE %s' % st[1]
    if k == 'dim':
        return 'DIM %s(%d)' % (st[1], st[2])
    if k == 'clear':
        if st[1] is None:
            return 'CLEAR'
        return 'CLEAR ,%d' % (var_start + 514 + st[1])
    if k == 'deftype':
        return 'DEF%s %s-%s' % (st[1], st[2], st[3])
    if k == 'input':
        return 'INPUT %s' % ','.join(b_lv(l) for l in st[1])
    if k == 'def':
        ps = '(%s)' % ','.join(st[2]) if st[2] else ''
        return 'DEF FN%s%s=%s' % (st[1], ps, b_expr(st[3]))
    raise ValueError(st)


def is_direct(step):
    return bool(step.get('d')) or step['s'][0] == 'clear'


def program_lines(case):
    """[(line number, text)] of the program-mode steps; step i lives at line 10*i+10, followed by END"""
    lines = []
    for i, step in enumerate(case['steps']):
        if not is_direct(step):
            lines.append('%d %s' % (10 * i + 10, b_stmt(step['s'])))
            lines.append('%d END' % (10 * i + 11))
    return lines


# ---------------------------------------------------------------------------------------------
# running the implementation

def _ptr_obs(mem, buf):
    """(kind, length, bytes|None) of a 3-byte string pointer; kind 0 empty, 1 string space, 2 code, 3 below code"""
    length, addr = struct.unpack('<BH', bytes(buf))
    if length == 0:
        return 0, 0, b'', addr
    if addr >= mem.var_start():
        val = mem.strings._strings.get(addr)
        return 1, length, (None if val is None else bytes(val)), addr
    if addr >= mem.code_start:
        return 2, length, bytes(mem.program.get_memory_block(addr, length)), addr
    return 3, length, None, addr


def observe(s):
    """Non-destructive observation of the memory model of a Session."""
    impl = s._impl
    mem = impl.memory
    from pcbasic.basic import values as V
    o = {'sv': {}, 'nv': {}, 'arr': {}}
    for n in STR_SCALARS:
        buf = mem.scalars._vars.get(n.encode())
        o['sv'][n] = None if buf is None else _ptr_obs(mem, buf)
    for n in NUM_SCALARS:
        buf = mem.scalars._vars.get(n.encode())
        if buf is None:
            o['nv'][n] = None
        else:
            v = mem.values.from_bytes(bytes(buf)).to_value()
            o['nv'][n] = int(v) if v == int(v) else v
    for n in STR_ARRAYS:
        dims = mem.arrays._dims.get(n.encode())
        if dims is None:
            o['arr'][n] = None
        else:
            buf = mem.arrays._buffers[n.encode()]
            els = [_ptr_obs(mem, buf[3 * i:3 * i + 3]) for i in range(min(len(buf) // 3, ARR_OBS))]
            o['arr'][n] = (list(dims), els)
    st = mem.strings
    o['cur'] = st.current
    o['tmp'] = st._temp
    o['top'] = mem.stack_start()
    o['free'] = mem._get_free()
    o['scur'] = mem.scalars.current
    o['acur'] = mem.arrays.current
    o['nstack'] = len(mem._stack)
    o['ntemp'] = len([v for v in mem.temp_values if isinstance(v, V.String)])
    o['nstrings'] = len(st._strings)
    o['sbytes'] = sum(len(v) for v in st._strings.values())
    return o


def obs_flat(o):
    """the part of an observation that the model must reproduce, as a flat int list (hashed)"""
    L = []
    for n in STR_SCALARS:
        p = o['sv'][n]
        if p is None:
            L += [9]
        else:
            L += [p[0], p[1]] + (list(p[2]) if p[2] is not None else [999])
    for n in NUM_SCALARS:
        v = o['nv'][n]
        L += [9] if v is None else [1, v]
    for n in STR_ARRAYS:
        a = o['arr'][n]
        if a is None:
            L += [9]
        else:
            L += [1, a[0][0]]
            for p in a[1]:
                L += [p[0], p[1]] + (list(p[2]) if p[2] is not None else [999])
    L += [o['scur'], o['acur'], o['nstack'], o['ntemp']]
    return L


def hash_list(L):
    h = 7
    for x in L:
        h = (h * 31 + x + 1) % HASH_MOD
    return h


class _StepTimeout(BaseException):
    pass


def _run_limited(f, seconds):
    """run f() with its own wall-clock limit inside an enclosing core.time_limit; False if it timed out"""
    import signal

    def handler(signum, frame):
        raise _StepTimeout()
    old_handler = signal.signal(signal.SIGALRM, handler)
    remaining = signal.alarm(seconds)
    try:
        f()
        return True
    except _StepTimeout:
        return False
    finally:
        signal.alarm(0)
        signal.signal(signal.SIGALRM, old_handler)
        if remaining:
            signal.alarm(max(1, remaining - seconds))


def run_impl(case, limit_s=120):
    """Run the history. Returns dict(cfg=..., steps=[{'err': [kind, code], 'obs': observation}])"""
    with common.new_session() as s:
        with core.time_limit(limit_s):
            s.start()
            impl = s._impl
            mem = impl.memory
            lines = program_lines(case)
            if lines:
                s.execute('\r'.join(lines))
            cfg = {'code_start': mem.code_start, 'var_start': mem.var_start(), 'totmem': mem.total_memory,
                   'stack': mem.stack_size}
            trace = []
            broken = False
            # record the results of FRE (an observation point of the property); behaviour is unchanged
            from pcbasic.basic.base import tokens as tk
            cbs = impl.parser.expression_parser._callbacks
            real_fre = cbs[tk.FRE]
            fre_log = []

            def logging_fre(args):
                r = real_fre(args)
                fre_log.append(int(r.to_value()))
                return r
            cbs[tk.FRE] = logging_fre
            for i, step in enumerate(case['steps']):
                if broken:
                    break
                impl.interpreter.error_num = 0
                err = [0, 0]
                del fre_log[:]
                try:
                    if step['s'][0] == 'input':
                        typed = ','.join(w if isinstance(w, str) else '%d' % w for w in step['s'][2])
                        impl.keyboard.inject_keystrokes(typed + '\r')
                        # Out of string space while a typed string is converted is swallowed by _input_console
                        # ("?Redo from start", then it waits for another line for ever): such a step cannot be
                        # compared; the history is cut before it
                        if not _run_limited(lambda: s.execute(b_stmt(step['s'], cfg['var_start'])) if is_direct(step)
                                            else s.execute('GOTO %d' % (10 * i + 10)), 3):
                            break
                    elif is_direct(step):
                        s.execute(b_stmt(step['s'], cfg['var_start']))
                    else:
                        s.execute('GOTO %d' % (10 * i + 10))
                    if impl.interpreter.error_num:
                        err = [1, impl.interpreter.error_num]
                except Exception as e:   # a host exception escaped the interpreter
                    err = common.canon_exc(e)
                    broken = True
                trace.append({'err': err, 'obs': observe(s), 'fre': list(fre_log)})
            return {'cfg': cfg, 'steps': trace}


def encode_trace(res):
    """canonical int list compared with the model: per step [errkind, err, cur, tmp, free, hash]"""
    out = []
    for t in res['steps']:
        o = t['obs']
        out += [t['err'][0], t['err'][1], o['cur'], -1 if o['tmp'] is None else o['tmp'], o['free'],
                hash_list(obs_flat(o))]
    return out


# ---------------------------------------------------------------------------------------------
# Coq terms

def zl(bs):
    return core.zl(list(bs))


def c_opt(x, f):
    return 'None' if x is None else '(Some %s)' % f(x)


def c_z(z):
    return '(%d)' % z if z < 0 else '%d' % z


class CoqPrinter(object):
    """prints expressions; program-mode literals get consecutive code addresses code_start+1+k"""

    def __init__(self, code_start):
        self.code_start = code_start
        self.nlit = 0
        self.code = []     # (addr, bytes)

    def expr(self, e, direct):
        k = e[0]
        X = lambda x: self.expr(x, direct)
        if k == 'lit':
            bs = e[1].encode('latin1')
            if direct:
                return '(ELit None %s)' % zl(bs)
            self.nlit += 1
            addr = self.code_start + self.nlit
            self.code.append((addr, bs))
            return '(ELit (Some %d) %s)' % (addr, zl(bs))
        if k == 'num':
            return '(ENum %d %s)' % (TYC[e[2]], c_z(e[1]))
        if k == 'sv':
            return '(EVar %d)' % nid(e[1])
        if k == 'av':
            return '(EArr %d %s)' % (nid(e[1]), c_z(e[2]))
        if k == 'cat':
            return '(ECat %s %s)' % (X(e[1]), X(e[2]))
        if k == 'par':
            return '(EPar %s)' % X(e[1])
        if k == 'left':
            return '(ELeft %s %s)' % (X(e[1]), X(e[2]))
        if k == 'right':
            return '(ERight %s %s)' % (X(e[1]), X(e[2]))
        if k == 'mid':
            return '(EMid %s %s %s)' % (X(e[1]), X(e[2]), c_opt(e[3], X))
        if k == 'string':
            return '(EString %s %s)' % (X(e[1]), X(e[2]))
        if k == 'space':
            return '(ESpace %s)' % X(e[1])
        if k == 'str':
            return '(EStr %s)' % X(e[1])
        if k == 'chr':
            return '(EChr %s)' % X(e[1])
        if k == 'fre':
            return '(EFre %s)' % X(e[1])
        if k == 'len':
            return '(ELen %s)' % X(e[1])
        if k == 'instr':
            return '(EInstr %s %s)' % (X(e[1]), X(e[2]))
        if k == 'fn':
            return '(EFn %d [%s])' % (nid(e[1]), ';'.join(X(a) for a in e[2]))
        raise ValueError(e)

    def lv(self, lv):
        if lv[0] == 'sv':
            return '(LvS %d)' % nid(lv[1])
        return '(LvA %d %s)' % (nid(lv[1]), c_z(lv[2]))

    def stmt(self, st, direct):
        k = st[0]
        X = lambda x: self.expr(x, direct)
        if k == 'let':
            return '(SLet %s %s)' % (self.lv(st[1]), X(st[2]))
        if k == 'midset':
            return '(SMid %s %s %s %s)' % (self.lv(st[1]), X(st[2]), c_opt(st[3], X), X(st[4]))
        if k == 'lset':
            return '(SLset %s %s false)' % (self.lv(st[1]), X(st[2]))
        if k == 'rset':
            return '(SLset %s %s true)' % (self.lv(st[1]), X(st[2]))
        if k == 'swap':
            return '(SSwap %s %s)' % (self.lv(st[1]), self.lv(st[2]))
        if k == 'erase':
            return '(SErase %d)' % nid(st[1])
        if k == 'dim':
            return '(SDim %d %s)' % (nid(st[1]), c_z(st[2]))
        if k == 'clear':
            return '(SClear %s)' % c_opt(st[1], c_z)
        if k == 'deftype':
            return '(SDeftype %d %d %d)' % (TYC[DEFT[st[1]]], ord(st[2]) - 64, ord(st[3]) - 64)
        if k == 'input':
            return '(SInput [%s] [%s])' % (
                ';'.join(self.lv(l) for l in st[1]),
                ';'.join('(IStr %s)' % zl(w.encode('latin1')) if isinstance(w, str) else '(INum %s)' % c_z(w) for w in st[2]))
        if k == 'def':
            return '(SDef %d [%s] %s)' % (nid(st[1]), ';'.join('%d' % nid(p) for p in st[2]), X(st[3]))
        raise ValueError(st)


def model_term(case, cfg, nsteps=None):
    """Coq term of type list Z: the model's encoded trace for the history"""
    pr = CoqPrinter(cfg['code_start'])
    steps = []
    if nsteps is None:
        nsteps = len(case['steps'])
    for step in case['steps'][:nsteps]:
        d = is_direct(step)
        steps.append('(%s, %s)' % ('true' if d else 'false', pr.stmt(step['s'], d)))
    code = '[%s]' % ';'.join('(%d, %s)' % (a, zl(b)) for a, b in pr.code)
    return ('(run_history (mk_cfg %d %d %s) %d %d [%s])'
            % (cfg['code_start'], cfg['var_start'], code, cfg['totmem'], cfg['stack'], ';'.join(steps)))


# ---------------------------------------------------------------------------------------------
# reference semantics (independent of any memory model): values are SV (bytes) or (ty, int)

class RefError(Exception):
    def __init__(self, err):
        Exception.__init__(self, err)
        self.err = err


class RefDesync(Exception):
    """the reference needs an observation (an FRE result) that the implementation did not produce"""


class SV(bytes):
    """string value; .code: the value is a program literal that has never been copied to string space"""
    code = False


def sv(b, code=False):
    v = SV(b)
    v.code = bool(code) and len(b) > 0
    return v


def is_str(v):
    return isinstance(v, bytes)


def _conv(ty, v):
    """convert a reference value to type ty ('$','%','!','#')"""
    if ty == '$':
        if not is_str(v):
            raise RefError(E_TM)
        return v
    if is_str(v):
        raise RefError(E_TM)
    z = v[1]
    if ty == '%':
        if not -32768 <= z <= 32767:
            raise RefError(E_OVERFLOW)
    return (ty, z)


def _int16(v):
    return _conv('%', v)[1]


def _str_of_num(v):
    z = v[1]
    return (b'-%d' % -z) if z < 0 else (b' %d' % z)


class Ref(object):
    """Reference state: variable name -> value; arrays name -> [dim, list]; function table."""

    def __init__(self):
        self.sv = {}
        self.arr = {}
        self.fns = {}
        self.active = []       # functions being evaluated
        self.work = 0          # bytes of string values visited while evaluating the current statement
        self.direct = False
        self.fre_log = []
        self.totmem = 65534
        self.var_start = 0
        self.deftype = {}      # letter -> sigil set by DEFINT/DEFSNG/DEFDBL/DEFSTR (default '!')

    def res(self, name):
        """complete a name that has no sigil with the default type of its letter, as of now"""
        return name + self.deftype.get(name[0], '!') if len(name) == 1 else name

    def zero(self, name):
        return sv(b'') if name[-1] == '$' else (name[-1], 0)

    def get(self, name):
        return self.sv.get(name, self.zero(name))

    def _visit(self, v):
        if is_str(v):
            self.work += len(v)
        return v

    def _newstr(self, b, code=False):
        if len(b) > 255:
            raise RefError(E_TOOLONG)
        return self._visit(sv(b, code))

    def check_index(self, name, i):
        if name not in self.arr:
            self.arr[name] = [10, [sv(b'')] * 11]
        if i < 0:
            raise RefError(E_IFC)
        if i > self.arr[name][0]:
            raise RefError(E_SUBSCRIPT)

    def ev(self, e):
        k = e[0]
        if k == 'lit':
            return self._newstr(e[1].encode('latin1'), not self.direct)
        if k == 'num':
            return (e[2], e[1])
        if k == 'sv':
            return self._visit(self.get(self.res(e[1])))
        if k == 'av':
            self.check_index(e[1], e[2])
            return self._visit(self.arr[e[1]][1][e[2]])
        if k == 'cat':
            a = self.ev(e[1])
            b = self.ev(e[2])
            if is_str(a) != is_str(b):
                raise RefError(E_TM)
            if is_str(a):
                return self._newstr(a + b)
            ty = '#' if '#' in (a[0], b[0]) else '!'
            return (ty, a[1] + b[1])
        if k == 'par':
            return self.ev(e[1])
        if k in ('left', 'right'):
            s = self.ev(e[1])
            n = self.ev(e[2])
            s = _conv('$', s)
            n = _int16(n)
            if n == 0:
                return sv(b'')
            if not 0 <= n <= 255:
                raise RefError(E_IFC)
            return self._newstr(s[:n] if k == 'left' else s[-n:])
        if k == 'mid':
            s = self.ev(e[1])
            st = _int16(self.ev(e[2]))
            s = _conv('$', s)
            if e[3] is None:
                n = len(s)
            else:
                n = _int16(self.ev(e[3]))
            if not 1 <= st <= 255:
                raise RefError(E_IFC)
            if not 0 <= n <= 255:
                raise RefError(E_IFC)
            if n == 0 or st > len(s):
                return sv(b'')
            return self._newstr(s[st - 1:st - 1 + n])
        if k == 'string':
            n = _int16(self.ev(e[1]))
            if not 0 <= n <= 255:
                raise RefError(E_IFC)
            c = self.ev(e[2])
            if is_str(c):
                ch = bytes(c[:1])
            else:
                if c[0] == '%' and not 0 <= c[1] <= 255:
                    raise RefError(E_IFC)
                a = _int16(c)
                if not 0 <= a <= 255:
                    raise RefError(E_IFC)
                ch = bytes([a])
            return self._newstr(ch * n)
        if k == 'space':
            v = self.ev(e[1])
            if is_str(v):
                raise RefError(E_TM)
            n = _int16(v)
            if not 0 <= n <= 255:
                raise RefError(E_IFC)
            return self._newstr(b' ' * n)
        if k == 'str':
            v = self.ev(e[1])
            if is_str(v):
                raise RefError(E_TM)
            return self._newstr(_str_of_num(v))
        if k == 'chr':
            v = self.ev(e[1])
            if is_str(v):
                raise RefError(E_TM)
            n = _int16(v)
            if not 0 <= n <= 255:
                raise RefError(E_IFC)
            return self._newstr(bytes([n]))
        if k == 'fre':
            self.ev(e[1])
            if not self.fre_log:
                raise RefDesync('FRE')
            return ('!', self.fre_log.pop(0))     # an observation; its consistency is checked by the oracle
        if k == 'len':
            return ('%', len(_conv('$', self.ev(e[1]))))
        if k == 'instr':
            a = _conv('$', self.ev(e[1]))
            b = _conv('$', self.ev(e[2]))
            if a == b'':
                return ('%', 0)
            return ('%', a.find(b) + 1)
        if k == 'fn':
            return self.call(e[1], e[2])
        raise ValueError(e)

    def call(self, f, args):
        if f not in self.fns:
            raise RefError(E_UNDEF_FN)
        params, body = self.fns[f]
        params = [self.res(p) for p in params]       # completed when the call is made
        if len(args) != len(params):
            raise RefError(E_STX)
        vals = [_conv(p[-1], self.ev(a)) for p, a in zip(params, args)]
        if f in self.active:
            raise RefError(E_OOM)
        saved = {p: self.sv.get(p) for p in params}
        for p, v in zip(params, vals):
            self.sv[p] = v
        self.active.append(f)
        was_direct = self.direct
        self.direct = False          # the body is program text even if the call is a direct-mode line
        try:
            return _conv(f[-1], self.ev(body))
        finally:
            self.direct = was_direct
            self.active.pop()
            for p in params:
                if saved[p] is None:
                    self.sv[p] = self.zero(p)     # created as zero, reads zero afterwards
                else:
                    self.sv[p] = saved[p]

    # statements ---------------------------------------------------------------
    def lv_get(self, lv):
        if lv[0] == 'sv':
            return self.get(lv[1])
        return self.arr[lv[1]][1][lv[2]]

    def lv_set(self, lv, v):
        if lv[0] == 'sv':
            self.sv[lv[1]] = v
        else:
            self.arr[lv[1]][1][lv[2]] = v

    def pre(self, lv):
        if lv[0] == 'av':
            self.check_index(lv[1], lv[2])

    def exec(self, st, direct, exists=(), fre_log=()):
        """execute a statement; raises RefError. exists: scalar names that exist in variable memory before
        the step (only SWAP can tell); fre_log: the FRE results the implementation produced in this step"""
        self.work = 0
        self.active = []
        self.direct = direct
        self.fre_log = list(fre_log)
        k = st[0]
        if k == 'let':
            lv, e = st[1], st[2]
            self.pre(lv)
            v = _conv(lv[1][-1], self.ev(e))
            self._visit(v)
            self.lv_set(lv, v if not is_str(v) else sv(v, v.code))
        elif k == 'midset':
            lv = st[1]
            self.pre(lv)
            start = _int16(self.ev(st[2]))
            num = 255 if st[3] is None else _int16(self.ev(st[3]))
            s = _conv('$', self.lv_get(lv))
            if not 0 <= num <= 255:
                raise RefError(E_IFC)
            if num > 0 and not 1 <= start <= len(s):
                raise RefError(E_IFC)
            val = _conv('$', self.ev(st[4]))
            off = start - 1
            num = min(num, len(val))
            if off + num > len(s):
                num = len(s) - off
            if num <= 0:
                return
            self.work += len(s)
            # MID$(A$,..)=A$ copies byte by byte (the source is overwritten while it is read)
            same = list(st[4]) == list(lv)
            b = bytearray(s)
            if same:
                for i in range(num):
                    b[off + i] = b[i]
            else:
                b[off:off + num] = val[:num]
            self.lv_set(lv, sv(bytes(b)))
        elif k in ('lset', 'rset'):
            lv = st[1]
            self.pre(lv)
            s = _conv('$', self.lv_get(lv))
            v = _conv('$', self.ev(st[2]))
            n = len(s)
            v = bytes(v[:n]).rjust(n) if k == 'rset' else bytes(v[:n]).ljust(n)
            self.work += n
            self.lv_set(lv, sv(v))
        elif k == 'swap':
            a, b = st[1], st[2]
            if a[1][-1] != b[1][-1]:
                raise RefError(E_TM)
            self.pre(a)
            self.pre(b)
            if b[0] == 'sv' and b[1] not in exists and not (a[0] == 'sv' and a[1] == b[1]):
                raise RefError(E_IFC)
            va, vb = self.lv_get(a), self.lv_get(b)
            self.lv_set(a, vb)
            self.lv_set(b, va)
        elif k == 'erase':
            if st[1] not in self.arr:
                raise RefError(E_IFC)
            del self.arr[st[1]]
        elif k == 'dim':
            if st[1] in self.arr:
                raise RefError(E_DUPDEF)
            if st[2] < 0:
                raise RefError(E_IFC)
            self.arr[st[1]] = [st[2], [sv(b'')] * (st[2] + 1)]
        elif k == 'clear':
            if st[1] is not None:
                n = self.var_start + 514 + st[1]
                if n > self.totmem:
                    raise RefError(E_OOM)
                self.totmem = n
            self.sv.clear()
            self.arr.clear()
            self.fns.clear()
            self.deftype.clear()
        elif k == 'input':
            upto = st[3] if len(st) > 3 else len(st[1])      # oracle: only the first `upto` variables get assigned
            for lv, w in list(zip(st[1], st[2]))[:upto]:
                v = sv(w.encode('latin1')) if isinstance(w, str) else ('%', w)
                self._visit(v)
                v = _conv(lv[1][-1], v)
                self.pre(lv)
                self.lv_set(lv, v)
        elif k == 'def':
            if direct:
                raise RefError(E_ILLDIRECT)
            self.fns[st[1]] = (list(st[2]), st[3])
        elif k == 'deftype':
            for o in range(ord(st[2]), ord(st[3]) + 1):
                self.deftype[chr(o)] = DEFT[st[1]]
        else:
            raise ValueError(st)

    def snapshot(self):
        return (dict(self.sv), {k: [v[0], list(v[1])] for k, v in self.arr.items()}, dict(self.fns), self.totmem,
                dict(self.deftype))

    def restore(self, snap):
        self.sv, self.arr, self.fns = dict(snap[0]), {k: [v[0], list(v[1])] for k, v in snap[1].items()}, dict(snap[2])
        self.totmem = snap[3]
        self.deftype = dict(snap[4])

    def live_bytes(self):
        """bytes of string space a perfect collector leaves occupied"""
        n = 0
        for name, v in self.sv.items():
            if is_str(v) and not v.code:
                n += len(v)
        for name, (dim, els) in self.arr.items():
            for v in els:
                if not v.code:
                    n += len(v)
        return n


def check_trace(case, res, strict_fre=True):
    """The property, read directly on the observed behaviour (no Coq model involved).
    Returns None or a description of the first violation."""
    ref = Ref()
    cfg = res['cfg']
    ref.totmem, ref.var_start = cfg['totmem'], cfg['var_start']
    exists = set()
    for i, (step, t) in enumerate(zip(case['steps'], res['steps'])):
        st, o, err = step['s'], t['obs'], t['err']
        direct = is_direct(step)
        where = 'step %d (%s)' % (i, b_stmt(st, cfg['var_start']))
        if err[0] == 2:
            return '%s: host exception class %d escaped the interpreter' % (where, err[1])
        snap = ref.snapshot()
        try:
            ref.exec(st, direct, exists, t.get('fre', ()))
            rerr = 0
        except RefError as e:
            rerr = e.err
            if st[0] != 'input':        # INPUT keeps the variables it assigned before the error
                arrs = ref.arr
                ref.restore(snap)
                ref.arr = arrs          # an array that was auto-dimensioned stays
        except RefDesync:
            rerr = -1
            ref.restore(snap)
        ierr = err[1] if err[0] == 1 else 0
        if ierr in (E_OOM, E_OOSS) and not (st[0] == 'clear' and rerr == ierr):
            # memory failure (or the recursion error): the statement has no effect on values, except that
            # arrays may have been auto-dimensioned and a function is defined before its memory is claimed
            ref.restore(snap)
            if st[0] == 'input':
                # the variables before the one whose creation failed have been assigned: find the prefix
                for j in range(len(st[1]) + 1):
                    ref.restore(snap)
                    try:
                        ref.exec(list(st[:3]) + [j], direct, exists, ())
                    except RefError:
                        continue
                    if all(bytes((o['sv'][n] or (0, 0, b''))[2] or b'') == bytes(ref.get(n)) for n in STR_SCALARS) \
                            and all((o['nv'][n] or 0) == ref.get(n)[1] for n in NUM_SCALARS) \
                            and all(o['arr'][n] is None or
                                    all(p[2] is not None and bytes(p[2]) ==
                                        (bytes(ref.arr[n][1][j2]) if n in ref.arr and j2 <= ref.arr[n][0] else b'')
                                        for j2, p in enumerate(o['arr'][n][1]))
                                    for n in STR_ARRAYS):
                        break
                else:
                    ref.restore(snap)
            if st[0] == 'def' and not direct:
                ref.fns[st[1]] = (list(st[2]), st[3])
            for n in STR_ARRAYS:
                a = o['arr'][n]
                if a is not None and n not in ref.arr:
                    ref.arr[n] = [a[0][0], [sv(b'')] * (a[0][0] + 1)]
            if rerr != ierr:
                # ... and it is justified only if memory is really short
                ideal = o['top'] - cfg['var_start'] - o['scur'] - o['acur'] - ref.live_bytes()
                need = 3 * ref.work + 64
                if st[0] == 'input':
                    # all typed strings stay rooted until every variable has been assigned, and each variable
                    # (an 11-element array at most) may have to be created
                    need += 3 * sum(len(w) for w in st[2] if isinstance(w, str)) + 50 * len(st[1])
                if ideal > need:
                    return ('%s: error %d although a collection leaves %d bytes free and the statement '
                            'handles at most %d bytes of strings' % (where, ierr, ideal, ref.work))
        elif ierr != rerr:
            return '%s: error %d, reference semantics says %d' % (where, ierr, rerr)
        # every variable reads back the reference value
        for n in STR_SCALARS:
            p = o['sv'][n]
            want = ref.get(n)
            got = b'' if p is None else p[2]
            if got is None or bytes(got) != bytes(want):
                return '%s: %s reads %r, reference value %r' % (where, n, got, bytes(want))
        for n in NUM_SCALARS:
            v = o['nv'][n]
            want = ref.get(n)[1]
            if (0 if v is None else v) != want:
                return '%s: %s reads %r, reference value %r' % (where, n, v, want)
        for n in STR_ARRAYS:
            a = o['arr'][n]
            if (a is None) != (n not in ref.arr):
                return '%s: array %s exists=%s, reference exists=%s' % (where, n, a is not None, n in ref.arr)
            if a is not None:
                if a[0][0] != ref.arr[n][0]:
                    return '%s: array %s has bound %s, reference %s' % (where, n, a[0], ref.arr[n][0])
                for j, p in enumerate(a[1]):
                    if p[2] is None or bytes(p[2]) != bytes(ref.arr[n][1][j]):
                        return '%s: %s(%d) reads %r, reference value %r' % (where, n, j, p[2], bytes(ref.arr[n][1][j]))
        # FRE after a collection = memory size - program - variables - arrays - live string bytes
        if strict_fre and ierr == 0 and st[0] == 'let' and st[1][0] == 'sv' and st[1][1][-1] != '$' \
                and st[2][0] == 'fre' and (st[2][1][0] == 'lit' or (st[2][1][0] == 'sv' and st[2][1][1][-1] == '$')):
            # live string bytes: every distinct string-space address held by a variable, once
            # (whether a value is a program literal or a copy of it is the implementation's business: after a
            # collection without permanent strings LET copies literals; the observed pointer kind tells)
            live = {}
            for n in STR_SCALARS:
                p = o['sv'][n]
                if p is not None and p[0] == 1:
                    live[p[3]] = p[1]
            for n in STR_ARRAYS:
                a = o['arr'][n]
                if a is not None:
                    for p in a[1]:
                        if p[0] == 1:
                            live[p[3]] = p[1]
            want = o['top'] - cfg['var_start'] - o['scur'] - o['acur'] - sum(live.values())
            got = o['nv'].get(st[1][1])
            if got != want:
                return ('%s: FRE after collection reports %s, memory minus program, variables, arrays and live '
                        'strings is %d' % (where, got, want))
            if o['free'] != want:
                return '%s: free memory %d after FRE(""), expected %d' % (where, o['free'], want)
        exists = set(n for n in STR_SCALARS if o['sv'][n] is not None) | \
            set(n for n in NUM_SCALARS if o['nv'][n] is not None)
    return None


# ---------------------------------------------------------------------------------------------
# generators (all randomness from the rng passed in)

LITS_SMALL = ['', 'a', 'bc', 'def', 'ghij', 'klmnopqr', 'stuvwxyz0123']
LITS_BIG = ['x' * 30, 'y' * 100, 'z' * 200, 'w' * 255]
FN_NAMES = ['A$', 'B$', 'C$', 'P!', 'K%', 'D#']
PARAM_NAMES = ['X$', 'Y$', 'X!', 'Y%', 'Z#', 'A$', 'Q!']


class Gen(object):
    """Random histories.  fnw: weight of DEF FN calls; big: probability of long strings."""

    def __init__(self, rng, fns=(), fnw=0.1, big=0.15, badw=0.06):
        self.rng = rng
        self.fns = list(fns)        # [(name, [params])]
        self.fnw = fnw
        self.big = big
        self.badw = badw            # probability of a deliberately ill-typed / out-of-range operand
        self.dupw = 0.25            # probability that a parameter list repeats a name
        self.inputw = 0.06          # weight of console INPUT statements

    def lit(self):
        rng = self.rng
        return ['lit', rng.choice(LITS_BIG if rng.random() < self.big else LITS_SMALL)]

    def count(self, pool):
        rng = self.rng
        if rng.random() < self.badw:
            return ['num', rng.choice([-1, 256, 300, 32768, 40000]), rng.choice(['%', '!', '#'])] \
                if rng.random() < 0.7 else self.lit()
        z = rng.choice(pool)
        r = rng.random()
        if r < 0.75:
            return ['num', z, rng.choice(['%', '%', '%', '!', '#'])]
        if r < 0.85:
            return ['len', self.sexpr(1)]
        if r < 0.92:
            return ['sv', rng.choice(['N%', 'Y%'])]
        return ['cat', ['num', z, '%'], ['num', rng.choice([0, 1]), '%']]

    def svar(self):
        rng = self.rng
        if rng.random() < 0.75:
            return ['sv', rng.choice(STR_SCALARS)]
        return ['av', rng.choice(STR_ARRAYS), rng.choice([0, 1, 2, 3, 3, 5, 10, 11] if rng.random() < 0.3 else [0, 1, 2, 3])]

    def sexpr(self, depth, fns=None):
        rng = self.rng
        fns = self.fns if fns is None else fns
        r = rng.random()
        if depth <= 0 or r < 0.3:
            return self.lit() if rng.random() < 0.4 else self.svar()
        sfns = [f for f in fns if f[0][-1] == '$']
        if sfns and r < 0.3 + self.fnw:
            f = rng.choice(sfns)
            return ['fn', f[0], [self.arg(depth - 1, fns, p) for p in f[1]]]
        r = rng.random()
        if r < 0.38:
            return ['cat', self.sexpr(depth - 1, fns), self.sunit(depth - 1, fns)]
        if r < 0.46:
            return ['par', self.sexpr(depth - 1, fns)]
        if r < 0.58:
            return [rng.choice(['left', 'right']), self.sexpr(depth - 1, fns), self.count([0, 1, 2, 3, 5, 100, 255])]
        if r < 0.68:
            return ['mid', self.sexpr(depth - 1, fns), self.count([1, 1, 2, 3, 50]),
                    None if rng.random() < 0.4 else self.count([0, 1, 2, 5, 255])]
        if r < 0.75:
            return ['string', self.count([0, 1, 3, 20, 100, 200, 255]),
                    rng.choice([['num', 65, '%'], ['lit', 'q'], ['num', 66, '!'], self.sexpr(depth - 1, fns)])]
        if r < 0.79:
            return ['space', self.count([0, 1, 3, 20, 100, 255])]
        if r < 0.90:
            return ['str', self.nexpr(depth - 1, fns, [0, 1, -5, 12345])]
        if r < 0.93:
            return ['chr', self.count([65, 0, 255, 32])]
        return ['cat', self.sexpr(depth - 1, fns), self.sunit(depth - 1, fns)]

    def sunit(self, depth, fns=None):
        e = self.sexpr(depth, fns)
        return ['par', e] if e[0] == 'cat' else e

    def nexpr(self, depth, fns=None, pool=(0, 1, 7, 300)):
        rng = self.rng
        fns = self.fns if fns is None else fns
        r = rng.random()
        if depth <= 0 or r < 0.35:
            z = rng.choice(list(pool))
            return ['num', z, '%' if -32768 <= z <= 32767 and rng.random() < 0.7 else rng.choice(['!', '#'])]
        nfns = [f for f in fns if f[0][-1] != '$']
        if nfns and r < 0.35 + self.fnw:
            f = rng.choice(nfns)
            return ['fn', f[0], [self.arg(depth - 1, fns, p) for p in f[1]]]
        r = rng.random()
        if r < 0.2:
            return ['sv', rng.choice(NUM_SCALARS)]
        if r < 0.4:
            return ['len', self.sexpr(depth - 1, fns)]
        if r < 0.5:
            return ['instr', self.sexpr(depth - 1, fns), self.sexpr(depth - 1, fns)]
        if r < 0.75:
            return ['fre', rng.choice([['lit', ''], ['num', 0, '%'], self.sexpr(depth - 1, fns)])]
        e = self.nexpr(depth - 1, fns, pool)
        return ['cat', self.nexpr(depth - 1, fns, pool), ['par', e] if e[0] == 'cat' else e]

    def arg(self, depth, fns, p):
        rng = self.rng
        p = p + '!' if len(p) == 1 else p        # argument types are chosen for the usual default; DEFtype makes mismatches
        if rng.random() < self.badw:       # wrong type: Type mismatch
            return self.nexpr(depth, fns) if p[-1] == '$' else self.sexpr(depth, fns)
        if p[-1] == '$':
            return self.sexpr(depth, fns)
        return self.nexpr(depth, fns, [0, 1, -1, 7, 300, 32767, 32768, 40000, -32769] if p[-1] == '%'
                          else [0, 1, -1, 7, 300, 40000])

    def lv(self):
        return self.svar()

    def stmt(self, mem):
        """one random statement (not DEF)"""
        rng = self.rng
        r = rng.random()
        if r < 0.50:
            return ['let', self.lv(), self.sexpr(rng.choice([1, 2, 2, 3]))]
        if r < 0.58:
            lv = self.lv()
            c = rng.random()
            val = lv if c < 0.2 else (self.svar() if c < 0.5 else ['cat', self.sexpr(1), self.sunit(1)])
            if val[0] in ('sv', 'av') and val != lv and val[1] == lv[1] and False:
                val = ['cat', val, ['lit', '']]
            return ['midset', lv, self.count([1, 1, 2, 3]), None if rng.random() < 0.5 else self.count([0, 1, 2, 5, 255]), val]
        if r < 0.66:
            return [rng.choice(['lset', 'rset']), self.lv(), self.sexpr(2)]
        if r < 0.73:
            return ['swap', self.lv(), self.lv()]
        if r < 0.76:
            return ['erase', rng.choice(STR_ARRAYS)]
        if r < 0.79:
            return ['dim', rng.choice(STR_ARRAYS), rng.choice([0, 1, 3, 5, 12])]
        if r < 0.805:
            return ['clear', rng.choice([None, None, mem])]
        if r < 0.805 + self.inputw:
            k = rng.choice([1, 2, 2, 3])
            lvs, vals = [], []
            for _ in range(k):
                if rng.random() < 0.8:
                    lvs.append(self.lv())
                    vals.append(''.join(rng.choice('abcdefgh0123') for _ in range(rng.choice([0, 1, 2, 3, 5, 8, 20, 40]))))
                else:
                    lvs.append(['sv', rng.choice(NUM_SCALARS)])
                    vals.append(rng.choice([0, 1, 7, 300, 32767]))
            return ['input', lvs, vals]
        if r < 0.90:
            return ['let', ['sv', rng.choice(['Q!', 'R!', 'D#'])],
                    ['fre', rng.choice([['lit', ''], ['lit', ''], ['num', 0, '%'], ['sv', rng.choice(STR_SCALARS)]])]]
        return ['let', ['sv', rng.choice(NUM_SCALARS)], self.nexpr(3, None, [0, 1, 7, 40000])]

    def defs(self, nf):
        """nf function signatures and their DEF statements"""
        rng = self.rng
        names = rng.sample(FN_NAMES, nf)
        self.fns = [(fname, self.params()) for fname in names]
        out = []
        for f in self.fns:
            out.append(self.def_stmt(f))
        return out

    def params(self):
        """0..4 parameter names; sometimes a name is repeated (possibly once with its default type, once with the
        explicit sigil), adjacent or not"""
        rng = self.rng
        ps = rng.sample(PARAM_NAMES, rng.choice([0, 1, 1, 2, 2, 3, 4]))
        if ps and len(ps) < 4 and rng.random() < self.dupw:
            p = rng.choice(ps)
            ps.insert(rng.randrange(len(ps) + 1), p)
        return [p[0] if p == 'X!' and rng.random() < 0.6 else p for p in ps]

    def def_stmt(self, f, depth=3):
        rng = self.rng
        # bodies mostly call the other functions; sometimes themselves (recursion -> Out of memory)
        others = [g for g in self.fns if g[0] != f[0] or rng.random() < 0.15]
        old = (self.fnw, )
        self.fnw = max(self.fnw, 0.25)
        body = self.body(f, depth, others)
        self.fnw = old[0]
        return ['def', f[0], f[1], body]

    def body(self, f, depth, others):
        """expression over the parameters, globals and other functions"""
        rng = self.rng
        sp = [p for p in f[1] if p[-1] == '$']
        np_ = [p for p in f[1] if p[-1] != '$']       # a parameter without a sigil is read without one

        def subst(e):
            # replace some variable operands by parameters
            if e[0] == 'sv' and e[1][-1] == '$' and sp and rng.random() < 0.6:
                return ['sv', rng.choice(sp)]
            if e[0] == 'sv' and e[1][-1] != '$' and np_ and rng.random() < 0.6:
                return ['sv', rng.choice(np_)]
            if e[0] == 'num' and np_ and rng.random() < 0.3:
                return ['sv', rng.choice(np_)]
            if e[0] == 'fn':
                return ['fn', e[1], [subst(a) for a in e[2]]]
            return [e[0]] + [subst(x) if isinstance(x, list) else x for x in e[1:]]
        e = self.sexpr(depth, others) if f[0][-1] == '$' else self.nexpr(depth, others, [0, 1, 5, 40000])
        return subst(e)


def gen_history(rng, nsteps, fnw=0.1, big=0.15, mems=(None, None, None, 30, 60, 100, 150, 250, 400, 800, 2000),
                nfs=(0, 0, 1, 2, 3, 4), direct=0.25):
    g = Gen(rng, fnw=fnw, big=big)
    steps = []
    mem = rng.choice(list(mems))
    if mem is not None:
        steps.append({'d': 1, 's': ['clear', mem]})
        if mem >= 400:
            g.big = max(big, 0.35)
    for st in g.defs(rng.choice(list(nfs))):
        steps.append({'d': 0, 's': st})
    if fnw >= 0.5:
        # the caller's variables named like parameters hold values of their own
        for k, p in enumerate(PARAM_NAMES + ['X%', 'X#']):
            if rng.random() < 0.7:
                steps.append({'d': 0, 's': ['let', ['sv', p], ['lit', 'g' + p[0].lower()] if p[-1] == '$' else ['num', 11 + k, '%']]})
    while len(steps) < nsteps:
        if g.fns and rng.random() < 0.04:
            steps.append({'d': 0, 's': g.def_stmt(rng.choice(g.fns), 2)})
            continue
        if fnw >= 0.5 and rng.random() < 0.06:
            lo, hi = rng.choice([('X', 'X'), ('X', 'X'), ('W', 'Z'), ('A', 'Z')])
            steps.append({'d': 1 if rng.random() < direct else 0, 's': ['deftype', rng.choice(['INT', 'SNG', 'DBL', 'STR']), lo, hi]})
            continue
        st = g.stmt(mem)
        steps.append({'d': 1 if rng.random() < direct else 0, 's': st})
    return {'steps': steps}
