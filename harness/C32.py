"""C32 - PAINT fills exactly the enclosed region (solid, tiled, tiled with background pattern).

Correspondence: a real Session in graphics modes (SCREEN 1, 2, 7, 9), with VIEW, VIEW SCREEN and without VIEW;
the pixel buffer is prepared directly, `PAINT (x,y)[,c][,b]` runs as a one-line program under ON ERROR, and
the whole buffer is compared: a small rectangle (viewport + margin) with the Coq model model/Flood.v, the
rest of the screen must be unchanged.  Oracle: breadth-first reference fill on the before/after buffers.
"""
from collections import deque

from vlib import core
from harness import common

MODES = {1: (320, 200, 4), 2: (640, 200, 2), 7: (320, 200, 16), 9: (640, 350, 16)}
DEFAULT_FG = {1: 3, 2: 1, 7: 15, 9: 15}


# ---------------------------------------------------------------------------------------------------
# reference reading of the property (independent of the Coq model)

def ref_attr(num_attr, fg, idx):
    """Graphics._get_attr_index as documented: -1 = foreground, otherwise clamped to the mode's attributes."""
    if idx == -1:
        return fg
    return min(num_attr - 1, max(0, idx))


def bfs_region(get, bounds, seed, border):
    """4-connected set of non-border cells inside bounds reachable from seed (set of (x, y))."""
    x0, y0, x1, y1 = bounds
    sx, sy = seed
    if not (x0 <= sx <= x1 and y0 <= sy <= y1) or get(sx, sy) == border:
        return set()
    seen = {(sx, sy)}
    todo = deque([(sx, sy)])
    while todo:
        x, y = todo.popleft()
        for nx, ny in ((x + 1, y), (x - 1, y), (x, y + 1), (x, y - 1)):
            if x0 <= nx <= x1 and y0 <= ny <= y1 and (nx, ny) not in seen and get(nx, ny) != border:
                seen.add((nx, ny))
                todo.append((nx, ny))
    return seen


# ---------------------------------------------------------------------------------------------------
# picture generators: all return a w x h list of rows over {bg, border, other colours}

def blank(w, h, a=0):
    return [[a] * w for _ in range(h)]


def pic_maze(rng, w, h, wall, bg):
    """depth-first maze: cells on odd coordinates, walls one pixel thick; a few walls knocked out."""
    p = blank(w, h, wall)
    cw, ch = (w - 1) // 2, (h - 1) // 2
    if cw < 1 or ch < 1:
        return blank(w, h, bg)
    seen = {(0, 0)}
    stack = [(0, 0)]
    p[1][1] = bg
    while stack:
        cx, cy = stack[-1]
        nb = [(cx + dx, cy + dy, dx, dy) for dx, dy in ((1, 0), (-1, 0), (0, 1), (0, -1))
              if 0 <= cx + dx < cw and 0 <= cy + dy < ch and (cx + dx, cy + dy) not in seen]
        if not nb:
            stack.pop()
            continue
        nx, ny, dx, dy = rng.choice(nb)
        p[1 + 2 * cy + dy][1 + 2 * cx + dx] = bg
        p[1 + 2 * ny][1 + 2 * nx] = bg
        seen.add((nx, ny))
        stack.append((nx, ny))
    for _ in range(rng.randrange(0, 4)):
        p[rng.randrange(h)][rng.randrange(w)] = bg
    if rng.random() < 0.5:
        # open the outer wall so that the region touches the viewport edge
        for _ in range(rng.randrange(1, 4)):
            if rng.random() < 0.5:
                p[rng.choice([0, h - 1])][rng.randrange(w)] = bg
            else:
                p[rng.randrange(h)][rng.choice([0, w - 1])] = bg
    return p


def pic_spiral(rng, w, h, wall, bg):
    p = blank(w, h, bg)
    x0, y0, x1, y1 = 0, 0, w - 1, h - 1
    gap = rng.choice([2, 2, 3])
    k = 0
    while x1 - x0 >= 1 and y1 - y0 >= 1:
        side = k % 4
        if side == 0:
            for x in range(x0, x1 + 1):
                p[y0][x] = wall
            y0 += gap
        elif side == 1:
            for y in range(max(0, y0 - gap), y1 + 1):
                p[y][x1] = wall
            x1 -= gap
        elif side == 2:
            for x in range(x0, min(w, x1 + gap + 1)):
                p[y1][x] = wall
            y1 -= gap
        else:
            for y in range(y0, min(h, y1 + gap + 1)):
                p[y][x0] = wall
            x0 += gap
        k += 1
    if rng.random() < 0.5:
        p = [row[::-1] for row in p]
    if rng.random() < 0.5:
        p = p[::-1]
    return p


def pic_diagonals(rng, w, h, wall, bg):
    """thin diagonal walls: 8-connected lines (fill must not pass) and 4-connected staircases"""
    p = blank(w, h, bg)
    for _ in range(rng.randrange(1, 5)):
        x, y = rng.randrange(w), rng.randrange(h)
        dx, dy = rng.choice([1, -1]), rng.choice([1, -1])
        thick = rng.random() < 0.4
        n = rng.randrange(2, max(3, w + h))
        for _ in range(n):
            if 0 <= x < w and 0 <= y < h:
                p[y][x] = wall
                if thick and 0 <= x + dx < w:
                    p[y][x + dx] = wall
            x += dx
            y += dy
    return p


def pic_noise(rng, w, h, wall, bg):
    d = rng.choice([0.05, 0.15, 0.3, 0.45, 0.6])
    return [[wall if rng.random() < d else bg for _ in range(w)] for _ in range(h)]


def pic_combs(rng, w, h, wall, bg):
    """horizontal walls with gaps, vertical teeth: many U-turns (backward scanline checks)"""
    p = blank(w, h, bg)
    for y in range(rng.randrange(0, 3), h, rng.choice([2, 2, 3])):
        for x in range(w):
            p[y][x] = wall
        for _ in range(rng.randrange(1, 3)):
            p[y][rng.randrange(w)] = bg
    for x in range(rng.randrange(0, 4), w, rng.choice([3, 4, 5])):
        y = rng.randrange(h)
        for yy in range(y, min(h, y + rng.randrange(1, 5))):
            p[yy][x] = wall
    return p


def pic_blobs(rng, w, h, wall, bg):
    """open picture with a few rectangles / outlines; region usually touches the viewport edge"""
    p = blank(w, h, bg)
    for _ in range(rng.randrange(0, 5)):
        x0, y0 = rng.randrange(w), rng.randrange(h)
        x1, y1 = min(w - 1, x0 + rng.randrange(0, 9)), min(h - 1, y0 + rng.randrange(0, 7))
        solid = rng.random() < 0.4
        for y in range(y0, y1 + 1):
            for x in range(x0, x1 + 1):
                if solid or y in (y0, y1) or x in (x0, x1):
                    p[y][x] = wall
    return p


PICS = [('maze', pic_maze), ('spiral', pic_spiral), ('diagonals', pic_diagonals), ('noise', pic_noise),
        ('combs', pic_combs), ('blobs', pic_blobs)]


def sprinkle(rng, p, colours, density):
    """overwrite some non-wall cells (single cells and short horizontal/vertical runs) with other colours"""
    h, w = len(p), len(p[0])
    n = int(w * h * density)
    for _ in range(n):
        x, y, a = rng.randrange(w), rng.randrange(h), rng.choice(colours)
        r = rng.random()
        if r < 0.5:
            cells = [(x, y)]
        elif r < 0.8:
            cells = [(x + i, y) for i in range(rng.randrange(1, 7))]
        else:
            cells = [(x, y + i) for i in range(rng.randrange(1, 5))]
        for cx, cy in cells:
            if 0 <= cx < w and 0 <= cy < h:
                p[cy][cx] = a
    return p


class C32(core.Check):
    ID = 'C32'
    GEN = []
    PROPS = 'props/C32.v'
    MODEL_IMPORTS = ['model.Flood']
    QUICK_CASES = 500
    THOROUGH_CASES = 6000
    TRUSTED = ['hand model model/Flood.v of Graphics.paint_/_flood_fill/_scanline_until/_check_scanline (solid colour, '
               'tile pattern, tile + background pattern), tied by correspondence on the pixel buffer of a real Session; '
               'ByteMatrix slicing and GraphicsViewPort clipping are modelled (cell reads / range writes), not verified',
               'the unpacked tile / background row are taken from the mode\'s build_tile (bit packing is not modelled); '
               'STEP and WINDOW coordinates are converted to the physical seed by a reference formula in the harness and '
               'the model takes that integer seed (the conversion itself is tested, not proved)',
               'most cases without VIEW compare a walled sub-rectangle of the screen with the model run on that '
               'rectangle as viewport (the rest of the screen must stay unchanged), a few compare the full '
               '320x200 screen by checksum']
    PARTIAL = ('tiled PAINT: soundness is proved for every tile/background; termination and completeness only for '
               'patterns whose stop condition is "the run shows the tile" (solid, or tile without all-zero rows and '
               'without background pattern: C32_tile_terminates_partial, C32_tile_complete_partial); termination for '
               'all tiles is refuted (C32_tile_terminates_refuted, known finding K32a); tiles with isolated zero rows or '
               'with a background pattern: termination/completeness tested only')
    RULE = ('pictures (maze, spiral, thin diagonals, noise, combs, blobs; sprinkled with cells already of the fill '
            'colour and third colours) in a viewport of at most 26x18 pixels placed by VIEW / VIEW SCREEN / walled '
            'rectangle in SCREEN 1, 2, 7, 9, plus full-screen 320x200 pictures of random rectangles without VIEW '
            '(compared by checksum); 30% tiled fills (1-8 tile rows, zero rows, lengths not a multiple of the plane '
            'count, background patterns equal/unequal to tile rows incl. the illegal combinations), 10% seeds given '
            'through STEP or WINDOW [SCREEN]; seeds inside, on border cells, in the margin and far outside; fill and '
            'border attributes incl. omitted, clamped (> number of attributes) and illegal (<0, >255, >32767). '
            'non-trivial = PAINT changed at least one pixel; distinct by hash of (case, output)')
    histogram = None

    # ---------------------------------------------------------------- cases
    @staticmethod
    def mk(scr, view, rect, rows, seed, c, b, fg=None, kind='', pic=''):
        return {'scr': scr, 'view': view, 'rect': rect, 'rows': rows, 'seed': seed, 'c': c, 'b': b,
                'fg': fg, 'kind': kind, 'pic': pic}

    def corpus(self):
        mk = self.mk
        w9 = [[9] * 7]
        pic = [[0, 0, 3, 0, 0], [0, 3, 3, 0, 3], [0, 0, 0, 0, 0]]
        ringed = [[0] * 7] + [[0] + r + [0] for r in pic] + [[0] * 7]
        cases = [
            # basic fill, VIEW relative, margin 1
            mk(1, [10, 10, 14, 12, 0], [9, 9], ringed, [0, 0], 2, 3, kind='view'),
            # border omitted -> border = fill
            mk(1, [10, 10, 14, 12, 0], [9, 9], ringed, [0, 0], 3, None, kind='view'),
            # fill omitted -> foreground
            mk(7, [10, 10, 14, 12, 0], [9, 9], ringed, [0, 0], None, 3, kind='view'),
            mk(7, [10, 10, 14, 12, 0], [9, 9], ringed, [0, 0], None, None, fg=5, kind='view'),
            # seed on border / outside the viewport / far outside / overflow
            mk(1, [10, 10, 14, 12, 0], [9, 9], ringed, [2, 0], 2, 3, kind='view'),
            mk(1, [10, 10, 14, 12, 0], [9, 9], ringed, [5, 0], 2, 3, kind='view'),
            mk(1, [10, 10, 14, 12, 0], [9, 9], ringed, [-1, 1], 2, 3, kind='view'),
            mk(1, [10, 10, 14, 12, 0], [9, 9], ringed, [0, 3], 2, 3, kind='view'),
            mk(1, [10, 10, 14, 12, 0], [9, 9], ringed, [-300, 4000], 2, 3, kind='view'),
            mk(1, [10, 10, 14, 12, 0], [9, 9], ringed, [40000, 1], 2, 3, kind='view'),
            mk(1, [10, 10, 14, 12, 0], [9, 9], ringed, [1, -32769], 2, 3, kind='view'),
            # VIEW SCREEN (absolute coordinates)
            mk(9, [200, 100, 204, 102, 1], [199, 99], ringed, [200, 100], 2, 3, kind='viewscreen'),
            mk(9, [200, 100, 204, 102, 1], [199, 99], ringed, [0, 0], 2, 3, kind='viewscreen'),
            # illegal / clamped attributes
            mk(1, [10, 10, 14, 12, 0], [9, 9], ringed, [0, 0], 256, 3, kind='view'),
            mk(1, [10, 10, 14, 12, 0], [9, 9], ringed, [0, 0], -1, 3, kind='view'),
            mk(1, [10, 10, 14, 12, 0], [9, 9], ringed, [0, 0], 2, 256, kind='view'),
            mk(1, [10, 10, 14, 12, 0], [9, 9], ringed, [0, 0], 40000, 3, kind='view'),
            mk(1, [10, 10, 14, 12, 0], [9, 9], ringed, [0, 0], 2, -40000, kind='view'),
            mk(1, [10, 10, 14, 12, 0], [9, 9], ringed, [0, 0], 255, 200, kind='view'),
            mk(2, [10, 10, 14, 12, 0], [9, 9], [[min(1, a) for a in r] for r in ringed], [0, 0], 7, 1, kind='view'),
            # region with cells already of the fill colour: the scanline fill stops at runs equal to the fill
            mk(7, [10, 10, 16, 14, 0], [10, 10],
               [[0, 0, 0, 0, 0, 0, 0], [2, 2, 2, 2, 2, 2, 2], [0, 0, 0, 0, 0, 0, 0], [0, 2, 0, 2, 0, 2, 0],
                [0, 0, 0, 0, 0, 0, 0]], [0, 0], 2, 4, kind='view'),
            # seed on a run that already has the fill colour
            mk(7, [10, 10, 16, 14, 0], [10, 10],
               [[0, 0, 0, 0, 0, 0, 0], [2, 2, 2, 2, 2, 2, 2], [0, 0, 0, 0, 0, 0, 0], [0, 2, 0, 2, 0, 2, 0],
                [0, 0, 0, 0, 0, 0, 0]], [3, 1], 2, 4, kind='view'),
            # text mode
            mk(0, None, [0, 0], [[0]], [0, 0], 1, 1, kind='text'),
            # no VIEW: walled rectangle in the screen corner (region touches the real screen edge)
            mk(1, None, [0, 0], [[0, 0, 0, 3], [0, 3, 0, 3], [0, 0, 0, 3], [3, 3, 3, 3]], [0, 0], 1, 3, kind='walled'),
            mk(1, None, [316, 196], [[3, 3, 3, 3], [3, 0, 0, 0], [3, 0, 3, 0], [3, 0, 0, 0]], [319, 199], 2, 3,
               kind='walled'),
        ]
        ring = [[0, 0, 0], [0, 1, 0], [0, 0, 0]]
        stripes = [[0] * 9 for _ in range(6)]
        stripes[2][4] = 3
        t = lambda **kw: dict(self.mk(kw.pop('scr', 1), kw.pop('view', [10, 10, 18, 15, 0]), kw.pop('rect', [10, 10]),
                                      kw.pop('rows', stripes), kw.pop('seed', [0, 0]), None, kw.pop('b', 3),
                                      kind='view'), **kw)
        cases += [
            t(tile=[0x55, 0xAA]), t(tile=[0xFF]), t(tile=[0x1B, 0xE4, 0xFF], b=None),
            t(tile=[0x55, 0xAA], bgp=[0x55]), t(tile=[0x55, 0x55, 0x55], bgp=[0x55]),      # the last one: IFC
            t(tile=[0x55, 0x00, 0xAA]),                                                      # isolated zero row
            t(scr=7, tile=[0xFF, 0x00, 0xFF, 0x00, 0x0F, 0xF0, 0x33, 0xCC], b=2),
            t(scr=9, tile=[0xAA, 0x55, 0xAA], b=2, bgp=[0xAA, 0x55, 0xAA, 0x00]),
            t(scr=2, tile=[0xCC, 0x33], b=1, rows=[[min(1, a) for a in r] for r in stripes]),
            # K32a: ring around a border pixel, all-zero tile: never terminates
            t(view=[20, 21, 22, 23, 0], rect=[20, 21], rows=ring, tile=[0], b=1),
            # STEP and WINDOW coordinates
            dict(self.mk(1, [10, 10, 18, 15, 0], [10, 10], stripes, [0, 0], 2, 3, kind='view'),
                 coord={'kind': 'step', 'd': [-2, 1]}),
            dict(self.mk(1, [10, 10, 18, 15, 1], [10, 10], stripes, [0, 0], 2, 3, kind='viewscreen'),
                 coord={'kind': 'step', 'd': [3, -2]}),
            dict(self.mk(1, [10, 10, 18, 15, 0], [10, 10], stripes, [0, 0], 2, 3, kind='view'),
                 coord={'kind': 'window', 'w': [0, 0, 100, 100, 0], 'f': [50, 50]}),
            dict(self.mk(1, [10, 10, 18, 15, 0], [10, 10], stripes, [0, 0], 2, 3, kind='view'),
                 coord={'kind': 'window', 'w': [-10, -10, 10, 10, 1], 'f': [-10, 9]}),
        ]
        # last referenced point: two boxes; PAINT on the border of box A paints nothing but moves the last point,
        # PAINT STEP then starts inside A (seed C32e: the no-op PAINT left the last point in the middle)
        boxes = [[0] * 24 for _ in range(10)]
        for bx0_, bx1_ in ((1, 8), (13, 21)):
            for x in range(bx0_, bx1_ + 1):
                boxes[1][x] = boxes[7][x] = 1
            for y in range(1, 8):
                boxes[y][bx0_] = boxes[y][bx1_] = 1
        hc = lambda hist, view=[30, 40, 53, 49, 0]: dict(
            self.mk(1, view, [30, 40], boxes, [0, 0], hist[-1]['c'], hist[-1]['b'], kind='viewscreen' if view[4] else 'view'),
            hist=hist)
        S = lambda step, x, y, c=2, b=1: {'step': step, 'p': [x, y], 'c': c, 'b': b}
        cases += [
            hc([S(0, 1, 1), S(1, 3, 3)]),                       # border seed, then STEP into box A
            hc([S(0, 4, 4), S(1, 11, 0, 3)]),                   # real fill of A, then STEP into box B
            hc([S(0, 40, 3), S(1, 3, 0)]),                      # seed outside the viewport: last point stays
            hc([S(1, 1, -4), S(1, 2, 2, 3), S(1, -14, 0, 2)]),  # STEP onto B's wall, STEP inside B, STEP into A
            hc([S(0, 31, 41), S(1, 3, 3)], view=[30, 40, 53, 49, 1]),
            hc([S(0, 4, 4, 300), S(1, 0, 0)]),                  # error in the first statement ends the line
        ]
        # full screen without VIEW: a box with a gap, a bar already in the fill colour, seed inside the box
        cases.append({'scr': 1, 'view': None, 'rect': [0, 0], 'rows': [[0]],
                      'rects': [[40, 30, 100, 1, 3], [40, 90, 100, 1, 3], [40, 30, 1, 61, 3], [139, 30, 1, 61, 3],
                                [139, 50, 1, 2, 0], [60, 60, 30, 1, 2]],
                      'seed': [50, 40], 'c': 2, 'b': 3, 'fg': None, 'kind': 'full', 'pic': 'rects'})
        return cases

    def gen_cases(self, n):
        rng = self.rng
        hist = {'mode': {}, 'kind': {}, 'pic': {}, 'seed': {}, 'attrs': {}}

        def bump(k, v):
            hist[k][str(v)] = hist[k].get(str(v), 0) + 1
        out = []
        for k in range(n):
            if k % 600 == 7:
                out.append(self.gen_full(rng))
                bump('mode', out[-1]['scr'])
                bump('kind', 'full')
                bump('pic', 'rects')
                continue
            scr = rng.choice([1, 1, 7, 7, 9, 9, 2])
            sw, sh, na = MODES[scr]
            kind = rng.choice(['view', 'view', 'viewscreen', 'walled', 'walled'])
            w = rng.choice([2, 3, 5, 8, 12, 16, 20, 26]) if rng.random() < 0.7 else rng.randrange(2, 27)
            h = rng.choice([2, 3, 4, 7, 10, 13, 18]) if rng.random() < 0.7 else rng.randrange(2, 19)
            # attributes
            r = rng.random()
            if r < 0.55:
                c = rng.randrange(na)
            elif r < 0.7:
                c = None
            elif r < 0.9:
                c = rng.choice([na, na + 1, 17, 100, 255])
            else:
                c = rng.choice([-1, -2, 256, 300, 32767, 32768, -32768, -32769, 40000])
            r = rng.random()
            if r < 0.45:
                b = rng.randrange(na)
            elif r < 0.7:
                b = None
            elif r < 0.8:
                b = c
            elif r < 0.93:
                b = rng.choice([na, 16, 255, 99])
            else:
                b = rng.choice([-1, 256, 32768, -32769, 1000])
            fg = None
            if scr in (7, 9) and rng.random() < 0.4:
                fg = rng.randrange(1, 16)
            fgv = fg if fg is not None else DEFAULT_FG[scr]
            fill = ref_attr(na, fgv, -1 if c is None else c)
            border = ref_attr(na, fgv, (-1 if c is None else c) if b is None else b)
            # picture: walls in the border attribute, background different from it
            others = [a for a in range(na) if a != border]
            bg = rng.choice(others)
            pname, pf = rng.choice(PICS)
            p = pf(rng, w, h, border, bg)
            r = rng.random()
            if r < 0.35 and len(others) > 0:
                # third colours and cells already in the fill colour inside the region
                sprinkle(rng, p, others + [fill], rng.choice([0.02, 0.06, 0.15]))
                bump('attrs', 'sprinkled')
            elif r < 0.45:
                sprinkle(rng, p, [fill], rng.choice([0.03, 0.1]))
                bump('attrs', 'prefilled')
            else:
                bump('attrs', 'plain')
            if kind == 'walled':
                # wall all around (the model runs on the rectangle as if it were the viewport); sides lying on
                # the screen edge stay open
                def place(size, total):
                    r = rng.random()
                    if r < 0.25:
                        return 0, 0, 1                      # on the low screen edge: no wall there
                    if r < 0.5:
                        return total - (size + 1), 1, 0     # on the high screen edge
                    return rng.randrange(0, total - (size + 2) + 1), 1, 1
                rx, left, right = place(w, sw)
                ry, top, bot = place(h, sh)
                rows = []
                tw = left + w + right
                if top:
                    rows.append([border] * tw)
                for row in p:
                    rows.append([border] * left + row + [border] * right)
                if bot:
                    rows.append([border] * tw)
                view = None
                rect = [rx, ry]
                vx0, vy0 = rx, ry                      # seeds are absolute
                inner = (rx + left, ry + top, w, h)
                poff = (left, top)
                if border == 0:
                    # the blank screen outside the rectangle is border colour as well: still enclosed
                    pass
            else:
                ml, mt, mr, mb = (rng.randrange(0, 3) for _ in range(4))
                x0 = rng.randrange(ml, sw - w - mr + 1)
                y0 = rng.randrange(mt, sh - h - mb + 1)
                if rng.random() < 0.15:
                    x0 = rng.choice([ml, sw - w - mr])
                    y0 = rng.choice([mt, sh - h - mb])
                view = [x0, y0, x0 + w - 1, y0 + h - 1, 1 if kind == 'viewscreen' else 0]
                rect = [x0 - ml, y0 - mt]
                tw = ml + w + mr
                # margin: random attributes incl. non-border ones (a leak out of the viewport becomes visible)
                mar = lambda: rng.choice([bg, bg, border, rng.randrange(na)])
                rows = [[mar() for _ in range(tw)] for _ in range(mt)]
                for row in p:
                    rows.append([mar() for _ in range(ml)] + row + [mar() for _ in range(mr)])
                rows += [[mar() for _ in range(tw)] for _ in range(mb)]
                vx0, vy0 = (x0, y0) if kind == 'viewscreen' else (0, 0)
                inner = (vx0, vy0, w, h)
                poff = (ml, mt)
            # seed
            ix, iy, iw, ih = inner
            r = rng.random()
            if r < 0.7:
                # a non-border cell of the picture if there is one
                free = [(x, y) for y in range(h) for x in range(w) if p[y][x] != border]
                if free:
                    sx, sy = rng.choice(free)
                else:
                    sx, sy = rng.randrange(w), rng.randrange(h)
                seed = [ix + sx, iy + sy]
                bump('seed', 'open')
            elif r < 0.8:
                wl = [(x, y) for y in range(h) for x in range(w) if p[y][x] == border]
                sx, sy = rng.choice(wl) if wl else (0, 0)
                seed = [ix + sx, iy + sy]
                bump('seed', 'border')
            elif r < 0.9 and kind != 'walled':
                # just outside the viewport
                side = rng.randrange(4)
                seed = [[ix - 1, iy + rng.randrange(ih)], [ix + iw, iy + rng.randrange(ih)],
                        [ix + rng.randrange(iw), iy - 1], [ix + rng.randrange(iw), iy + ih]][side]
                bump('seed', 'margin')
            elif r < 0.97:
                if kind == 'walled':
                    seed = [rng.choice([-1, -5, sw, sw + 7, 1000]), rng.choice([-1, sh, sh + 3, 5, -200])]
                    if 0 <= seed[0] < sw and 0 <= seed[1] < sh:
                        seed[1] = -1
                else:
                    seed = [rng.choice([-1, -5, sw, 1000, ix + iw + 3]), rng.choice([-1, sh, -200, iy + ih + 2])]
                bump('seed', 'far')
            else:
                seed = rng.choice([[32768, 0], [0, -32769], [32767, 32767], [-32768, -32768], [70000, 70000]])
                bump('seed', 'overflow')
            case = self.mk(scr, view, rect, rows, seed, c, b, fg=fg, kind=kind, pic=pname)
            r = rng.random()
            if r < 0.3:
                # tile pattern (string) instead of a colour, sometimes with a background pattern
                planes = 4 if scr in (7, 9) else 1
                nrows = rng.choice([1, 1, 2, 2, 3, 4, 5, 8])
                pool = [0x55, 0xAA, 0xFF, 0x33, 0xCC, 0x0F, 0xF0, 0x1B, 0xE4]
                tb = []
                for _ in range(nrows):
                    q = rng.random()
                    if q < 0.06:
                        tb += [0] * planes                                   # an all-zero tile row
                    else:
                        tb += [rng.choice(pool) if rng.random() < 0.7 else rng.randrange(256) for _ in range(planes)]
                if planes == 4 and rng.random() < 0.2:
                    tb = tb[:-rng.randrange(1, 4)] or tb                     # length not a multiple of 4: padded
                case['tile'] = tb
                case['c'] = None
                # border default of a tiled PAINT is the foreground: keep the border the picture was drawn with
                bb = case['b']
                if bb is None or 0 <= bb <= 255:
                    if ref_attr(na, fgv, -1 if bb is None else bb) != border:
                        case['b'] = border
                if case['b'] is not None and not 0 <= case['b'] <= 255 and rng.random() < 0.7:
                    case['b'] = border
                q = rng.random()
                if q < 0.15:
                    case['bgp'] = tb[:planes] if rng.random() < 0.5 else tb[-planes:]   # equals a tile row
                elif q < 0.3:
                    case['bgp'] = [rng.choice(pool + [0]) for _ in range(rng.choice([planes, planes, 1, 2 * planes]))]
                if case.get('bgp') and rng.random() < 0.5:
                    # picture already showing the background row / the tile, cut by wall columns into runs whose
                    # width is around the tile width (the background rule compares the run width with it)
                    tile_u, bg_u = self.tile_rows(case)
                    th_, tw_ = len(tile_u), len(tile_u[0])
                    usebg = rng.random() < 0.7
                    gap = rng.choice([tw_ - 1, tw_, tw_, tw_ + 1, 2 * tw_])
                    off = rng.randrange(gap + 1)
                    for j in range(h):
                        for i in range(w):
                            if (i - off) % (gap + 1) == gap and rng.random() < 0.9:
                                val = border
                            else:
                                val = bg_u[(ix + i) % len(bg_u)] if usebg else tile_u[(iy + j) % th_][(ix + i) % tw_]
                            rows[poff[1] + j][poff[0] + i] = val
                    if case['coord'] if 'coord' in case else False:
                        pass
                    sx_, sy_ = case['seed'][0] - ix, case['seed'][1] - iy
                    if 0 <= sx_ < w and 0 <= sy_ < h and rows[poff[1] + sy_][poff[0] + sx_] == border:
                        free = [(i, j) for j in range(h) for i in range(w) if rows[poff[1] + j][poff[0] + i] != border]
                        if free:
                            i, j = rng.choice(free)
                            case['seed'] = [ix + i, iy + j]
                    bump('attrs', 'prepainted-bg')
                bump('attrs', 'tile' + ('+bg' if case.get('bgp') is not None else ''))
            elif r < 0.4 and kind != 'walled' and seed[0] == int(seed[0]):
                if rng.random() < 0.5:
                    case['coord'] = {'kind': 'step', 'd': [rng.randrange(-w, w + 1), rng.randrange(-h, h + 1)]}
                else:
                    a0, b0 = rng.choice([0, -10, 5, -100]), rng.choice([0, -10, 7, 50])
                    a1, b1 = a0 + rng.choice([1, 10, 100, 320, w - 1, -50]), b0 + rng.choice([1, 10, 100, 200, h - 1, -30])
                    case['coord'] = {'kind': 'window', 'w': [a0, b0, a1, b1, rng.randrange(2)],
                                     'f': [rng.randrange(min(a0, a1) - 3, max(a0, a1) + 4),
                                           rng.randrange(min(b0, b1) - 3, max(b0, b1) + 4)]}
                case['seed'] = self.conv_seed(case)
                bump('seed', 'via-' + case['coord']['kind'])
            if (kind != 'walled' and case.get('tile') is None and not case.get('coord') and rng.random() < 0.2):
                # history: a first PAINT (often a no-op: seed on a border pixel / outside the viewport), then
                # PAINT STEP from wherever the last referenced point is now
                mid = self.mid_point(case)
                wl_ = [(x, y) for y in range(h) for x in range(w) if p[y][x] == border]
                fr_ = [(x, y) for y in range(h) for x in range(w) if p[y][x] != border]
                hst = []
                lp = list(mid)
                nst = rng.choice([2, 2, 2, 3])
                for k in range(nst):
                    q = rng.random()
                    if k == nst - 1 or q < 0.35:
                        tgt = rng.choice(fr_) if fr_ else (0, 0)
                    elif q < 0.8:
                        tgt = rng.choice(wl_) if wl_ else (0, 0)
                    else:
                        tgt = rng.choice([(-1, rng.randrange(h)), (w, rng.randrange(h)), (rng.randrange(w), -1),
                                          (rng.randrange(w), h), (w + 30, h + 30)])
                    sd = [ix + tgt[0], iy + tgt[1]]
                    step = 1 if (k == nst - 1 or rng.random() < 0.3) else 0
                    if k == nst - 1 and rng.random() < 0.25:
                        sd = [lp[0] + rng.randrange(-3, 4), lp[1] + rng.randrange(-3, 4)]
                    pt = [sd[0] - lp[0], sd[1] - lp[1]] if step else sd
                    cc = rng.choice([a for a in range(na) if a != border] or [0])
                    hst.append({'step': step, 'p': pt, 'c': cc, 'b': border})
                    if ix <= sd[0] < ix + w and iy <= sd[1] < iy + h:
                        lp = sd
                case['hist'] = hst
                case['c'], case['b'] = hst[-1]['c'], hst[-1]['b']
                case['seed'] = self.hist_seeds(case)[-1]
                bump('seed', 'history-%d' % nst)
            out.append(case)
            bump('mode', scr)
            bump('kind', kind)
            bump('pic', pname)
        self.histogram = hist
        return out

    @staticmethod
    def gen_full(rng):
        """full screen (320x200 modes), no VIEW: walls and pre-coloured patches given as rectangles"""
        scr = rng.choice([1, 7])
        sw, sh, na = MODES[scr]
        border = rng.randrange(1, na)
        fill = rng.choice([a for a in range(na) if a != border])
        rects = []
        for _ in range(rng.randrange(8, 40)):
            r = rng.random()
            x, y = rng.randrange(sw), rng.randrange(sh)
            if r < 0.4:
                w, h = rng.randrange(1, sw - x + 1), 1
            elif r < 0.8:
                w, h = 1, rng.randrange(1, sh - y + 1)
            else:
                w, h = rng.randrange(1, min(60, sw - x) + 1), rng.randrange(1, min(40, sh - y) + 1)
            a = border if rng.random() < 0.8 else rng.randrange(na)
            rects.append([x, y, w, h, a])
        # gaps
        for _ in range(rng.randrange(0, 12)):
            x, y = rng.randrange(sw), rng.randrange(sh)
            rects.append([x, y, min(rng.randrange(1, 4), sw - x), min(rng.randrange(1, 4), sh - y), 0])
        case = {'scr': scr, 'view': None, 'rect': [0, 0], 'rows': [[0]], 'rects': rects, 'seed': [0, 0],
                'c': fill, 'b': border, 'fg': None, 'kind': 'full', 'pic': 'rects'}
        before = C32.full_before(case)
        for _ in range(30):
            seed = [rng.randrange(sw), rng.randrange(sh)]
            if before[seed[1]][seed[0]] not in (border, fill):
                break
        case['seed'] = seed
        return case

    @staticmethod
    def full_before(case):
        sw, sh, na = MODES[case['scr']]
        buf = [bytearray(sw) for _ in range(sh)]
        for x, y, w, h, a in case['rects']:
            for yy in range(y, y + h):
                buf[yy][x:x + w] = bytes([a]) * w
        return buf

    @staticmethod
    def digest(rows):
        acc = 0
        for r in rows:
            for p in r:
                acc = (acc * 31 + p + 1) % 1000000007
        return acc

    def run_full(self, case):
        scr = case['scr']
        s = self.session(scr)
        sw, sh, na = MODES[scr]
        with core.time_limit(120):
            s.execute('NEW')
            raw = s._impl.display.apage.pixels._pixels
            msg = s.execute(self.setup_stmt(case))
            if msg:
                raise RuntimeError('setup failed: %r' % msg)
            before = self.full_before(case)
            for y in range(sh):
                raw[y, 0:sw] = [bytearray(before[y])]
            s.execute(self.program(case))
            s.execute('RUN')
            e, f = int(s.evaluate('E')), int(s.evaluate('F'))
            if f != 1:
                raise RuntimeError('program did not finish (E=%d F=%d)' % (e, f))
            after = [bytearray(r) for r in raw.to_rows()]
        cache = self.__dict__.setdefault('_full', {})
        if len(cache) > 40:
            cache.clear()
        cache[core.sha(case)] = after
        return e, after

    # ---------------------------------------------------------------- implementation
    _sessions = None

    def session(self, scr):
        if self._sessions is None:
            type(self)._sessions = {}
        ss = self._sessions
        if scr not in ss:
            s = common.new_session(video='vga')
            s.execute('SCREEN %d' % scr)
            try:
                # the flood fill sleeps one tick every fourth scanline (interruptible PAINT): not under test
                s._impl.queues.tick = 0
            except AttributeError:
                pass
            ss[scr] = s
        return ss[scr]

    @staticmethod
    def setup_stmt(case):
        """direct-mode statement issued before the picture is put into the pixel buffer (VIEW without a fill
        argument clears the viewport in this implementation, so it has to come first)"""
        view = case['view']
        if view is None:
            vs = 'WINDOW:VIEW'
        else:
            vs = 'WINDOW:VIEW %s(%d,%d)-(%d,%d)' % ('SCREEN ' if view[4] else '', view[0], view[1], view[2], view[3])
        co = case.get('coord')
        if co and co['kind'] == 'window':
            a, b, c, d, scrn = co['w']
            vs += ':WINDOW %s(%d,%d)-(%d,%d)' % ('SCREEN ' if scrn else '', a, b, c, d)
        if case.get('fg') is not None:
            vs += ':COLOR %d' % case['fg']
        elif case['scr'] in (7, 9):
            vs += ':COLOR %d' % DEFAULT_FG[case['scr']]
        return vs

    @staticmethod
    def chrs(bs):
        return '+'.join('CHR$(%d)' % b for b in bs) if bs else '""'

    @staticmethod
    def stmt_text(st):
        t = 'PAINT %s(%d,%d)' % ('STEP ' if st['step'] else '', st['p'][0], st['p'][1])
        if st['c'] is not None:
            t += ',%d' % st['c']
        if st['b'] is not None:
            t += (',' if st['c'] is not None else ',,') + '%d' % st['b']
        return t

    @classmethod
    def program(cls, case):
        if case.get('hist'):
            # several PAINTs in one line: the first error ends the line (RESUME 5)
            return '1 E=0:F=0:ON ERROR GOTO 9\r3 %s\r5 F=1:END\r9 E=ERR:RESUME 5\r' % ':'.join(
                cls.stmt_text(st) for st in case['hist'])
        co = case.get('coord')
        if co and co['kind'] == 'step':
            st = 'PAINT STEP (%d,%d)' % tuple(co['d'])
        elif co and co['kind'] == 'window':
            st = 'PAINT (%d,%d)' % tuple(co['f'])
        else:
            st = 'PAINT (%d,%d)' % tuple(case['seed'])
        pre = ''
        if case.get('tile') is not None:
            pre = '2 T$=%s' % cls.chrs(case['tile'])
            st += ',T$'
            if case['b'] is not None:
                st += ',%d' % case['b']
            if case.get('bgp') is not None:
                pre += ':B$=%s' % cls.chrs(case['bgp'])
                st += (',' if case['b'] is not None else ',,') + 'B$'
            pre += '\r'
        else:
            if case['c'] is not None:
                st += ',%d' % case['c']
            if case['b'] is not None:
                st += (',' if case['c'] is not None else ',,') + '%d' % case['b']
        return '1 E=0:F=0:ON ERROR GOTO 9\r%s3 %s\r5 F=1:END\r9 E=ERR:RESUME 5\r' % (pre, st)

    # ---- reference conversion of STEP / WINDOW coordinates to the physical seed (independent of the model;
    # the model takes the converted integer seed as input)
    @staticmethod
    def conv_seed(case):
        co = case.get('coord')
        if not co:
            return list(case['seed'])
        view = case['view']
        sw, sh, _ = MODES[case['scr']]
        if view is None:
            vw, vh, ox, oy = sw, sh, 0, 0
        else:
            x0, y0, x1, y1, absolute = view
            vw, vh = x1 - x0 + 1, y1 - y0 + 1
            ox, oy = (x0, y0) if absolute else (0, 0)
        if co['kind'] == 'step':
            # last point after VIEW / WINDOW: the middle of the viewport (+1 as GW-BASIC does)
            mx, my = (vw - 1) // 2 + 1 + ox, (vh - 1) // 2 + 1 + oy
            return [mx + co['d'][0], my + co['d'][1]]
        fx0, fy0, fx1, fy1, scrn = co['w']
        if fy0 > fy1:
            fy0, fy1 = fy1, fy0
        if fx0 > fx1:
            fx0, fx1 = fx1, fx0
        if not scrn:
            fy0, fy1 = fy1, fy0
        scalex = (vw - 1 - 0.) / (fx1 - fx0)
        scaley = (vh - 1 - 0.) / (fy1 - fy0)
        offx = 0. - fx0 * scalex
        offy = 0. - fy0 * scaley
        fx, fy = co['f']
        return [int(round(offx + (0. + fx) * scalex)), int(round(offy + (0. + fy) * scaley))]

    @classmethod
    def mid_point(cls, case):
        """last referenced point right after VIEW / VIEW SCREEN / no view (reference, viewport coordinates)"""
        view = case['view']
        sw, sh, _ = MODES[case['scr']]
        if view is None:
            return [(sw - 1) // 2 + 1, (sh - 1) // 2 + 1]
        x0, y0, x1, y1, absolute = view
        ox, oy = (x0, y0) if absolute else (0, 0)
        return [(x1 - x0) // 2 + 1 + ox, (y1 - y0) // 2 + 1 + oy]

    @classmethod
    def hist_seeds(cls, case):
        """reference reading of the last-point rule, independent of the implementation and of the Coq model:
        the physical seed of every statement of the history.  A PAINT whose seed is inside the viewport moves the
        last point (also when it paints nothing), one outside leaves it."""
        (bx0, by0, bx1, by1), _ = cls.geometry(case)
        lp = cls.mid_point(case)
        seeds = []
        for st in case['hist']:
            sd = [lp[0] + st['p'][0], lp[1] + st['p'][1]] if st['step'] else list(st['p'])
            seeds.append(sd)
            if bx0 <= sd[0] <= bx1 and by0 <= sd[1] <= by1:
                lp = sd
        return seeds

    def tile_rows(self, case):
        """unpacked tile and background row as the mode's build_tile returns them (taken as given)"""
        bt = self.session(case['scr'])._impl.display.mode.build_tile
        tile = [list(r) for r in bt(bytearray(case['tile'])).to_rows()]
        bg = None
        if case.get('bgp'):
            bg = list(bt(bytearray(case['bgp'])).to_rows()[0])
        return tile, bg

    def run_paint(self, case):
        """returns (err, before_rect_rows, after_rect_rows, number of changed pixels outside the rectangle)"""
        scr = case['scr']
        s = self.session(scr)
        with core.time_limit(4 if case.get('tile') is not None else 60):
            s.execute('NEW')
            if scr == 0:
                s.execute(self.program(case))
                s.execute('RUN')
                return int(s.evaluate('E')), None, None, 0
            sw, sh, na = MODES[scr]
            raw = s._impl.display.apage.pixels._pixels
            assert (raw.width, raw.height) == (sw, sh)
            msg = s.execute(self.setup_stmt(case))
            if msg:
                raise RuntimeError('setup failed: %r' % msg)
            fast = isinstance(getattr(raw, '_rows', None), list) and len(raw._rows) == sh
            if fast:
                for r in raw._rows:
                    r[:] = bytes(sw)
            else:
                raw[0:sh, 0:sw] = 0
            rx, ry = case['rect']
            rows = case['rows']
            rh, rw = len(rows), len(rows[0])
            assert 0 <= rx and rx + rw <= sw and 0 <= ry and ry + rh <= sh
            for j, row in enumerate(rows):
                raw[ry + j, rx:rx + rw] = [bytearray(row)]
            s.execute(self.program(case))
            s.execute('RUN')
            e, f = int(s.evaluate('E')), int(s.evaluate('F'))
            if f != 1:
                raise RuntimeError('program did not finish (E=%d F=%d)' % (e, f))
            allrows = raw._rows if fast else [bytearray(r) for r in raw.to_rows()]
            assert len(allrows) == sh and all(len(r) == sw for r in allrows)
            after = [list(allrows[ry + j][rx:rx + rw]) for j in range(rh)]
            outside = 0
            for y in range(sh):
                r = allrows[y]
                nz = sw - r.count(0)
                if nz and ry <= y < ry + rh:
                    nz -= rw - r[rx:rx + rw].count(0)
                outside += nz
            return e, rows, after, outside

    def impl(self, case):
        if case.get('kind') == 'full':
            e, after = self.run_full(case)
            return [1, e, 0] if e else [0, self.digest(after), 0]
        try:
            e, before, after, outside = self.run_paint(case)
        except TimeoutError:
            # PAINT did not return: drop the session, report like the model's OutOfFuel
            type(self)._sessions.pop(case['scr'], None)
            return [3, 0]
        if e:
            return [1, e, outside]
        return [0] + [a for row in after for a in row] + [outside]

    # ---------------------------------------------------------------- model
    @staticmethod
    def geometry(case):
        """(bounds in viewport coordinates, bitmap origin in viewport coordinates)"""
        rx, ry = case['rect']
        rows = case['rows']
        view = case['view']
        if view is None:
            # walled rectangle taken as the viewport
            return (rx, ry, rx + len(rows[0]) - 1, ry + len(rows) - 1), (rx, ry)
        x0, y0, x1, y1, absolute = view
        if absolute:
            return (x0, y0, x1, y1), (rx, ry)
        return (0, 0, x1 - x0, y1 - y0), (rx - x0, ry - y0)

    def model_term(self, case):
        z = lambda v: ('(%d)' % v) if v < 0 else '%d' % v
        opt = lambda v: 'None' if v is None else '(Some %s)' % z(v)
        scr = case['scr']
        if scr == 0:
            return ('(enc_paint (paint true 0 0 (mkBounds 0 0 0 0) (mkBitmap 0 0 [[0]]) 0 0 %s %s) ++ [0])'
                    % (opt(case['c']), opt(case['b'])))
        na = MODES[scr][2]
        fg = case['fg'] if case.get('fg') is not None else DEFAULT_FG[scr]
        if case.get('hist'):
            (bx0, by0, bx1, by1), (ox, oy) = self.geometry(case)
            rows = '[' + ';'.join(core.zl(r) for r in case['rows']) + ']'
            mx, my = self.mid_point(case)
            stmts = '[' + ';'.join('mkStmt %s %s %s %s %s' % ('true' if st['step'] else 'false', z(st['p'][0]),
                                                              z(st['p'][1]), opt(st['c']), opt(st['b']))
                                   for st in case['hist']) + ']'
            return ('(enc_paint (rmap fst (paint_hist false %d %d (mkBounds %s %s %s %s) (mkBitmap %s %s %s, (%s, %s)) %s)) '
                    '++ [0])' % (na, fg, z(bx0), z(by0), z(bx1), z(by1), z(ox), z(oy), rows, z(mx), z(my), stmts))
        if case.get('kind') == 'full':
            sw, sh, _ = MODES[scr]
            rects = '[' + ';'.join('(%d,%d,%d,%d,%d)' % tuple(r) for r in case['rects']) + ']'
            return ('(enc_digest (paint false %d %d (mkBounds 0 0 %d %d) (draw_rects (blank_bitmap %d %d) %s) '
                    '%s %s %s %s) ++ [0])' % (na, fg, sw - 1, sh - 1, sw, sh, rects,
                                              z(case['seed'][0]), z(case['seed'][1]), opt(case['c']), opt(case['b'])))
        (bx0, by0, bx1, by1), (ox, oy) = self.geometry(case)
        rows = '[' + ';'.join(core.zl(r) for r in case['rows']) + ']'
        seed = self.conv_seed(case)
        if case.get('tile') is not None:
            tile, bg = self.tile_rows(case)
            return ('(enc_paint (paint_tile false %d %d (mkBounds %s %s %s %s) (mkBitmap %s %s %s) %s %s %s %s %s) ++ [0])'
                    % (na, fg, z(bx0), z(by0), z(bx1), z(by1), z(ox), z(oy), rows, z(seed[0]), z(seed[1]),
                       '[' + ';'.join(core.zl(r) for r in tile) + ']', opt(case['b']),
                       'None' if bg is None else '(Some %s)' % core.zl(bg)))
        return ('(enc_paint (paint false %d %d (mkBounds %s %s %s %s) (mkBitmap %s %s %s) %s %s %s %s) ++ [0])' % (
            na, fg, z(bx0), z(by0), z(bx1), z(by1), z(ox), z(oy), rows,
            z(seed[0]), z(seed[1]), opt(case['c']), opt(case['b'])))

    # ---------------------------------------------------------------- oracle
    def oracle(self, case, out):
        scr = case['scr']
        if scr == 0:
            return None if out[:2] == [1, 5] else 'PAINT in text mode did not raise Illegal function call'
        sw, sh, na = MODES[scr]
        if case.get('kind') == 'full':
            return self.oracle_full(case, out)
        if case.get('hist'):
            return self.oracle_hist(case, out)
        rows = case['rows']
        rh, rw = len(rows), len(rows[0])
        if out[0] == 3:
            return 'PAINT did not terminate'
        if out[0] != 0:
            # an error must not paint anything; the errors themselves are compared with the model, the property
            # does not speak about them
            return ('%d pixels changed although PAINT raised an error' % out[-1]) if out[-1] else None
        after = out[1:-1]
        if len(after) != rh * rw:
            return 'malformed output'
        rx, ry = case['rect']
        view = case['view']
        sd = self.conv_seed(case)
        # work in absolute screen coordinates; (vx, vy) = origin of the viewport coordinates
        if view is None:
            bounds = (0, 0, sw - 1, sh - 1)
            seed = tuple(sd)
            vx, vy = 0, 0
        else:
            x0, y0, x1, y1, absolute = view
            bounds = (x0, y0, x1, y1)
            seed = tuple(sd) if absolute else (sd[0] + x0, sd[1] + y0)
            vx, vy = (0, 0) if absolute else (x0, y0)
        fg = case['fg'] if case.get('fg') is not None else DEFAULT_FG[scr]
        c, b = case['c'], case['b']
        tiled = case.get('tile') is not None
        if tiled:
            tile, bg = self.tile_rows(case)
            th, tw = len(tile), len(tile[0])
            border = ref_attr(na, fg, -1 if b is None else b)
            want = lambda x, y: tile[(y - vy) % th][(x - vx) % tw]      # tile phase: viewport coordinates
            # completeness is claimed only when "the run shows the tile" is the whole stop condition
            plain = bg is None and all(any(r) for r in tile)
        else:
            fill = ref_attr(na, fg, -1 if c is None else c)
            border = ref_attr(na, fg, (-1 if c is None else c) if b is None else b)
            want = lambda x, y: fill
            plain = True

        def before(x, y):
            if rx <= x < rx + rw and ry <= y < ry + rh:
                return rows[y - ry][x - rx]
            return 0
        region = bfs_region(before, bounds, seed, border)
        if any(not (rx <= x < rx + rw and ry <= y < ry + rh) for x, y in region):
            return 'generator error: region leaves the compared rectangle'
        if out[-1] != 0:
            return '%d pixels outside the compared rectangle (hence outside the region) changed' % out[-1]
        prefilled = any(before(x, y) == want(x, y) for x, y in region)
        for j in range(rh):
            for i in range(rw):
                a0, a1 = rows[j][i], after[j * rw + i]
                x, y = rx + i, ry + j
                inreg = (x, y) in region
                if a1 != a0:
                    if not inreg:
                        return 'pixel (%d,%d) outside the region changed %d -> %d' % (x, y, a0, a1)
                    if a1 != want(x, y):
                        return 'pixel (%d,%d) changed to %d, not to the fill/tile attribute %d' % (x, y, a1, want(x, y))
                if inreg and plain and not prefilled and a1 != want(x, y):
                    return 'region pixel (%d,%d) not filled (no region pixel showed the fill/tile beforehand)' % (x, y)
        return None

    def oracle_hist(self, case, out):
        """several PAINTs: the start point of each is read off the last-point rule (hist_seeds), the picture before
        the last one is the reference fill of the earlier ones (only when that is determined by the property)"""
        scr = case['scr']
        sw, sh, na = MODES[scr]
        if out[0] == 3:
            return 'PAINT did not terminate'
        if out[0] != 0:
            return ('%d pixels changed although PAINT raised an error' % out[-1]) if out[-1] else None
        rows = [list(r) for r in case['rows']]
        rh, rw = len(rows), len(rows[0])
        after = out[1:-1]
        if len(after) != rh * rw:
            return 'malformed output'
        if out[-1] != 0:
            return '%d pixels outside the compared rectangle changed' % out[-1]
        rx, ry = case['rect']
        x0, y0, x1, y1, absolute = case['view']
        bounds = (x0, y0, x1, y1)
        fg = case['fg'] if case.get('fg') is not None else DEFAULT_FG[scr]
        seeds = self.hist_seeds(case)
        n = len(case['hist'])
        for k, (st, sd) in enumerate(zip(case['hist'], seeds)):
            c, b = st['c'], st['b']
            if any(v is not None and not 0 <= v <= 255 for v in (c, b)) or any(abs(v) > 32767 for v in sd):
                return None     # an error was due: compared with the model only
            fill = ref_attr(na, fg, -1 if c is None else c)
            border = ref_attr(na, fg, (-1 if c is None else c) if b is None else b)
            seed = tuple(sd) if absolute else (sd[0] + x0, sd[1] + y0)

            def cur(x, y):
                if rx <= x < rx + rw and ry <= y < ry + rh:
                    return rows[y - ry][x - rx]
                return 0
            region = bfs_region(cur, bounds, seed, border)
            if any(not (rx <= x < rx + rw and ry <= y < ry + rh) for x, y in region):
                return 'generator error: region leaves the compared rectangle'
            prefilled = any(cur(x, y) == fill for x, y in region)
            if k < n - 1:
                if prefilled:
                    return None     # the intermediate picture is not determined by the property
                for x, y in region:
                    rows[y - ry][x - rx] = fill
                continue
            for j in range(rh):
                for i in range(rw):
                    a0, a1 = rows[j][i], after[j * rw + i]
                    x, y = rx + i, ry + j
                    inreg = (x, y) in region
                    if a1 != a0:
                        if not inreg:
                            return ('pixel (%d,%d) outside the region of the start point %s of statement %d changed '
                                    '%d -> %d' % (x, y, sd, k + 1, a0, a1))
                        if a1 != fill:
                            return 'pixel (%d,%d) changed to %d, not to the fill attribute %d' % (x, y, a1, fill)
                    if inreg and not prefilled and a1 != fill:
                        return 'region pixel (%d,%d) of the start point %s of statement %d not filled' % (x, y, sd, k + 1)
        return None

    # ---------------------------------------------------------------- known finding K32a
    @staticmethod
    def zero_rows_adjacent(tile):
        z = [not any(r) for r in tile]
        return any(z[i] and z[(i + 1) % len(z)] for i in range(len(z)))

    def known_match(self, finding, case, out):
        if finding.get('id') != 'K32a' or out is None or out[0] != 3 or case.get('tile') is None:
            return False
        tile, bg = self.tile_rows(case)
        return self.zero_rows_adjacent(tile)

    def known_rerun(self, finding):
        if finding.get('id') != 'K32a':
            return True
        case = dict(finding['witness'])
        out = self.impl(case)
        return out[0] == 3

    def oracle_full(self, case, out):
        if out[0] != 0:
            return None
        after = self.__dict__.get('_full', {}).get(core.sha(case))
        if after is None:
            after = self.run_full(case)[1]
        if self.digest(after) != out[1]:
            return None     # stale cache: not the run that produced `out`
        sw, sh, na = MODES[case['scr']]
        before = self.full_before(case)
        fg = DEFAULT_FG[case['scr']]
        c, b = case['c'], case['b']
        fill = ref_attr(na, fg, -1 if c is None else c)
        border = ref_attr(na, fg, (-1 if c is None else c) if b is None else b)
        region = bfs_region(lambda x, y: before[y][x], (0, 0, sw - 1, sh - 1), tuple(case['seed']), border)
        prefilled = any(before[y][x] == fill for x, y in region)
        for y in range(sh):
            rb, ra = before[y], after[y]
            if rb == ra and (prefilled or not any((x, y) in region for x in range(sw))):
                continue
            for x in range(sw):
                inreg = (x, y) in region
                if ra[x] != rb[x]:
                    if not inreg:
                        return 'pixel (%d,%d) outside the region changed %d -> %d' % (x, y, rb[x], ra[x])
                    if ra[x] != fill:
                        return 'pixel (%d,%d) changed to %d, not to the fill attribute %d' % (x, y, ra[x], fill)
                if inreg and not prefilled and ra[x] != fill:
                    return 'region pixel (%d,%d) not filled (region has no pixel in the fill attribute)' % (x, y)
        return None

    def nontrivial(self, case, out):
        if case.get('kind') == 'full':
            return out[0] == 0 and out[1] != self.digest(self.full_before(case))
        if out[0] != 0 or case['scr'] == 0:
            return False
        flat = [a for row in case['rows'] for a in row]
        return flat != out[1:-1]

    def describe(self, case):
        return case

    def shrink_candidates(self, case):
        """blank whole rows / single non-zero cells of the picture (shape and viewport stay; the wall ring of a
        case without VIEW is kept, otherwise the region would leave the compared rectangle)"""
        rows = case['rows']
        if case['scr'] == 0:
            return
        if case.get('kind') == 'full':
            rs = case['rects']
            for i in range(len(rs)):
                d = dict(case)
                d['rects'] = rs[:i] + rs[i + 1:]
                yield d
            return
        rh, rw = len(rows), len(rows[0])
        sw, sh, _ = MODES[case['scr']]
        rx, ry = case['rect']

        def keep(j, i):
            if case['view'] is not None:
                return False
            return ((j == 0 and ry > 0) or (j == rh - 1 and ry + rh < sh) or
                    (i == 0 and rx > 0) or (i == rw - 1 and rx + rw < sw))
        for j in range(rh):
            if any(rows[j][i] and not keep(j, i) for i in range(rw)):
                d = dict(case)
                d['rows'] = [list(r) if k != j else [a if keep(j, i) else 0 for i, a in enumerate(r)]
                             for k, r in enumerate(rows)]
                yield d
        cells = [(j, i) for j, r in enumerate(rows) for i, a in enumerate(r) if a and not keep(j, i)]
        for j, i in cells[:200]:
            d = dict(case)
            d['rows'] = [list(r) for r in rows]
            d['rows'][j][i] = 0
            yield d

    # ---------------------------------------------------------------- implementation-only search (full screen)
    def extra_search(self, budget_s):
        import time
        import random
        rng = random.Random(self.seed + 1)
        t0 = time.time()
        while time.time() - t0 < budget_s:
            scr = rng.choice([1, 7, 9])
            sw, sh, na = MODES[scr]
            w, h = rng.randrange(20, 60), rng.randrange(12, 40)
            border = rng.randrange(1, na)
            fill = rng.randrange(na)
            pname, pf = rng.choice(PICS)
            p = pf(rng, w, h, border, 0)
            x0, y0 = rng.randrange(0, sw - w), rng.randrange(0, sh - h)
            free = [(x, y) for y in range(h) for x in range(w) if p[y][x] != border]
            if not free:
                continue
            sx, sy = rng.choice(free)
            case = self.mk(scr, [x0, y0, x0 + w - 1, y0 + h - 1, 0], [x0, y0], p, [sx, sy], fill, border,
                           kind='view', pic=pname)
            try:
                out = self.impl(case)
            except Exception:
                continue
            why = self.oracle(case, out)
            if why:
                yield case, out, why


CHECK = C32
