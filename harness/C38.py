"""C38 - Event traps fire only when enabled and never re-enter.

Schedules (lists of abstract actions) are replayed against the REAL interpreter: a fixed BASIC dispatcher
program (one statement per line) executes the program actions, the Session step hook (Session.set_hook)
injects the environment actions (key / pen / joystick signals into the input queue, a fake clock for TIMER,
a fake char_waiting level for COM1) between statements and records the interpreter's event state and GOSUB
stack at every dispatcher round.  The same run yields the model schedule (every statement boundary becomes
`Install; <occurrences>; Boundary order`), which the Coq model replays by vm_compute; the oracle is a
reference monitor written from the property text that only looks at the recorded implementation log.
"""
import itertools
import struct

from vlib import core
from harness import common

# ---- tracked events: code (theories/model/Events.v event_code), name, BASIC syntax, handler line
EVENTS = {
    1: ('K1', 'KEY(1)', 'KEY(1)', 1000),
    2: ('K2', 'KEY(2)', 'KEY(2)', 2000),
    5: ('K5', 'KEY(5)', 'KEY(5)', 1100),             # F5
    11: ('K11', 'KEY(11)', 'KEY(11)', 1200),         # cursor up
    15: ('K15', 'KEY(15)', 'KEY(15)', 1300),         # user defined: 'a'
    16: ('K16', 'KEY(16)', 'KEY(16)', 1400),         # user defined: Ctrl+'a'
    21: ('TIMER', 'TIMER', 'TIMER(1)', 3000),
    22: ('PLAY', 'PLAY', 'PLAY(2)', 3500),
    23: ('PEN', 'PEN', 'PEN', 4000),
    24: ('STRIG0', 'STRIG(0)', 'STRIG(0)', 4500),
    25: ('STRIG2', 'STRIG(2)', 'STRIG(2)', 4600),
    27: ('STRIG6', 'STRIG(6)', 'STRIG(6)', 6500),     # handler in the tail block that RENUM moves
    29: ('COM1', 'COM(1)', 'COM(1)', 4800),
    30: ('COM2', 'COM(2)', 'COM(2)', 4900),
}
TRACKED = [1, 2, 5, 11, 15, 16, 21, 22, 23, 24, 25, 27, 29, 30]          # order of Events.v `tracked`
COMS = (29, 30)
COM = 29
TIMER = 21
PLAY = 22
PLAY_N = 2
USER_KEYS = {15: 'KEY 15,CHR$(0)+CHR$(30)', 16: 'KEY 16,CHR$(4)+CHR$(30)'}
ERR_LINE = 5000
SUB_LINE = 6000
TAIL_LINE = 6500      # the last two program lines (handler of STRIG(6)) sit at 6500/6501 or 6600/6601
TAIL_ALT = 6600

# program statements: kind -> (model action code, takes event)
K_OBS, K_OCC, K_CON, K_ON, K_OFF, K_STOP, K_GS, K_GS0, K_INST, K_BND = range(10)
K_GOSUB, K_RET, K_RETTO, K_ONERR, K_ONERR0, K_ERR, K_RES, K_RESTO, K_END, K_IDLE, K_START, K_RUN = range(10, 22)
K_PT = 22          # Install; Poll; Boundary o   (K_BND itself is Poll; Boundary o)
K_ELAPSE = 23
K_CLEAR, K_NEW, K_RENUM, K_PLAYQ, K_PLAYTRIG, K_KEYPRESS, K_DEFKEY = range(24, 31)
STMT_KINDS = {
    'on': K_ON, 'off': K_OFF, 'stop': K_STOP, 'gs': K_GS, 'gs0': K_GS0,
    'gosub': K_GOSUB, 'ret': K_RET, 'retto': K_RETTO, 'onerr': K_ONERR, 'onerr0': K_ONERR0,
    'err': K_ERR, 'res': K_RES, 'resto': K_RESTO, 'end': K_END, 'start': K_START, 'run': K_RUN,
    'clear': K_CLEAR, 'new': K_NEW, 'renum': K_RENUM, 'chain': K_RUN, 'defkey': K_DEFKEY,
    # STOP breaks into direct mode keeping everything else (also the active error handler): the
    # model's Idle; CONT re-enters the program: the model's Start
    'stopstmt': K_IDLE, 'cont': K_START,
}
ENV_KINDS = ('occ', 'occi', 'con', 'playq')
EV_KINDS = ('on', 'off', 'stop', 'gs', 'gs0')
PLAIN_KINDS = ('gosub', 'ret', 'retto', 'onerr', 'onerr0', 'err', 'res', 'resto', 'end', 'start', 'run',
               'clear', 'new', 'renum', 'chain', 'stopstmt', 'cont')
DISPATCH = 30      # targets per ON .. GOTO line


def stmt_text(kind, e):
    if kind in EV_KINDS:
        name, sw, on, line = EVENTS[e]
        return {'on': '%s ON' % sw, 'off': '%s OFF' % sw, 'stop': '%s STOP' % sw,
                'gs': 'ON %s GOSUB %d' % (on, line), 'gs0': 'ON %s GOSUB 0' % on}[kind]
    if kind == 'defkey':
        return USER_KEYS[e]
    return {'gosub': 'GOSUB %d' % SUB_LINE, 'ret': 'RETURN', 'retto': 'RETURN 100',
            'onerr': 'ON ERROR GOTO %d' % ERR_LINE, 'onerr0': 'ON ERROR GOTO 0', 'err': 'ERROR 5',
            'res': 'RESUME NEXT', 'resto': 'RESUME 100', 'end': 'END', 'start': 'GOTO 100',
            'run': 'RUN 100', 'clear': 'CLEAR', 'new': 'NEW', 'stopstmt': 'STOP', 'cont': 'CONT',
            # in the program: renumber the tail block (STRIG(6) handler) to where it is (RENUM rewrites
            # these two numbers itself when the block moves); all side effects, same program.
            # In direct mode the harness really moves the block, see Replayer.direct
            'renum': 'RENUM %d,%d' % (TAIL_LINE, TAIL_LINE),
            'chain': 'CHAIN "D",100'}[kind]


def build_program():
    stmts = []
    for e in TRACKED:
        for k in EV_KINDS:
            stmts.append((k, e))
    for k in PLAIN_KINDS:
        stmts.append((k, 0))
    for e in sorted(USER_KEYS):
        stmts.append(('defkey', e))
    lines = ['100 REM']
    nd = (len(stmts) + DISPATCH - 1) // DISPATCH
    assert nd <= 3
    for d in range(nd):
        chunk = range(d * DISPATCH, min(len(stmts), (d + 1) * DISPATCH))
        lines.append('%d ON %s%% GOTO ' % (110 + d, 'ABC'[d]) + ','.join(str(200 + 2 * i) for i in chunk))
    lines.append('%d GOTO 100' % (110 + nd))
    index = {}
    line_action = {}
    for i, (k, e) in enumerate(stmts):
        lines.append('%d %s' % (200 + 2 * i, stmt_text(k, e)))
        lines.append('%d GOTO 100' % (201 + 2 * i))
        index[(k, e)] = i + 1
        line_action[200 + 2 * i] = (k, e)
    markers = {}
    rest = []
    for e in TRACKED:
        name, _, _, line = EVENTS[e]
        rest.append((line, 'PRINT "<%s>"' % name))
        rest.append((line + (10 if line == TAIL_LINE else 1), 'GOTO 100'))
        markers[line] = e
    rest += [(ERR_LINE, 'PRINT "<H>"'), (ERR_LINE + 1, 'GOTO 100'), (SUB_LINE, 'PRINT "<G>"'),
             (SUB_LINE + 1, 'GOTO 100')]
    lines += ['%d %s' % x for x in sorted(rest)]
    assert sorted(rest)[-1][0] == TAIL_LINE + 10
    markers[TAIL_ALT] = markers[TAIL_LINE]
    return '\n'.join(lines) + '\n', index, line_action, markers, nd


PROGRAM, STMT_INDEX, LINE_ACTION, MARKER_LINES, NDISPATCH = build_program()


class FakeClock(object):
    def __init__(self):
        self.t = 1000


class Replayer(object):
    """Replays one schedule on a fresh Session; produces observations, the model schedule and the log."""

    def __init__(self, acts):
        self.acts = [tuple(a) for a in acts]
        self.pos = 0
        self.sched = []           # model schedule, flat [kind, arg, kind, arg, ...]
        self.obs = []             # observed ints (what the model must reproduce)
        self.log = []             # implementation log for the oracle
        self.queued = []          # occurrences put into the input queue, not yet processed
        self.pending_stmt = None  # statement executed since the last emitted parse-top
        self.direct_stmt = None
        self.ce_count = 0         # calls of EventQueues.check_events (parse-tops)
        self.pt_emitted = 0
        self.last_stack = []
        self.last_frames = []
        self.code_at_push = {}
        self.keep = []
        self.output = []
        self.finishing = False
        self.aborted = False

    # -- model schedule emission
    def emit(self, kind, arg=0):
        self.sched.append(kind + 32 * arg)

    def emit_stmt(self, st):
        if st is None:
            return
        k, e = st
        if e == PLAY and k in ('gs', 'gs0'):
            self.emit(K_PLAYTRIG, PLAY_N)        # ON PLAY(n) GOSUB: set_trigger(n), then set_jump
        self.emit(STMT_KINDS[k], e)
        self.log.append(('stmt', k, e))

    def emit_parse_top(self, order):
        self.pt_emitted += 1
        packed = 0
        for e in reversed(order):
            packed = packed * 32 + e
        if self.queued:
            self.emit(K_INST)
            for e in self.queued:
                self.emit(K_KEYPRESS if e in USER_KEYS else K_OCC, e)
                self.log.append(('occ', e, True))
            self.queued = []
            self.emit(K_BND, packed)     # Poll; Boundary
        else:
            self.emit(K_PT, packed)      # Install; Poll; Boundary
        self.log.append(('boundary',))

    # -- reading the implementation state
    def handlers(self):
        ev = self.impl.basic_events
        return {1: ev.key[0], 2: ev.key[1], 5: ev.key[4], 11: ev.key[10], 15: ev.key[14], 16: ev.key[15],
                21: ev.timer, 22: ev.play, 23: ev.pen, 24: ev.strig[0], 25: ev.strig[1], 27: ev.strig[3],
                29: ev.com[0], 30: ev.com[1]}

    def code_of(self, handler):
        for c, h in self.handlers().items():
            if h is handler:
                return c
        return 31    # a handler object that no longer belongs to BasicEvents (stale) or is untracked

    def handler_of(self, code):
        return self.handlers()[code]

    def stack_codes(self):
        res = []
        for pos, rm, h in reversed(self.it.gosub_stack):
            res.append((bool(rm), self.code_of(h) if h is not None else 0))
        return res      # head = top

    def observe(self):
        ev = self.impl.basic_events
        it = self.it
        flags = 0
        for c in reversed(TRACKED):
            h = self.handler_of(c)
            flags = flags * 16 + ((1 if h in ev.enabled else 0) + 2 * (1 if h.stopped else 0)
                                  + 4 * (1 if h.triggered else 0) + 8 * (1 if h.gosub is not None else 0))
        er = it.error_resume
        st = self.stack_codes()
        glob = ((1 if ev.suspend_all else 0) + 2 * (1 if it.run_mode else 0)
                + 4 * (1 if it.error_handle_mode else 0)
                + 8 * (1 if (it.on_error is not None and it.on_error != 0) else 0)
                + 16 * (0 if er is None else (2 if er[1] else 1)) + 64 * len(st))
        frames = 0
        for rm, c in reversed(st):
            frames = frames * 64 + 2 * c + (1 if rm else 0)
        out = [flags, glob, frames, ev.play.last + 64 * ev.play.trig]
        self.emit(K_OBS)
        self.obs += out
        self.log.append(('state', {'run': bool(it.run_mode), 'ehm': bool(it.error_handle_mode),
                                   'stack': [c for _, c in st]}))

    def diff_stack(self):
        """log pushes / pops of tagged frames since the last look (frames compared by object identity:
        the stack changes only at its top, and every push creates a new tuple)"""
        new = list(self.it.gosub_stack)                     # bottom first; keeps the tuples alive
        old = self.last_frames
        n = 0
        while n < len(old) and n < len(new) and old[n] is new[n]:
            n += 1
        for pos, rm, h in reversed(old[n:]):
            if h is not None:
                self.log.append(('exit', self.code_at_push.get(id(h), 31)))
        for fr in new[n:]:
            pos, rm, h = fr
            if h is not None:
                c = self.code_of(h)
                self.code_at_push[id(h)] = c
                self.keep.append(h)
                self.log.append(('enter', c, bool(rm)))
                self.obs.append(1000 + c)
        self.last_frames = new
        self.last_stack = self.stack_codes()

    # -- environment actions
    def do_env(self, kind, e, idle):
        from pcbasic.basic.base import signals, scancode
        q = self.impl.queues.inputs
        if kind == 'playq':
            # number of notes waiting in the background music queue (fake Sound.tones_waiting)
            self.pq[0] = e
            self.emit(K_PLAYQ, e)
            self.log.append(('playq', e))
            return
        if kind == 'con':
            if e in COMS:
                self.com_level[e] = False
            self.emit(K_CON, e)
            self.log.append(('consume', e))
            return
        if e in COMS:
            self.com_level[e] = True
            self.emit(K_OCC, e)
            self.log.append(('occ', e, True))
            return
        if e == PLAY:
            return      # PLAY occurrences come from the queue length only
        if e == TIMER:
            # the period (1 s) runs out on the fake clock
            self.clock.t += 2000
            self.emit(K_ELAPSE)
            self.log.append(('tick',))
            return
        sig = {1: (signals.KEYB_DOWN, (u'', scancode.F1, [])), 2: (signals.KEYB_DOWN, (u'', scancode.F2, [])),
               5: (signals.KEYB_DOWN, (u'', scancode.F5, [])), 11: (signals.KEYB_DOWN, (u'', scancode.UP, [])),
               15: (signals.KEYB_DOWN, (u'a', 30, [])),
               16: (signals.KEYB_DOWN, (u'\x01', 30, [scancode.CTRL])),
               23: (signals.PEN_DOWN, (1, 1)), 24: (signals.STICK_DOWN, (0, 0)),
               25: (signals.STICK_DOWN, (0, 1)), 27: (signals.STICK_DOWN, (1, 1))}[e]
        q.put(signals.Event(*sig))
        if idle and kind == 'occi':
            # the interpreter is idle (waiting for a command): the console polls the queue with no
            # BASIC event handlers installed (everything still in the queue is consumed by this poll)
            self.orig_check_events()
            for x in self.queued + [e]:
                self.emit(K_KEYPRESS if x in USER_KEYS else K_OCC, x)
                self.log.append(('occ', x, False))
            self.queued = []
        else:
            self.queued.append(e)

    # -- the step hook: called at the start of every program line, after handle_basic_events
    def hook(self, token):
        ln = struct.unpack_from('<H', token, 2)[0]
        ev = self.impl.basic_events
        if len(self.it.gosub_stack) > 40:
            # runaway (a handler is entered at every statement): the log already shows the re-entry;
            # stop the program the way Ctrl-Break does and abandon the rest of the schedule
            from pcbasic.basic.base import error
            self.aborted = True
            self.diff_stack()
            raise error.Break()
        if self.direct_stmt is not None:
            self.emit_parse_top([])
            self.emit_stmt(self.direct_stmt)
            self.direct_stmt = None
        else:
            self.emit_stmt(self.pending_stmt)
        self.pending_stmt = None
        # iteration order of handle_basic_events at this boundary: the source does not fix it (it walks a
        # set), so it is taken from what was pushed: entered events first, in push order, then the other
        # enabled events.  Which events are entered is still decided by the model.
        old_frames = self.last_frames
        n = 0
        stack = self.it.gosub_stack
        while n < len(old_frames) and n < len(stack) and old_frames[n] is stack[n]:
            n += 1
        order = [self.code_of(fr[2]) for fr in stack[n:] if fr[2] is not None]
        order += sorted(c for c in (self.code_of(h) for h in ev.enabled) if c not in order)
        self.emit_parse_top(order)
        self.log.append(('line', ln))
        self.diff_stack()
        if ln in MARKER_LINES:
            top = self.last_stack[0][1] if self.last_stack else None
            self.log.append(('mark', MARKER_LINES[ln], top))
        if ln in LINE_ACTION:
            self.pending_stmt = self.resolve(LINE_ACTION[ln])
        if ln == 100:
            # environment actions: they are seen by the interpreter at the statement boundary before
            # line 110 (a handler entered there comes back to line 100 and continues the schedule)
            self.observe()
            while self.pos < len(self.acts) and self.acts[self.pos][0] in ENV_KINDS:
                k, e = self.acts[self.pos]
                self.pos += 1
                self.do_env(k, e, False)
        elif ln == 110:
            # the next program action; the `ON x% GOTO` lines run right after this hook and nothing can
            # become ready to fire at the boundaries between them
            self.observe()
            if self.pos < len(self.acts) and self.acts[self.pos][0] not in ENV_KINDS:
                k, e = self.acts[self.pos]
                self.pos += 1
                nxt = STMT_INDEX[(k, e)]
            elif self.pos < len(self.acts):
                nxt = STMT_INDEX[('start', 0)]      # more environment actions first: one empty round
            else:
                nxt = STMT_INDEX[('end', 0)]
                self.finishing = True
            d, r = divmod(nxt - 1, DISPATCH)
            for j in range(NDISPATCH):
                self.session.set_variable('ABC'[j] + '%', r + 1 if j == d else 0)
        self.log.append(('endhook',))

    def resolve(self, st):
        """what the statement about to run amounts to: CONT with nothing to continue is an error"""
        if st[0] == 'cont' and self.it.stop_pos is None:
            return ('err', 0)
        return st

    def direct(self, st):
        text = stmt_text(*st)
        st = self.resolve(st)
        at_alt = TAIL_LINE not in self.impl.program.line_numbers
        if st == ('gs', 27) and at_alt:
            text = text.replace(str(TAIL_LINE), str(TAIL_ALT))
        if st[0] == 'renum':
            # really move the handler block of STRIG(6): 6500,6510 <-> 6600,6610; RENUM has to remap the
            # trap line of STRIG(6) (through BasicEvents.all, the trap may be OFF) and the program text
            text = 'RENUM %d,%d' % ((TAIL_LINE, TAIL_ALT) if at_alt else (TAIL_ALT, TAIL_LINE))
        self.direct_stmt = st
        self.pending_stmt = None
        out = self.session.execute(text)
        self.output.append(out)
        if self.aborted:
            return
        if 100 not in self.impl.program.line_numbers:
            # NEW erased the dispatcher: type it in again (storing a line clears everything, like NEW)
            self.session.execute(PROGRAM)
        if self.direct_stmt is not None:
            self.emit_parse_top([])
            self.emit_stmt(self.direct_stmt)
            self.direct_stmt = None
        else:
            self.emit_stmt(self.pending_stmt)
        self.pending_stmt = None
        if self.ce_count > self.pt_emitted:
            # the final parse-top that finds the end of the direct line
            self.emit_parse_top([])
            self.emit(K_IDLE)
        assert self.ce_count == self.pt_emitted, (self.ce_count, self.pt_emitted)
        self.diff_stack()
        self.log.append(('idle',))
        self.observe()

    def run(self, pool=None):
        """pool=None: a fresh Session.  Otherwise the instrumented Session kept in `pool` is reused after
        a full reset (re-storing a program line runs clear_stacks_and_pointers + CLEAR) that is checked to
        give the fresh state vector; any problem discards the pooled Session."""
        rig = pool.get('rig') if pool is not None else None
        if rig is not None:
            try:
                rig.reset_for(self)
            except Exception:
                rig.close()
                rig = None
                pool.pop('rig', None)
        if rig is None:
            rig = Rig()
            rig.reset_for(self)
            if pool is not None:
                pool['rig'] = rig
        ok = False
        try:
            with core.time_limit(10):
                self.observe()
                while self.pos < len(self.acts) and not self.aborted:
                    k, e = self.acts[self.pos]
                    self.pos += 1
                    if k in ENV_KINDS:
                        self.do_env(k, e, True)
                    else:
                        self.direct((k, e))
                if self.queued and not self.aborted:
                    # let the interpreter look at what is still in the input queue: a direct GOTO
                    self.direct(('start', 0))
            ok = not self.aborted
        finally:
            rig.uses += 1
            if pool is None or not ok or rig.uses >= 300:
                rig.close()
                if pool is not None:
                    pool.pop('rig', None)
        return self


class Rig(object):
    """One real Session with the dispatcher program and the (instance-only) instrumentation:
    fake clock, fake COM1 char_waiting level, counted check_events, step hook."""

    def __init__(self):
        self.dir = common.tmpdir('c38')
        self.session = common.new_session(devices={'C': self.dir}, current_device='C:')
        s = self.session
        s.start()
        self.impl = s._impl
        s.execute(PROGRAM)
        s.execute('SAVE "D"')          # for CHAIN "D",100
        self.cur = None
        self.uses = 0
        # nothing in /repo is edited: attributes of this Session's objects only
        self.impl.clock.get_time_ms = lambda: self.cur.clock.t
        self.impl.files.get_device(b'COM1:').char_waiting = lambda: self.cur.com_level[29]
        self.impl.files.get_device(b'COM2:').char_waiting = lambda: self.cur.com_level[30]
        self.impl.sound.tones_waiting = lambda: self.cur.pq[0]
        queues = self.impl.queues
        self.orig_check_events = queues.check_events

        def counted_check_events():
            self.cur.ce_count += 1
            return self.orig_check_events()
        queues.check_events = counted_check_events
        s.set_hook(lambda token: self.cur.hook(token))

    def reset_for(self, rep):
        import queue as _q
        self.cur = rep
        rep.session = self.session
        rep.impl = self.impl
        rep.it = self.impl.interpreter
        rep.clock = FakeClock()
        rep.com_level = {29: False, 30: False}
        rep.pq = [0]
        rep.orig_check_events = self.orig_check_events
        if self.uses:
            inputs = self.impl.queues.inputs
            try:
                while True:
                    inputs.get(False)
                    inputs.task_done()
            except _q.Empty:
                pass
            if TAIL_LINE not in self.impl.program.line_numbers:
                self.session.execute('RENUM %d,%d' % (TAIL_LINE, TAIL_ALT))
            self.session.execute('100 REM')       # stores the line: clears stacks, variables, events, traps
            it = rep.it
            ev = self.impl.basic_events
            fresh = (100 in self.impl.program.line_numbers and not ev.enabled and not ev.suspend_all and not it.run_mode and not it.gosub_stack
                     and not it.error_handle_mode and not it.on_error and it.error_resume is None
                     and not self.impl.queues._basic_handlers
                     and all(h.gosub is None and not h.stopped and not h.triggered for h in ev.all))
            if not fresh:
                raise RuntimeError('pooled session did not reset to the fresh state')
        rep.ce_count = 0

    def close(self):
        try:
            self.session.close()
        except Exception:
            pass
        common.rmtree(self.dir)




def mon_violation(log):
    """Reference monitor written from the property text; reads only the implementation's log.
    Safety clauses are checked at every observed handler entry; the one liveness clause ("remembered and
    handled once after ON") is checked at statement boundaries of error-free runs."""
    mode = {}        # e -> 'OFF' | 'ON' | 'STOP'
    pending = {}     # e -> True: an occurrence made while ON/STOP is unhandled; 'maybe': allowed, not owed
    handler = {}     # e -> a handler line is defined
    frames = []      # open handler frames, bottom first: [event, ON executed since entry]
    stuck = set()    # events whose open frame was dropped by RENUM: no RETURN will come, only ON helps
    defined = set()  # user-defined keys that have a scan code
    in_error_handler = False
    had_error = False
    must_enter = set()
    level = 0            # notes waiting in the music queue
    prev_level = 0       # ... at the previous statement boundary
    prev_play_mode = 'OFF'
    interval = False     # a TIMER interval has been defined
    play_n = 1           # the n of PLAY(n): 1 until ON PLAY(n) GOSUB sets it (PlayHandler.trig)

    def m(e):
        return mode.get(e, 'OFF')
    for it in log:
        t = it[0]
        if t == 'occ':
            _, e, live = it
            if e in COMS:
                pending[e] = True       # level: a character is waiting
            elif e in USER_KEYS and e not in defined:
                pass                    # that key press is not the event KEY(e)
            elif live and m(e) != 'OFF':
                pending[e] = True
        elif t == 'tick':
            # the TIMER period runs out: the TIMER event occurs now
            if m(TIMER) != 'OFF' and interval:
                pending[TIMER] = True
        elif t == 'playq':
            level = it[1]
        elif t == 'consume':
            if it[1] in COMS:
                pending[it[1]] = False
        elif t == 'stmt':
            _, k, e = it
            if k == 'on':
                mode[e] = 'ON'
                stuck.discard(e)
                for fr in frames:
                    if fr[0] == e:
                        fr[1] = True
            elif k == 'off':
                if e not in COMS:       # exception stated with the theorems: COM(n) OFF does not switch off
                    mode[e] = 'OFF'
                    if pending.get(e):
                        pending[e] = 'maybe'
            elif k == 'stop':
                if m(e) != 'OFF':
                    mode[e] = 'STOP'
            elif k == 'gs':
                handler[e] = True
                interval = interval or e == TIMER      # ON TIMER(x) GOSUB defines the interval
                if e == PLAY:
                    play_n = PLAY_N
            elif k == 'gs0':
                handler[e] = False
                interval = interval or e == TIMER
                if e == PLAY:
                    play_n = PLAY_N
            elif k == 'defkey':
                defined.add(e)
            elif k in ('run', 'chain', 'clear', 'new'):
                # all traps are switched off and forgotten (the COM input buffer is not part of that)
                mode, handler = {}, {}
                pending = dict((c, pending.get(c, False)) for c in COMS)
                frames = []
                stuck = set()
                defined = set()
                interval = False
                play_n = 1
                in_error_handler = False
                had_error = False
            elif k == 'renum':
                # the subroutine stack is dropped: the open trap routines can never RETURN
                stuck |= set(fr[0] for fr in frames)
                frames = []
            elif k in ('res', 'resto', 'end'):
                in_error_handler = False
        elif t == 'line':
            if it[1] == ERR_LINE:
                in_error_handler = True
                had_error = True
        elif t == 'boundary':
            # PLAY(n): the event occurs when the number of notes waiting drops below n (seen at the
            # granularity of statements)
            if prev_level >= play_n > level:
                if m(PLAY) != 'OFF':
                    pending[PLAY] = True if prev_play_mode != 'OFF' else (pending.get(PLAY) or 'maybe')
            prev_level = level
            prev_play_mode = m(PLAY)
            must_enter = set()
            for e in TRACKED:
                if (m(e) == 'ON' and pending.get(e) is True and handler.get(e) and e not in stuck
                        and not any(fr[0] == e and not fr[1] for fr in frames)):
                    must_enter.add(e)
        elif t == 'enter':
            _, e, rm = it
            if not rm:
                return 'handler of event %d entered while no program was running' % e
            if in_error_handler:
                return 'handler of event %d entered while an error handler is active' % e
            if m(e) == 'OFF':
                return 'handler of event %d entered while the event is OFF' % e
            if m(e) == 'STOP':
                return 'handler of event %d entered while the event is STOPped' % e
            if not pending.get(e):
                if e == TIMER:
                    return 'TIMER handler entered although no period ran out while TIMER was ON/STOPped (D38a)'
                if e == PLAY:
                    return 'PLAY handler entered although the queue did not drop below n while PLAY was ON/STOPped (D38a)'
                return 'handler of event %d entered without an occurrence made while it was ON/STOPped' % e
            if any(fr[0] == e and not fr[1] for fr in frames):
                return 'handler of event %d re-entered before its RETURN (no ON in between)' % e
            if not handler.get(e):
                return 'handler of event %d entered but no handler is defined' % e
            if e not in COMS:
                pending[e] = False
            frames.append([e, False])
            must_enter.discard(e)
        elif t == 'exit':
            for i in range(len(frames) - 1, -1, -1):
                if frames[i][0] == it[1]:
                    del frames[i]
                    # GW-BASIC manual: RETURN from a trap routine does an automatic event ON unless the
                    # routine executed an explicit event OFF; so a STOP executed inside the routine ends here
                    if m(it[1]) == 'STOP':
                        mode[it[1]] = 'ON'
                    break
        elif t == 'mark':
            _, e, top = it
            if top != e:
                return 'handler code of event %d runs but the active GOSUB frame is %r' % (e, top)
        elif t == 'endhook':
            # the boundary before this program line ran in run mode
            if must_enter and not had_error:
                return ('remembered occurrence of event(s) %s not handled at the statement boundary'
                        % sorted(must_enter))
    return None


class C38(core.Check):
    ID = 'C38'
    GEN = []
    PROPS = 'props/C38.v'
    MODEL_IMPORTS = ['model.Events']
    QUICK_CASES = 320
    THOROUGH_CASES = 1500
    ALLOWED_AXIOMS = set()
    TRUSTED = ['hand model model/Events.v of BasicEvents.command / EventHandler flags / '
               'Interpreter.handle_basic_events, jump_sub, return_, trap_error, resume_, set_pointer, END, RUN/CHAIN, '
               'CLEAR, NEW, RENUM and EventQueues._check_input gating, tied by replaying schedules on the real '
               'interpreter (state vector + GOSUB stack + PlayHandler.last/trig compared at every dispatcher round)',
               'sources: KEY 1,2,5,11 and user-defined KEY 15,16, PEN, STRIG 0,2,6 by signals in the real input '
               'queue; TIMER on a fake clock, PLAY on a fake Sound.tones_waiting, COM1/COM2 on a fake char_waiting '
               '(attributes of the Session\'s own objects), all predicted by the model; the order of simultaneous '
               'entries is read from the frames the implementation pushed (the source iterates a set); '
               'Ctrl-Break, MERGE/LOAD/DELETE and multi-voice PLAY are outside the action alphabet']
    PARTIAL = None
    RULE = ('schedules over 14 traps (KEY 1,2,5,11,15,16, TIMER, PLAY, PEN, STRIG 0,2,6, COM 1,2): ON/OFF/STOP, '
            'ON..GOSUB n/0, KEY n definitions, occurrences (in a statement loop or while idle), queue lengths, '
            'GOSUB/RETURN/RETURN n, ON ERROR/ERROR/RESUME, END, GOTO, RUN, CHAIN, CLEAR, NEW, RENUM (moving a handler); '
            'quick: random schedules; thorough: additionally ALL schedules over a 10-letter alphabet on two KEY '
            'traps, up to length 4 after the set-up with both traps ON and up to length 3 with both OFF; '
            'non-trivial = at least one handler entered; distinct by hash of (schedule, observations)')
    histogram = None

    # ---- cases
    def corpus(self):
        S = [('gs', 1), ('gs', 2), ('onerr', 0)]
        c = [
            [],
            S + [('on', 1), ('start', 0), ('occ', 1), ('ret', 0), ('end', 0)],
            # remembered while STOPped, handled once after ON
            S + [('on', 1), ('start', 0), ('stop', 1), ('occ', 1), ('occ', 1), ('on', 1), ('ret', 0), ('occ', 2)],
            # lost while OFF
            S + [('start', 0), ('occ', 1), ('on', 1), ('off', 1), ('occ', 1), ('on', 1)],
            # no re-entry until RETURN; re-entry after ON inside the handler
            S + [('on', 1), ('start', 0), ('occ', 1), ('occ', 1), ('gosub', 0), ('ret', 0), ('ret', 0), ('ret', 0)],
            S + [('on', 1), ('start', 0), ('occ', 1), ('on', 1), ('occ', 1), ('ret', 0), ('occ', 1), ('ret', 0)],
            # suspended while the error handler runs
            S + [('on', 1), ('on', 2), ('start', 0), ('err', 0), ('occ', 1), ('occ', 2), ('res', 0), ('ret', 0),
                 ('ret', 0)],
            # END inside the error handler leaves events suspended
            S + [('on', 1), ('start', 0), ('err', 0), ('end', 0), ('start', 0), ('occ', 1), ('run', 0)],
            # occurrence in direct mode while ON is remembered; while idle it is lost
            S + [('on', 1), ('occ', 1), ('on', 2), ('occi', 2), ('start', 0), ('ret', 0)],
            # STOP occurrence, then OFF, then ON (the trigger survives OFF)
            S + [('on', 1), ('start', 0), ('stop', 1), ('occ', 1), ('off', 1), ('on', 1), ('ret', 0)],
            # two events at one boundary, nested returns, RETURN n
            S + [('on', 1), ('on', 2), ('start', 0), ('occ', 1), ('occ', 2), ('retto', 0), ('ret', 0), ('ret', 0)],
            # D38a: the timer period runs out while OFF: lost; TIMER ON before ON TIMER GOSUB
            [('gs', 21), ('start', 0), ('occ', 21), ('on', 21)],
            [('on', 21), ('gs', 21), ('start', 0)],
            [('gs', 21), ('start', 0), ('occ', 21), ('on', 21), ('ret', 0), ('occ', 21), ('stop', 21),
             ('occ', 21), ('on', 21)],
            # COM: level triggered, OFF does not switch off
            [('gs', 29), ('on', 29), ('start', 0), ('occ', 29), ('ret', 0), ('off', 29), ('ret', 0), ('con', 29),
             ('ret', 0)],
            [('gs', 23), ('gs', 24), ('on', 23), ('on', 24), ('start', 0), ('occ', 23), ('occ', 24), ('ret', 0),
             ('ret', 0), ('gs0', 23), ('occ', 23)],
            # errors: RETURN without GOSUB, RESUME without error, ON ERROR GOTO 0 inside the handler
            S + [('on', 1), ('start', 0), ('ret', 0), ('res', 0), ('occ', 1), ('start', 0), ('err', 0), ('onerr0', 0)],
            # direct-mode GOSUB / error / RESUME restore direct mode
            S + [('on', 1), ('gosub', 0), ('occ', 1), ('ret', 0), ('ret', 0), ('err', 0), ('res', 0)],
            # seed C38c: the error handler is interrupted by STOP and continued by CONT: it is still active
            # (RESUME still valid), so the trap must wait for RESUME
            S + [('on', 1), ('start', 0), ('err', 0), ('stopstmt', 0), ('cont', 0), ('occ', 1), ('res', 0),
                 ('ret', 0)],
            S + [('on', 1), ('start', 0), ('err', 0), ('occ', 1), ('stopstmt', 0), ('occ', 1), ('cont', 0),
                 ('gosub', 0), ('ret', 0), ('resto', 0), ('ret', 0)],
            # END in the error handler ends it (suspension stays: quirk), CONT / STOP outside handlers,
            # CONT with nothing to continue
            S + [('on', 1), ('cont', 0), ('start', 0), ('err', 0), ('end', 0), ('cont', 0), ('occ', 1), ('run', 0),
                 ('stopstmt', 0), ('gs', 1), ('on', 1), ('cont', 0), ('occ', 1), ('stopstmt', 0), ('cont', 0),
                 ('ret', 0)],
            # seed C38f: removing and redefining the trap routine (ON e GOSUB 0 / GOSUB n) changes neither
            # STOP, nor the implicit stop while the routine runs, nor a remembered occurrence
            S + [('on', 1), ('start', 0), ('stop', 1), ('gs0', 1), ('gs', 1), ('occ', 1), ('on', 1), ('ret', 0)],
            S + [('on', 1), ('start', 0), ('stop', 1), ('occ', 1), ('gs0', 1), ('gs', 1), ('on', 1), ('ret', 0)],
            S + [('on', 1), ('start', 0), ('occ', 1), ('gs0', 1), ('gs', 1), ('occ', 1), ('ret', 0), ('ret', 0)],
            # function, cursor and user-defined keys; the definition is forgotten by RUN
            [('gs', 5), ('gs', 11), ('gs', 15), ('gs', 16), ('on', 5), ('on', 11), ('on', 15), ('on', 16),
             ('start', 0), ('occ', 15), ('occ', 16), ('defkey', 15), ('occ', 15), ('occ', 16), ('ret', 0),
             ('defkey', 16), ('occ', 16), ('occ', 5), ('occ', 11), ('ret', 0), ('ret', 0), ('ret', 0),
             ('run', 0), ('gs', 15), ('on', 15), ('occ', 15)],
            # the other joystick buttons and the second serial port
            [('gs', 25), ('gs', 27), ('gs', 30), ('on', 25), ('on', 27), ('on', 30), ('start', 0), ('occ', 25),
             ('occ', 27), ('occ', 24), ('ret', 0), ('ret', 0), ('occ', 30), ('ret', 0), ('con', 30), ('ret', 0)],
            # PLAY(2): the queue drops below 2 while ON; while STOPped (remembered)
            [('gs', 22), ('on', 22), ('start', 0), ('playq', 3), ('playq', 1), ('ret', 0), ('playq', 4),
             ('stop', 22), ('playq', 0), ('on', 22), ('ret', 0)],
            # PLAY ON before ON PLAY(n) GOSUB: the event is "fewer than 1 note left" until n is defined; it
            # occurs while ON, is remembered, and is handled once the routine is defined (like a key press)
            [('playq', 2), ('on', 22), ('playq', 0), ('gs', 22), ('gosub', 0)],
            [('playq', 2), ('on', 22), ('start', 0), ('playq', 1), ('gs', 22), ('playq', 0), ('gs', 22)],
            # D38a: the queue drops while PLAY is OFF: lost
            [('gs', 22), ('on', 22), ('start', 0), ('playq', 3), ('off', 22), ('playq', 0), ('on', 22)],
            # RENUM / CLEAR / NEW / CHAIN inside a handler
            S + [('on', 1), ('start', 0), ('occ', 1), ('occ', 1), ('renum', 0), ('start', 0), ('ret', 0),
                 ('on', 1), ('ret', 0)],
            # RENUM moves the handler of STRIG(6) while that trap is OFF (remapped through BasicEvents.all)
            [('gs', 27), ('renum', 0), ('start', 0), ('on', 27), ('occ', 27), ('ret', 0), ('renum', 0),
             ('end', 0), ('renum', 0), ('start', 0), ('occ', 27), ('gs', 27), ('occ', 27), ('ret', 0)],
            S + [('on', 1), ('on', 2), ('start', 0), ('occ', 1), ('occ', 2), ('clear', 0), ('occ', 1), ('ret', 0),
                 ('gs', 1), ('on', 1), ('occ', 1), ('ret', 0)],
            S + [('on', 1), ('start', 0), ('occ', 1), ('occ', 1), ('new', 0), ('start', 0), ('gs', 1), ('on', 1),
                 ('occ', 1)],
            S + [('on', 1), ('start', 0), ('occ', 1), ('occ', 1), ('chain', 0), ('occ', 1), ('gs', 1), ('on', 1),
                 ('occ', 1), ('ret', 0)],
            S + [('on', 1), ('start', 0), ('err', 0), ('occ', 1), ('clear', 0), ('on', 1), ('gs', 1), ('occ', 1)],
        ]
        return [{'acts': [list(a) for a in x]} for x in c]

    def rand_schedule(self, rng, events, n):
        acts = []
        # set-up, mostly complete
        for e in events:
            if rng.random() < 0.9:
                acts.append(['gs', e])
        if rng.random() < 0.7:
            acts.append(['onerr', 0])
        for e in events:
            if rng.random() < 0.5:
                acts.append(['on', e])
            if e in USER_KEYS and rng.random() < 0.7:
                acts.append(['defkey', e])
        if rng.random() < 0.85:
            acts.append(['start', 0])
        rng.shuffle(acts) if rng.random() < 0.2 else None
        weights = [('occ', 30), ('occi', 3), ('on', 10), ('off', 6), ('stop', 8), ('ret', 14), ('gosub', 3),
                   ('retto', 2), ('err', 5), ('res', 5), ('resto', 1), ('end', 2), ('start', 4), ('run', 1),
                   ('gs', 3), ('gs0', 2), ('regs', 5), ('onerr', 1), ('onerr0', 1), ('con', 2), ('clear', 1), ('new', 1),
                   ('renum', 3), ('chain', 1), ('stopstmt', 4), ('cont', 5)]
        if PLAY in events:
            weights.append(('playq', 12))
        if any(e in USER_KEYS for e in events):
            weights.append(('defkey', 4))
        kinds = [k for k, w in weights for _ in range(w)]
        for _ in range(n):
            k = rng.choice(kinds)
            if k == 'regs':
                # remove the trap routine and define it again
                e = rng.choice(events)
                acts.append(['gs0', e])
                if rng.random() < 0.3:
                    acts.append(['occ', e])
                acts.append(['gs', e])
            elif k == 'playq':
                acts.append([k, rng.choice([0, 0, 1, 2, 3, 5])])
            elif k == 'defkey':
                acts.append([k, rng.choice([e for e in events if e in USER_KEYS])])
            elif k == 'con':
                acts.append([k, rng.choice(COMS)])
            elif k in EV_KINDS or k in ENV_KINDS:
                acts.append([k, rng.choice(events)])
            else:
                acts.append([k, 0])
        return acts

    def interrupted_handler_schedule(self, rng, events):
        """histories in which a handler (error handler or trap routine) is interrupted - STOP, END, RENUM,
        an untrapped error - and the program is re-entered - CONT, GOTO, RETURN, RESUME from direct mode -
        with occurrences before, during and after; random filler between the steps"""
        e = rng.choice(events)
        acts = [['gs', x] for x in events] + [['onerr', 0]] + [['on', x] for x in events] + [['start', 0]]
        filler = [['occ', e], ['occ', rng.choice(events)], ['stop', e], ['on', e], ['off', e], ['gosub', 0],
                  ['ret', 0], ['occi', e]]
        spine = [rng.choice([['err', 0], ['occ', e], ['err', 0]]),
                 rng.choice([['stopstmt', 0], ['stopstmt', 0], ['end', 0], ['renum', 0], ['err', 0]]),
                 rng.choice([['cont', 0], ['cont', 0], ['start', 0], ['ret', 0], ['res', 0]]),
                 ['occ', e],
                 rng.choice([['res', 0], ['resto', 0], ['ret', 0], ['stopstmt', 0]]),
                 rng.choice([['cont', 0], ['ret', 0], ['occ', e]])]
        for step in spine:
            for _ in range(rng.choice([0, 0, 0, 1, 2])):
                acts.append(list(rng.choice(filler)))
            if rng.random() < 0.2:
                acts += [['gs0', e], ['gs', e]]
            acts.append(list(step))
        return acts

    ALPHABET = [('occ', 1), ('occ', 2), ('on', 1), ('on', 2), ('off', 1), ('stop', 1), ('ret', 0), ('err', 0),
                ('res', 0), ('end', 0)]
    PREFIXES = [
        [('gs', 1), ('gs', 2), ('onerr', 0), ('start', 0)],
        [('gs', 1), ('gs', 2), ('onerr', 0), ('on', 1), ('on', 2), ('start', 0)],
    ]

    def gen_cases(self, n):
        rng = self.rng
        hist = {}
        out = []
        for i in range(n):
            r = rng.random()
            if r < 0.3:
                events = [1, 2]
            elif r < 0.45:
                events = [1, 2, 21]
            elif r < 0.6:
                events = [rng.choice([1, 5, 11, 15, 16]), PLAY]
            else:
                events = rng.sample(TRACKED, rng.randrange(1, 5))
            if i % 6 == 5:
                acts = self.interrupted_handler_schedule(rng, [x for x in events if x != PLAY][:2] or [1])
            else:
                acts = self.rand_schedule(rng, events, rng.choice([4, 8, 12, 16, 24]))
            out.append({'acts': acts})
        if self.tier == 'thorough':
            nex = 0
            for pi, pre in enumerate(self.PREFIXES):
                # both traps OFF at the start: words up to length 3; both ON: up to length 4
                for L in range(1, 4 if pi == 0 else 5):
                    for word in itertools.product(self.ALPHABET, repeat=L):
                        out.append({'acts': [list(a) for a in pre] + [list(a) for a in word]})
                        nex += 1
            hist['exhaustive_schedules'] = nex
        seen = set(core.sha(c) for c in self.corpus())
        uniq = []
        for c in out:
            h = core.sha(c)
            if h not in seen:
                seen.add(h)
                uniq.append(c)
        out = uniq
        for c in out:
            for k, e in c['acts']:
                hist[k] = hist.get(k, 0) + 1
        hist['schedules'] = len(out)
        self.histogram = hist
        return out

    # ---- implementation
    def _replay(self, case, fresh=False):
        cache = self.__dict__.setdefault('_runs', {})
        key = core.sha(case)
        if key not in cache or fresh:
            if len(cache) > 60000:
                cache.clear()
            pool = None if fresh else self.__dict__.setdefault('_pool', {})
            r = Replayer(case['acts']).run(pool)
            res = (r.obs, r.sched, r.log, ''.join(r.output), any(i[0] == 'enter' for i in r.log))
            if pool is not None:
                n = self.__dict__['_nrun'] = self.__dict__.get('_nrun', 0) + 1
                if mon_violation(r.log) or n % 40 == 0:
                    # failures are always reported from a fresh Session; and a sample of all cases is
                    # cross-checked against a fresh Session
                    r2 = Replayer(case['acts']).run(None)
                    res2 = (r2.obs, r2.sched, r2.log, ''.join(r2.output), any(i[0] == 'enter' for i in r2.log))
                    # (comparable only if the set BasicEvents.enabled was iterated in the same order)
                    if res2[1] == res[1] and res2[0] != res[0]:
                        raise RuntimeError('reused Session and fresh Session disagree on %r' % (case,))
                    res = res2
            cache[key] = res
        return cache[key]

    def impl(self, case):
        # one run per distinct schedule: observations, model schedule and log must come from the same
        # run (the order of simultaneous entries may differ between two runs of the same schedule)
        return list(self._replay(case)[0])

    def model_term(self, case):
        return 'replay_z %s' % core.zl(self._replay(case)[1])

    def nontrivial(self, case, out):
        return bool(self._replay(case)[4])

    def oracle(self, case, out):
        obs, sched, log, output, _ = self._replay(case)
        why = mon_violation(log)
        if why:
            return why
        # the PRINT markers in the program output are exactly the handler lines seen by the hook
        names = {e: EVENTS[e][0] for e in TRACKED}
        seen = [names[it[1]] for it in log if it[0] == 'mark']
        printed = [w for w in output.replace('>', '<').split('<')
                   if w in names.values()]
        if seen != printed:
            return 'handler markers printed %r differ from the handler lines executed %r' % (printed, seen)
        return None

    def describe(self, case):
        return case

CHECK = C38
