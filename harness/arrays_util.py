"""Shared helpers of the C12 (Arrays) and C11 (VarMem) harnesses: a reusable Session, statement runner with
BASIC error numbers, Coq literals, and an independent dict-based reference of array semantics."""
import struct

from vlib import core
from harness import common

SIGILS = '%!#$'
SIZE = {'%': 2, '!': 4, '#': 8, '$': 3}


def complete(name):
    """Memory.complete_name with the default DEFtype (single)."""
    return name if name[-1] in SIGILS else name + '!'


def cname(name):
    """Coq literal of a completed name."""
    return core.zl(list(complete(name).upper().encode('ascii')))


def czl(l):
    return core.zl(list(l))


class Sess(object):
    """One real Session reused between cases: every case starts with NEW (variables, arrays, strings,
    OPTION BASE and DEFtypes reset).  A fresh session is made after any host exception."""

    def __init__(self):
        self.s = None
        self.msg = None
        self.lines = 0

    def get(self):
        if self.s is None:
            self.s = common.new_session(peek_values={})
            from pcbasic.basic.base import error
            self.msg = {v.decode('ascii'): k for k, v in error.BASICError.messages.items()}
        return self.s

    def drop(self):
        self.lines = 0
        try:
            if self.s is not None:
                self.s.close()
        except Exception:
            pass
        self.s = None

    def fresh(self):
        s = self.get()
        out = s.execute('NEW')
        m = s._impl.memory
        if out or m.scalars._vars or m.arrays._dims or m.arrays._base is not None or m.arrays.current or \
                m.scalars.current or m.arrays._base_set_by_dim:
            self.drop()
            s = self.get()
        return s

    def run(self, stmt):
        """Execute a direct statement; return (error number or 0, output text)."""
        s = self.get()
        if self.lines > 12:
            # keep the cursor away from the bottom row: scrolling the text screen costs 14 ms
            stmt = 'LOCATE 1,1:' + stmt
            self.lines = 0
        try:
            out = s.execute(stmt)
        except Exception:
            self.drop()
            raise
        self.lines += 1 + len(out) // 60
        if not isinstance(out, str):
            out = out.decode('latin1')
        lines = [l.replace('\xa0', '').rstrip() for l in out.replace('\r\n', '\n').split('\n')]
        lines = [l for l in lines if l]
        for l in lines:
            if l in self.msg:
                return self.msg[l], out
        return 0, out


    def value(self, expr):
        """Evaluate an expression: (0, python value) or (error number, None)."""
        s = self.get()
        try:
            v = s.evaluate(expr)
        except Exception:
            self.drop()
            raise
        if v is not None:
            return 0, v
        self.lines += 2
        err, out = self.run('PRINT ' + expr)
        if not err:
            raise RuntimeError('evaluate(%r) failed but PRINT gives %r' % (expr, out))
        return err, None


def subs(idx):
    return '(' + ','.join(str(i) for i in idx) + ')'


def value_bytes(name, val):
    """Bytes of a value given as int (%), byte list (! #) or None for strings (opaque descriptor)."""
    t = complete(name)[-1]
    if t == '%':
        return list(struct.pack('<h', val))
    if t in '!#':
        return list(val)
    return None


def value_expr(name, val, empty_from=None, computed=False):
    """BASIC expression producing exactly that value."""
    t = complete(name)[-1]
    if t == '%':
        return str(val)
    if t == '!':
        return 'CVS(' + '+'.join('CHR$(%d)' % b for b in val) + ')'
    if t == '#':
        return 'CVD(' + '+'.join('CHR$(%d)' % b for b in val) + ')'
    # strings are COMPUTED so that they live in string space: a computed empty string carries the
    # address of the lowest live string (the case the collector must keep apart, seed C11b)
    if not computed:
        return '"' + val + '"'
    if val == '':
        # LEFT$(v$,0) of the string variable assigned last allocates nothing in between
        return 'LEFT$(%s,0)' % empty_from if empty_from else 'LEFT$("x",0)'
    k = max(1, len(val) // 2)
    return '"%s"+"%s"' % (val[:k], val[k:])


def rand_value(rng, name, counter):
    t = complete(name)[-1]
    if t == '%':
        return (counter * 7 + 1) % 32768 if rng.random() < 0.8 else rng.choice(common.INT16_POOL)
    if t == '!':
        return [(counter + 1) % 256, (counter // 256) % 256, rng.randrange(128), rng.choice([0, 1, 128, 129, 255])]
    if t == '#':
        return [(counter + 1) % 256, (counter // 256) % 256] + [rng.randrange(256) for _ in range(5)] + \
            [rng.choice([0, 1, 128, 129, 255])]
    return 'S%d' % counter


class RefArrays(object):
    """Independent reference for the array rules of the property text: shapes, OPTION BASE, values in a
    dict keyed by (name, subscript tuple).  Memory accounting (Out of memory) uses plain arithmetic."""

    def __init__(self):
        self.base = None
        self.bydim = False
        self.shapes = {}      # completed name -> tuple of upper bounds (insertion ordered)
        self.vals = {}        # (name, tuple) -> bytes
        self.used = 0

    @staticmethod
    def need(name, dims, base):
        n = 1
        for d in dims:
            n *= d + 1 - base
        return n * SIZE[name[-1]] + 1 + max(3, len(name)) + 3 + 2 * len(dims)

    def dim(self, name, dims, free):
        if not dims:
            return 0
        if name in self.shapes:
            return 10
        if any(d < 0 for d in dims):
            return 5
        if self.base is None:
            self.base, self.bydim = 0, True
        elif any(d < self.base for d in dims):
            return 9
        need = self.need(name, dims, self.base)
        if free - self.used <= need:
            return 7
        self.shapes[name] = tuple(dims)
        self.used += need
        return 0

    def erase(self, names):
        for name in names:
            if name not in self.shapes:
                return 5
            self.used -= self.need(name, self.shapes[name], self.base)
            del self.shapes[name]
            for k in [k for k in self.vals if k[0] == name]:
                del self.vals[k]
        if not self.shapes and self.bydim:
            self.base, self.bydim = None, False
        return 0

    def option_base(self, b):
        if self.base is not None and self.base != b:
            return 10
        self.base = b
        return 0

    def access(self, name, idx, free):
        """Error number of an element access (auto-dimensioning first)."""
        if name not in self.shapes:
            e = self.dim(name, [10] * len(idx), free)
            if e:
                return e
        dims = self.shapes[name]
        if len(idx) != len(dims):
            return 9
        for i, d in zip(idx, dims):
            if i < 0:
                return 5
            if i < self.base or i > d:
                return 9
        return 0

    def set(self, name, idx, b, free):
        e = self.access(name, idx, free)
        if not e:
            self.vals[(name, tuple(idx))] = list(b)
        return e

    def get(self, name, idx, free):
        e = self.access(name, idx, free)
        if e:
            return e, None
        return 0, self.vals.get((name, tuple(idx)), [0] * SIZE[name[-1]])

    def clear(self):
        self.__init__()
