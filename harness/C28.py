"""C28 - DOS file names map to host files consistently.

Shares the host monitor, sandbox and statement runner of harness/C27.py (same model: model/Paths.v).
"""
import os
import re

from vlib import core
from harness import common
from harness import C27 as base
from harness.C27 import b, u, zl, strs

ALLOWED = set(b'ABCDEFGHIJKLMNOPQRSTUVWXYZabcdefghijklmnopqrstuvwxyz0123456789' + b" !#$%&'()-@^_`{}~")
WS = b' \t\n\r\x0b\x0c'


# ---- an independent reading of the naming rules (reference for the oracle; not the Coq model) ----
def ref_split(name):
    i = name.find(b'.')
    return (name, b'') if i < 0 else (name[:i], name[i + 1:])


def ref_norm(name):
    if name in (b'.', b'..'):
        return name
    t, e = ref_split(bytes(c - 32 if 97 <= c <= 122 else c for c in name))
    return t[:8] + (b'.' + e[:3] if e[:3] else b'')


def ref_legal(name):
    if name in (b'.', b'..'):
        return True
    t, e = ref_split(name)
    return (len(t) <= 8 and len(e) <= 3 and not (t[:1] and t[:1] in WS) and not (t[-1:] and t[-1:] in WS)
            and not (e[:1] and e[:1] in WS) and not (e[-1:] and e[-1:] in WS)
            and all(c in ALLOWED for c in t + e))


def ref_wild(mask, name):
    """? = one character, * = any run (never a newline), case-insensitive; plain recursion."""
    mask, name = mask.upper(), name.upper()

    def go(i, j):
        if i == len(mask):
            return j == len(name)
        c = mask[i]
        if c == 42:
            return go(i + 1, j) or (j < len(name) and name[j] != 10 and go(i, j + 1))
        if j == len(name):
            return False
        if c == 63:
            return name[j] != 10 and go(i + 1, j + 1)
        return name[j] == c and go(i + 1, j + 1)
    return go(0, 0)


def clean_legal(name):
    """a legal 8.3 name in the narrow sense of the property: non-empty trunk, no blanks at the ends."""
    name = bytes(name)
    t, e = ref_split(name)
    return (ref_legal(name) and name not in (b'.', b'..') and len(t) >= 1 and name[-1:] != b'.'
            and name[:1] not in WS and name[-1:] not in WS and b'.' not in e)


NAME_CHARS = b'ABCXYZabcxyz0189' + b" !#$%&'()-@^_`{}~"
BAD_CHARS = b'*?+,;=[]<>|"/\\:' + bytes([0, 9, 127, 128, 255, 10])


def gen_name(rng, legal_bias=0.7):
    r = rng.random()
    if r < legal_bias:
        t = bytes(rng.choice(NAME_CHARS) for _ in range(rng.choice([1, 1, 2, 3, 5, 7, 8, 8])))
        e = bytes(rng.choice(NAME_CHARS) for _ in range(rng.choice([0, 0, 1, 2, 3, 3])))
        n = t + (b'.' + e if (e or rng.random() < 0.15) else b'')
    else:
        ln = rng.choice([0, 1, 2, 3, 8, 9, 10, 12, 13, 14, 20])
        n = bytes(rng.choice(NAME_CHARS + b'....  ' + BAD_CHARS) for _ in range(ln))
    q = rng.random()
    if q < 0.08:
        n += rng.choice([b' ', b'.', b'  ', b' .', b'. ', b'..'])
    elif q < 0.12:
        n = rng.choice([b' ', b'.']) + n
    elif q < 0.16 and n:
        i = rng.randrange(len(n) + 1)
        n = n[:i] + b'.' + n[i:]
    return n


def recase(rng, n):
    return bytes((c ^ 32) if (65 <= c <= 90 or 97 <= c <= 122) and rng.random() < 0.5 else c for c in n)


CONSIST_POOL = ['REPORT', 'report', 'Data', 'NOTES', 'X', 'A.TXT', 'b.bas', 'Mixed.Dat', 'LONGNAME', 'AB.C', 'README',
                'prog.bas', 'Z9', 'DATA.1']


def gen_consist(rng):
    """one directory, one spelling (name or mask), OPEN + FILES under that spelling, then KILL or NAME under it."""
    files = []
    for x in rng.sample(CONSIST_POOL, rng.choice([1, 1, 2, 3])):
        if all(ref_norm(x.encode()) != ref_norm(y.encode()) for y in files):
            files.append(x)
    f = files[0].encode()
    t, e = ref_split(f)
    q = rng.random()
    if b'.' not in f:
        # extension-less file: trailing-dot and dotted-wildcard spellings
        sp = rng.choice([f + b'.', recase(rng, f) + b'.', f + b'.*', b'*.*', t[:1] + b'*.', b'*.', f, recase(rng, f),
                         t[:1] + b'*.*', b'?' * len(t) + b'.', b'?' * len(t) + b'.*', b'*'])
    else:
        sp = rng.choice([f, recase(rng, f), t + b'.*', b'*.' + e, b'*.*', t[:1] + b'*.' + e[:1] + b'*', b'*',
                         b'?' * len(t) + b'.' + b'?' * len(e), recase(rng, t) + b'.???'])
    if q < 0.2:
        sp = rng.choice([b'C:', b'\\', b'c:\\', b'.\\']) + sp
    return {'k': 'consist', 'files': files, 'sp': list(sp), 'op': rng.choice(['KILL', 'KILL', 'NAME'])}


class C28(core.Check):
    ID = 'C28'
    GEN = ['gen_dosnames']
    PROPS = 'props/C28.v'
    MODEL_IMPORTS = ['gen.Gen_dosnames', 'model.DosNames', 'model.Paths', 'model.PathsNt', 'model.PathsLocks']
    QUICK_CASES = 900
    THOROUGH_CASES = 9000
    TRUSTED = [
        'hand models model/DosNames.v (dos_splitext, dos_normalise_name, dos_is_legal_name, dos_name_matches as a '
        'regexp-free matcher, _get_dos_name_defext, _get_dos_display_name, _filter_names) and model/Paths.v '
        '(_get_native_name / dos_to_native_name lookup order) tied by correspondence; ALLOWABLE_CHARS, the default '
        'codepage and the error numbers are regenerated from the repo on every run',
        'FS contract for the found-again / FILES clauses: case-sensitive host, os.listdir shows the files, '
        'creating a file adds exactly that name; Windows short names and DBCS codepages are outside the model',
    ]
    RULE = ('fn cases: random legal/illegal names (lengths 0..20, all allowable characters, dots in every position, '
            'trailing dots/blanks) through the pure name functions and the wildcard matcher; lookup cases: '
            '_get_native_name on a random directory; hist cases: create/open/list/rename/kill histories with '
            'random letter case through real statements on a sandbox mount (model = same traces as C27). '
            'non-trivial = legal name / successful lookup / at least one successful statement; distinct by hash')
    PARTIAL = ('dos_name_matches: the regular expression the code builds is modelled (syntax + pattern text, the text '
               'compared with the argument of re.compile) and PROVED equivalent to the ?/* matcher under the standard '
               'regexp semantics; that CPython\'s re implements that semantics for these patterns is trusted (and '
               'tested by correspondence). FILES entries of names containing U+212A / U+1FEF are legal entries that '
               'do not open the file (C28_kelvin_entry): excluded from C28_entry_legal_iff by cp_clean.')
    histogram = None

    def __init__(self, tier, seed):
        core.Check.__init__(self, tier, seed)
        self._runs = {}
        self._dev = None

    # ---- cases
    def corpus(self):
        def fn(n, m=b'*.*'):
            return {'k': 'fn', 'n': list(n), 'm': list(m), 'h': [95 if c in (0, 47) else c for c in base.u(n.decode('cp437'))]}
        return [
            fn(b''), fn(b'.'), fn(b'..'), fn(b'...'), fn(b'A'), fn(b'a.b'), fn(b'LongFileName.text', b'LONG*'),
            fn(b'A.B.C', b'?.?.?'), fn(b'ABCDEFGH.IJK', b'????????.???'), fn(b'ABCDEFGHI.J'), fn(b' A'), fn(b'A '),
            fn(b'A .B'), fn(b'A. B'), fn(b'a+b', b'A+B'), fn(b'a\nb', b'a?b'), fn(b'a\nb', b'a*'), fn(b'x', b''),
            fn(b'\xe1.\x81', b'*'), fn(b'trail.', b'TRAIL'), fn(b'.hid', b'.*'), fn(b'A[1]', b'a[1]'),
            {'k': 'fn', 'n': list(b'x'), 'm': list(b'*'), 'h': [0x4e2d, 46, 116]},
            {'k': 'fn', 'n': list(b'x'), 'm': list(b'*'), 'h': base.u('LongFileName.LongExt')},
            {'k': 'lookup', 'names': ['abc.txt', 'ABC.TXT', 'Long Name.x'], 'dirs': ['SUB'], 'n': list(b'Abc.Txt'),
             'ext': 0, 'isdir': 0, 'create': 0},
            {'k': 'lookup', 'names': ['abc.txt', 'abC.txt'], 'dirs': [], 'n': list(b'ABC.TXT'), 'ext': 0, 'isdir': 0,
             'create': 1},
            {'k': 'lookup', 'names': ['prog.bas'], 'dirs': ['prog'], 'n': list(b'PROG'), 'ext': 1, 'isdir': 0, 'create': 0},
            {'k': 'lookup', 'names': ['name'], 'dirs': [], 'n': list(b'NAME.'), 'ext': 1, 'isdir': 0, 'create': 0},
            {'k': 'lookup', 'names': [], 'dirs': ['sub'], 'n': list(b'SUB '), 'ext': 0, 'isdir': 1, 'create': 0},
            {'k': 'hist', 'n1': list(b'abc.txt'), 'n2': list(b'New.Dat'), 'c': [list(b'ABC.TXT'), list(b'aBc.TxT'),
                                                                                   list(b'NEW.dat'), list(b'new.DAT')],
             'tree': [], 'prog': 0},
            {'k': 'hist', 'n1': list(b'prog'), 'n2': list(b'other'), 'c': [list(b'PROG'), list(b'Prog.Bas'),
                                                                            list(b'OTHER.BAS'), list(b'other.bas')],
             'tree': [], 'prog': 1},
            {'k': 'consist', 'files': ['REPORT'], 'sp': list(b'REPORT.'), 'op': 'KILL'},
            {'k': 'consist', 'files': ['REPORT', 'A.TXT'], 'sp': list(b'*.*'), 'op': 'KILL'},
            {'k': 'consist', 'files': ['report'], 'sp': list(b'Report.*'), 'op': 'KILL'},
            {'k': 'consist', 'files': ['REPORT'], 'sp': list(b'report.'), 'op': 'NAME'},
            {'k': 'consist', 'files': ['A.TXT', 'X'], 'sp': list(b'*.'), 'op': 'KILL'},
            {'k': 'hist', 'n1': list(b'a*b'), 'n2': list(b'toolongname.x'), 'c': [list(b'A*B'), list(b'a*b'), list(b'X'),
                                                                                  list(b'x')], 'tree': [], 'prog': 0},
        ]

    def gen_cases(self, n):
        rng = self.rng
        hist = {'fn': 0, 'lookup': 0, 'hist': 0, 'legal': 0, 'illegal': 0}
        out = []
        for i in range(n):
            r = i % 10
            if r < 5:
                nm = gen_name(rng)
                q = rng.random()
                if q < 0.4:
                    m = bytes(rng.choice([42, 63, c]) for c in recase(rng, nm))[:rng.randrange(1, 14)]
                elif q < 0.7:
                    m = bytes(rng.choice(b'*?*?ABab.. ') for _ in range(rng.randrange(0, 6)))
                else:
                    m = recase(rng, nm)
                hn = rng.choice([nm.decode('cp437'), nm.decode('cp437') + 'x' * rng.randrange(6),
                                 'été.txt', 'Mixed Case.Name', 'UPPER.EXT', 'a.b.c', '.x', 'x.',
                                 'verylongfilename', 'a.longext'])
                # (a host file name cannot contain '/' or NUL)
                out.append({'k': 'fn', 'n': list(nm), 'm': list(m), 'h': [95 if c in (0, 47) else c for c in base.u(hn)]})
                hist['fn'] += 1
                hist['legal' if ref_legal(nm) else 'illegal'] += 1
            elif r < 7:
                pool = [gen_name(rng, 0.9) for _ in range(rng.randrange(0, 5))]
                names, dirs = [], []
                for x in pool:
                    try:
                        s = x.decode('cp437')
                    except Exception:
                        continue
                    if not s or '/' in s or '\0' in s or s in ('.', '..'):
                        continue
                    (dirs if rng.random() < 0.3 else names).append(s)
                if pool and rng.random() < 0.8:
                    target = recase(rng, rng.choice(pool))
                    if rng.random() < 0.2:
                        target += rng.choice([b'.', b' ', b'.x'])
                else:
                    target = gen_name(rng)
                names = [x for i, x in enumerate(names) if x not in names[:i] and x not in dirs]
                dirs = [x for i, x in enumerate(dirs) if x not in dirs[:i]]
                out.append({'k': 'lookup', 'names': names, 'dirs': dirs, 'n': list(target), 'ext': rng.randrange(2),
                            'isdir': int(rng.random() < 0.3), 'create': rng.randrange(2)})
                hist['lookup'] += 1
            elif r == 9 or (r == 8 and i % 20 == 8):
                out.append(gen_consist(rng))
                hist['consist'] = hist.get('consist', 0) + 1
            else:
                n1, n2 = gen_name(rng, 0.85), gen_name(rng, 0.85)
                tree = []
                if rng.random() < 0.3:
                    other = gen_name(rng, 1.0)
                    try:
                        s = other.decode('cp437')
                        if s and '/' not in s and s not in ('.', '..'):
                            tree.append([67, [s], False])
                    except Exception:
                        pass
                out.append({'k': 'hist', 'n1': list(n1), 'n2': list(n2), 'tree': tree, 'prog': rng.randrange(2),
                            'c': [list(recase(rng, n1)), list(recase(rng, n1)), list(recase(rng, n2)),
                                  list(recase(rng, n2))]})
                hist['hist'] += 1
        self.histogram = hist
        return out

    # ---- implementation
    def _device(self):
        if self._dev is None:
            base.Monitor.get()
            s = common.new_session(devices={'Z': None})
            s.execute('REM')
            self._session = s
            self._dev = s._impl.files._devices[b'Z:']
            self._disk = base.Monitor.get().disk
        return self._dev

    def hist_steps(self, case):
        """probe (open before the file exists), create, reopen, list, rename, reopen, list, kill, reopen (fails),
        re-create under another capitalisation, probe the first name again, rename back: every name is used
        again after an attempt on it FAILED, so nothing may be left behind by a failed statement."""
        n1, n2 = case['n1'], case['n2']
        c = case['c']
        if case['prog']:
            def ext(x, e):
                return x + ([] if 46 in x else list(e))
            return [['LOAD', c[0]], ['SAVE', n1], ['LOAD', c[0]], ['FILES0', []], ['NAME', ext(c[1], b'.BAS'), ext(n2, b'.bas')],
                    ['MERGE', c[2]], ['FILES', ext(c[3], b'.*')], ['KILL', ext(c[3], b'.BaS')], ['LOAD', n2],
                    ['SAVE', c[2]], ['LOAD', c[1]], ['NAME', ext(c[3], b'.bas'), ext(c[0], b'.BAS')]]
        return [['OPENI', c[0]], ['OPENO', n1], ['OPENI', c[0]], ['FILES0', []], ['NAME', c[1], n2], ['OPENA', c[2]],
                ['FILES', c[3]], ['KILL', c[3]], ['OPENI', n2], ['OPENO', c[2]], ['OPENI', c[1]], ['NAME', c[3], c[0]]]

    def _hist(self, case):
        key = core.sha(case)
        if key not in self._runs:
            if case['k'] == 'consist':
                sp = list(case['sp'])
                last = ['NAME', sp, list(b'ZZNEW.TMP')] if case['op'] == 'NAME' else ['KILL', sp]
                hc = {'tree': [[67, [x], False] for x in case['files']],
                      'steps': [['OPENI', sp], ['FILES', sp], last]}
            else:
                hc = {'tree': case['tree'], 'steps': self.hist_steps(case)}
            self._runs[key] = (hc,) + tuple(base.run_history(hc))
        return self._runs[key]

    def impl(self, case):
        k = case['k']
        if k in ('hist', 'consist'):
            # statuses, host traces, listings, working directories; then the lock table of the drive after every
            # statement (files still open) and after the CLOSE that follows it
            r = self._hist(case)
            return r[1] + [x for d in r[4] for x in d['locks']]
        dev = self._device()
        disk = self._disk
        if k == 'fn':
            n, m = bytes(case['n']), bytes(case['m'])
            t, e = disk.dos_splitext(n)
            norm = disk.dos_normalise_name(n)
            out = base.enc_strs([list(t), list(e), list(norm)])
            out.append(int(disk.dos_is_legal_name(n)))
            # the text handed to re.compile by dos_name_matches (the `re` name of devices/disk.py is proxied)
            pats = []
            real_re = disk.re

            class ReProxy(object):
                def __getattr__(self, name):
                    return getattr(real_re, name)

                def compile(self, pattern, *a, **k):
                    pats.append(bytes(pattern))
                    return real_re.compile(pattern, *a, **k)
            disk.re = ReProxy()
            try:
                matched = disk.dos_name_matches(n, m)
            finally:
                disk.re = real_re
            out.append(int(matched))
            out += base.enc_strs([list(x) for x in pats])
            tm, em = disk.dos_splitext(m)
            out.append(int(disk.dos_name_matches(t, tm) and disk.dos_name_matches(e, em)))
            out += base.enc_strs([list(dev._get_dos_name_defext(n, b'BAS')), list(dev._get_dos_name_defext(n, b''))])
            hn = ''.join(chr(c) for c in case['h'])
            d = dev._get_dos_display_name('/nonexistent-c28', hn)
            out += base.enc_strs([list(d)])
            fl = dev._filter_names('/nonexistent-c28', [hn, 'UPPER.EXT', 'lower.e'], m)
            out += base.enc_strs([list(x) + [0] + list(y) for x, y in fl])
            return out
        # lookup
        d = common.tmpdir('c28')
        try:
            for x in case['dirs']:
                os.mkdir(os.path.join(d, x))
            for x in case['names']:
                with open(os.path.join(d, x), 'wb') as f:
                    f.write(b'x')
            listing = os.listdir(d)
            self._runs[core.sha(case)] = (listing, [int(os.path.isdir(os.path.join(d, x))) for x in listing])
            from pcbasic.basic.base import error
            try:
                r = dev._get_native_name(d, bytes(case['n']), b'BAS' if case['ext'] else b'', bool(case['isdir']),
                                         bool(case['create']))
                return [0, len(r)] + base.u(r)
            except error.BASICError as e:
                return [1, e.err]
            except Exception as e:
                return common.canon_exc(e)
        finally:
            common.rmtree(d)

    # ---- model
    def model_term(self, case):
        k = case['k']
        if k in ('hist', 'consist'):
            hc, out, snaps, viol, details = self._hist(case)
            return base.history_term(hc, snaps, with_locks=True)
        if k == 'fn':
            n, m, h = zl(case['n']), zl(case['m']), zl(case['h'])
            return ('(let n := %s in let m := %s in let h := %s in '
                    'let te := dos_splitext n in '
                    'enc_strs [fst te; snd te; dos_normalise_name n] ++ [enc_bool (dos_is_legal_name n); '
                    'enc_bool (dos_name_matches n m)] ++ enc_strs [mask_pattern m] ++ [enc_bool (dos_mask_matches m te)] ++ '
                    'enc_strs [defext_name n s_BAS; defext_name n []] ++ enc_strs [display_name h] ++ '
                    'enc_strs (map (fun xy => fst xy ++ 0 :: snd xy) (filter_names [h; [85;80;80;69;82;46;69;88;84]; [108;111;119;101;114;46;101]] m)))'
                    % (n, m, h))
        listing, isdirs = self._runs[core.sha(case)]
        snap = '[(90, [], true, %s)%s]' % (
            strs(u(x) for x in listing),
            ''.join(';(90, [%s], %s, [])' % (zl(u(x)), 'true' if isd else 'false')
                    for x, isd in zip(listing, isdirs)))
        return 'enc_mres (get_native_name (sn_host %s) (90, []) %s %s %s %s)' % (
            snap, zl(case['n']), 's_BAS' if case['ext'] else '[]', 'true' if case['isdir'] else 'false',
            'true' if case['create'] else 'false')

    # ---- oracle: direct reading of the property on the observed behaviour
    def oracle(self, case, out):
        k = case['k']
        if k == 'fn':
            n, m = bytes(case['n']), bytes(case['m'])
            disk = self._disk
            norm = bytes(disk.dos_normalise_name(n))
            if bytes(disk.dos_normalise_name(norm)) != norm:
                return 'normalisation is not idempotent on %r' % n
            if bytes(disk.dos_normalise_name(n.swapcase())) != norm:
                return 'normalisation depends on letter case for %r' % n
            if norm != ref_norm(n):
                return 'normalised name %r is not the upper-case 8.3 form %r' % (norm, ref_norm(n))
            if bool(disk.dos_is_legal_name(n)) != ref_legal(n):
                return 'legality of %r differs from the 8.3 rules' % n
            if bool(disk.dos_name_matches(n, m)) != ref_wild(m, n):
                return 'wildcard match of %r against %r differs from ?/* semantics' % (n, m)
            de = bytes(self._dev._get_dos_name_defext(n, b'BAS'))
            st = n.rstrip()
            if de != (st if b'.' in st else st + b'.BAS'):
                return 'default extension rule violated for %r' % n
            return None
        if k == 'lookup':
            n = bytes(case['n'])
            # a host file whose name is a legal DOS name must be found under every capitalisation of that name
            present = (case['dirs'] if case['isdir'] else case['names'])
            eff = n.rstrip()
            if case['ext'] and b'.' not in eff:
                eff += b'.BAS'
            if eff.endswith(b'.') and b'.' not in eff[:-1]:
                eff = eff[:-1]
            if n == n.lstrip() and eff not in (b'', b'.', b'..') and ref_legal(ref_norm(eff)):
                cands = [x for x in present if x.isascii() and ref_legal(x.encode()) and
                         ref_norm(x.encode()) == ref_norm(eff)]
                if cands and out[0] != 0:
                    return 'host file %r not found under the name %r (result %r)' % (cands[0], n, out)
                if cands and out[0] == 0:
                    r = ''.join(chr(c) for c in out[2:])
                    if r not in present:
                        return 'lookup of %r returned the new name %r although %r exists' % (n, r, cands[0])
            if out[0] == 0:
                r = ''.join(chr(c) for c in out[2:])
                present = (case['dirs'] if case['isdir'] else case['names'])
                if r not in present:
                    # a new name: must be the upper-case 8.3 form
                    st = n.rstrip()
                    if case['ext'] and b'.' not in st:
                        st += b'.BAS'
                    if st.endswith(b'.') and b'.' not in st[:-1]:
                        st = st[:-1]
                    if not case['create']:
                        return 'lookup without create returned a name that does not exist: %r' % r
                    if r.encode('ascii', 'replace') != ref_norm(st) or not ref_legal(ref_norm(st)):
                        return 'created name %r is not the legal upper-case 8.3 form of %r' % (r, n)
            return None
        if k == 'consist':
            return self.oracle_consist(case)
        # hist
        hc, o, snaps, viol, details = self._hist(case)
        if viol:
            return viol[0]
        n1, n2 = bytes(case['n1']), bytes(case['n2'])
        if len(case['c']) != 4 or any(bytes(x).upper() != y.upper() for x, y in zip(case['c'], (n1, n1, n2, n2))):
            return None     # not a well-formed case (the variants must be re-capitalisations of the names)
        # the effective names: trailing blanks are ignored, then the default extension is applied
        e1, e2 = n1.rstrip(), n2.rstrip()
        if case['prog']:
            f1 = e1 if b'.' in e1 else e1 + b'.BAS'
            f2 = e2 if b'.' in e2 else e2 + b'.bas'
        else:
            f1, f2 = e1, e2
        clean = (n1 == n1.strip() and n2 == n2.strip() and clean_legal(f1) and clean_legal(f2)
                 and ref_norm(f1) != ref_norm(f2))
        if case['tree'] or not clean:
            # illegal names: creating must fail with Bad file name (64) unless rejected outright
            g1 = f1[:-1] if (f1.endswith(b'.') and b'.' not in f1[:-1]) else f1
            if not case['tree'] and n1 == n1.lstrip() and not ref_legal(ref_norm(g1)):
                st = details[1]['status']
                if st[0] == 0:
                    return 'file created under the illegal name %r' % f1
                if st not in ([1, 64], [1, 53], [1, 52], [1, 76], [1, 75], [1, 68]):
                    return 'illegal name %r gave %r, not Bad file name' % (f1, st)
            return None
        h1, h2 = ref_norm(f1).decode('ascii'), ref_norm(f2).decode('ascii')

        def files_after(i):
            return sorted(e[1][0] for e in details[i]['after'] if e[0] == 67 and len(e[1]) == 1 and not e[2])

        def opened(i):
            ops = [x for x in details[i]['ops'] if x[0] == 5 and not x[3]]
            return ops[-1][2][0][1] if ops else None
        if len(details) != 12:
            return None
        if details[0]['status'] != [1, 53] or files_after(0) != []:
            return 'opening %r before it exists gave %r' % (bytes(case['c'][0]), details[0]['status'])
        if details[1]['status'] != [0, 0] or files_after(1) != [h1]:
            return ('creating %r (after a failed attempt to open %r): status %r, host files %r (expected [%r])'
                    % (f1, bytes(case['c'][0]), details[1]['status'], files_after(1), h1))
        if details[2]['status'] != [0, 0] or opened(2) != [h1]:
            return 'opening %r after creating %r did not open %r' % (bytes(case['c'][0]), f1, h1)
        t, e = (h1.split('.', 1) + [''])[:2]
        entry = (t.ljust(8) + ('.' if e else ' ') + e.ljust(3) + '     ').encode('ascii')
        if entry not in details[3]['lines']:
            return 'FILES does not list %r as %r' % (h1, entry)
        if details[4]['status'] != [0, 0] or files_after(4) != [h2]:
            return 'NAME %r AS %r: status %r, host files %r' % (bytes(case['c'][1]), f2, details[4]['status'], files_after(4))
        if details[5]['status'] != [0, 0] or opened(5) != [h2]:
            return 'opening %r after renaming to %r did not open %r' % (bytes(case['c'][2]), f2, h2)
        if details[6]['status'] != [0, 0] or len(details[6]['lines']) != 1:
            return 'FILES %r does not list exactly the renamed file' % bytes(case['c'][3])
        if details[7]['status'] != [0, 0] or files_after(7) != []:
            return 'KILL %r did not remove %r' % (bytes(case['c'][3]), h2)
        if details[8]['status'] != [1, 53]:
            return 'opening the killed file gave %r' % details[8]['status']
        if details[9]['status'] != [0, 0] or files_after(9) != [h2]:
            return ('creating %r again after KILL and a failed open: status %r, host files %r (expected [%r])'
                    % (bytes(case['c'][2]), details[9]['status'], files_after(9), h2))
        if details[10]['status'] != [1, 53]:
            return 'opening the renamed-away name %r gave %r' % (bytes(case['c'][1]), details[10]['status'])
        if details[11]['status'] != [0, 0] or files_after(11) != [h1]:
            return ('NAME %r AS %r after a failed open of the target name: status %r, host files %r (expected [%r])'
                    % (bytes(case['c'][3]), bytes(case['c'][0]), details[11]['status'], files_after(11), h1))
        return None

    def oracle_consist(self, case):
        """A file that OPEN opens / FILES shows under a spelling is found by KILL and NAME under the same spelling,
        and the host file is gone afterwards.  Everything is read off the implementation's observed behaviour."""
        hc, o, snaps, viol, details = self._hist(case)
        if viol:
            return viol[0]
        if len(details) != 3:
            return None
        sp = bytes(case['sp'])
        mask = re.split(br'[\\:]', sp)[-1]
        if mask in (b'', b'.', b'..') or mask != mask.strip() or b'/' in sp:
            return None      # FILES defaults an empty mask to *.*, lists . for . and ..; blanks: see design notes

        def present(i):
            return set(e[1][0] for e in details[i]['after'] if e[0] == 67 and len(e[1]) == 1 and not e[2])
        before = present(0)
        # host files with a legal DOS name that no other file of the directory shares
        plain = [f for f in before if f.isascii() and ref_legal(f.encode()) and not f.startswith('.') and
                 sum(1 for g in before if g.isascii() and ref_norm(g.encode()) == ref_norm(f.encode())) == 1]
        opened = set()
        if details[0]['status'] == [0, 0]:
            ops = [x for x in details[0]['ops'] if x[0] == 5 and not x[3]]
            if ops and ops[-1][2][0][0] == 67 and len(ops[-1][2][0][1]) == 1 and ops[-1][2][0][1][0] in before:
                opened.add(ops[-1][2][0][1][0])
        shown = set()
        if details[1]['status'] == [0, 0]:
            for f in plain:
                t, e = ref_split(ref_norm(f.encode()))
                entry = t.ljust(8) + (b'.' if e or not t else b' ') + e.ljust(3) + b'     '
                if entry in details[1]['lines']:
                    shown.add(f)
        st = details[2]['status']
        after = present(2)
        if case['op'] == 'KILL':
            targets = (opened & set(plain)) | shown
            if targets and st != [0, 0]:
                return ('KILL %r gave %r although %s under the same spelling' % (
                    sp, st, ' and '.join(['OPEN opened %r' % sorted(opened)] * bool(opened) +
                                         ['FILES showed %r' % sorted(shown)] * bool(shown))))
            left = sorted(targets & after)
            if left:
                return 'KILL %r left %r on the host although OPEN/FILES found it under the same spelling' % (sp, left)
        else:
            if opened and st != [0, 0]:
                return 'NAME %r AS "ZZNEW.TMP" gave %r although OPEN %r opened %r' % (sp, st, sp, sorted(opened))
            if opened and st == [0, 0] and ((opened & after) or 'ZZNEW.TMP' not in after):
                return 'NAME %r AS "ZZNEW.TMP": host files afterwards %r' % (sp, sorted(after))
        return None

    def shrink_candidates(self, case):
        """hist cases: remove the same position from a name and from its two re-capitalised variants."""
        if case.get('k') != 'hist':
            for d in core.Check.shrink_candidates(self, case):
                yield d
            return
        if case['tree']:
            d = dict(case)
            d['tree'] = []
            yield d
        for key, idx in (('n1', (0, 1)), ('n2', (2, 3))):
            for i in range(len(case[key])):
                d = dict(case)
                d[key] = case[key][:i] + case[key][i + 1:]
                d['c'] = [(x[:i] + x[i + 1:]) if j in idx else list(x) for j, x in enumerate(case['c'])]
                yield d

    def nontrivial(self, case, out):
        k = case['k']
        if k == 'fn':
            return len(case['n']) > 0
        if k == 'lookup':
            return True
        return any(d['status'] == [0, 0] for d in self._hist(case)[4])  # hist, consist


CHECK = C28
