"""C33 - DRAW moves the pen exactly as its commands specify.

Cases are structured: concrete-syntax tokens (the printer grammar of theories/model/Draw.v `ccmd`) for the DRAW
strings and for the string variables used by X, plus a malformed stream of raw strings.  The strings are
rendered by `render` when the case is run, so every shrunk case stays self-consistent.

implementation adapter: a real Session (video=vga) in SCREEN 1/2/7/8/9 (or 0), `DRAW Z9$` statements with
Graphics._draw_line wrapped to record its calls; after every statement: error number, _draw_current,
_last_point, scale, angle, colour, POINT(0), POINT(1), recorded calls.
model: draw_strings (parse + draw) from the Graphics state observed before each group of DRAW statements.
oracle (no Coq): a reference interpreter of the *tokens* (not of the text) gives the expected pen, segments,
scale, colour and error; POINT(0)/POINT(1) must be the pen; the pixel buffer must equal that of a second
Session in which every expected segment is drawn with a LINE statement.
"""
import logging
import struct

from vlib import core
from harness import common

RESERVED = 'Z9$'          # the variable that carries the DRAW string
MODES = {0: (0, 0, 0), 1: (320, 200, 4), 2: (640, 200, 2), 7: (320, 200, 16), 8: (640, 200, 16), 9: (640, 350, 16)}
UNIT = {'U': (0, -1), 'D': (0, 1), 'L': (-1, 0), 'R': (1, 0), 'E': (1, -1), 'F': (1, 1), 'G': (-1, 1), 'H': (-1, -1)}
DEPTH = 4


class ExcludedByModel(Exception):
    """Raised inside the implementation where the model's domain ends (rotations that use floats)."""


class RefError(Exception):
    def __init__(self, err):
        Exception.__init__(self, err)
        self.err = err


class RefUnknown(Exception):
    """The reference interpreter cannot know the meaning (raw text involved)."""


# ---------------------------------------------------------------------------------------------------
# rendering of concrete tokens (the harness printer)

def r_num(n):
    if n[0] == 'lit':
        _, pre, sg, ds = n
        return ' ' * pre + sg + ''.join(str(d) + ' ' * g for d, g in ds)
    _, pre, sg, b1, name, b2 = n
    return ' ' * pre + sg + '=' + ' ' * b1 + name + ' ' * b2 + ';'


def r_letter(pre, low, c):
    return ' ' * pre + (c.lower() if low else c)


def r_opt(n, b):
    return r_num(n) if n is not None else ' ' * b + ';'


def render(tokens):
    out = []
    for t in tokens:
        k = t[0]
        if k == 'semi':
            out.append(' ' * t[1] + ';')
        elif k in ('B', 'N'):
            out.append(r_letter(t[1], t[2], k))
        elif k == 'mv':
            out.append(r_letter(t[1], t[2], t[3]) + (r_num(t[4]) if t[4] is not None else ''))
        elif k == 'M':
            out.append(r_letter(t[1], t[2], 'M') + r_num(t[4]) + ' ' * t[5] + ',' + r_num(t[6]))
        elif k == 'S':
            out.append(r_letter(t[1], t[2], 'S') + r_num(t[3]))
        elif k in ('C', 'A'):
            out.append(r_letter(t[1], t[2], k) + r_opt(t[3], t[4]))
        elif k == 'TA':
            out.append(r_letter(t[1], t[2], 'T') + ('a' if t[3] else 'A') + r_opt(t[4], t[5]))
        elif k == 'X':
            out.append(r_letter(t[1], t[2], 'X') + ' ' * t[3] + t[4] + ' ' * t[5] + ';')
        else:
            raise ValueError('bad token %r' % (t,))
    return ''.join(out)


def text_of(src):
    """A DRAW string source is {'c': tokens} or {'raw': text}."""
    return render(src['c']) if 'c' in src else src['raw']


# ---------------------------------------------------------------------------------------------------
# reference interpreter of the tokens (oracle side; independent of the Coq model and of the text)

def var_key(name):
    return name.upper()


def var_table(case):
    """name (upper case, as written incl. sigil) -> ('n', int) | ('s', src); unsuffixed = single."""
    tab = {}
    for name, kind, val in case['vars']:
        key = var_key(name)
        ent = ('s', val) if kind == '$' else ('n', int(val))
        tab[key] = ent
        if key.endswith('!'):
            tab[key[:-1]] = ent
        elif key[-1] not in '#!%$':
            tab[key + '!'] = ent
    return tab


def trunc4(a):
    """a*1/4 truncated toward zero, integers only."""
    q = abs(a) // 4
    return q if a >= 0 else -q


class Ref(object):
    def __init__(self, tab, pen, scale, angle, attr, nattr):
        self.tab = tab
        self.nattr = nattr
        self.pen = tuple(pen)
        self.scale, self.angle, self.attr = scale, angle, attr
        self.segs = []

    def num(self, n):
        if n[0] == 'lit':
            v = int(''.join(str(d) for d, _ in n[3]))
            return -v if n[2] == '-' else v
        ent = self.tab.get(var_key(n[4]))
        if ent is None:
            ent = ('s', {'c': []}) if n[4].endswith('$') else ('n', 0)
        if ent[0] != 'n':
            raise RefError(13)
        return -ent[1] if n[2] == '-' else ent[1]

    @staticmethod
    def check(lo, hi, v):
        if not lo <= v <= hi:
            raise RefError(5)

    def move(self, absolute, vx, vy, plot, back):
        x0, y0 = self.pen
        if absolute:
            x1, y1 = vx, vy
        else:
            dx, dy = trunc4(self.scale * vx), trunc4(self.scale * vy)
            if self.angle == 180:
                dx, dy = -dx, -dy
            elif self.angle not in (0, 360):
                raise RefUnknown()
            x1, y1 = x0 + dx, y0 + dy
        if plot:
            self.segs.append((x0, y0, x1, y1, self.attr))
        if not back:
            self.pen = (x1, y1)

    def run(self, tokens, depth=0):
        if depth > DEPTH:
            raise RefUnknown()
        plot, back = True, False
        for t in tokens:
            k = t[0]
            if k == 'semi':
                pass
            elif k == 'B':
                plot = False
            elif k == 'N':
                back = True
            elif k == 'mv':
                n = 1 if t[4] is None else self.num(t[4])
                self.check(-99999, 99999, n)
                ux, uy = UNIT[t[3]]
                self.move(False, n * ux, n * uy, plot, back)
                plot, back = True, False
            elif k == 'M':
                x = self.num(t[4])
                self.check(-9999, 9999, x)
                y = self.num(t[6])
                self.check(-9999, 9999, y)
                self.move(not t[3], x, y, plot, back)
                plot, back = True, False
            elif k == 'S':
                n = self.num(t[3])
                self.check(1, 255, n)
                self.scale = n
            elif k == 'C':
                n = 0 if t[3] is None else self.num(t[3])
                self.check(-99999, 99999, n)
                # brought into the attribute range of the mode, like every other graphics statement
                self.attr = 0 if n < 0 else (self.nattr - 1 if n >= self.nattr else n)
            elif k == 'A':
                n = 0 if t[3] is None else self.num(t[3])
                self.check(0, 3, n)
                self.angle = 90 * n
            elif k == 'TA':
                n = 0 if t[4] is None else self.num(t[4])
                self.check(-360, 360, n)
                self.angle = n
            elif k == 'X':
                ent = self.tab.get(var_key(t[4]))
                if ent is None:
                    ent = ('s', {'c': []}) if t[4].endswith('$') else ('n', 0)
                if ent[0] != 's':
                    raise RefError(13)
                if 'c' not in ent[1]:
                    raise RefUnknown()
                self.run(ent[1]['c'], depth + 1)


# ---------------------------------------------------------------------------------------------------
# Coq literals

def zbytes(s):
    """A byte string as a Coq term (a string literal when it is plain printable ASCII)."""
    if all(32 <= ord(ch) < 127 and ch != '"' for ch in s):
        return '(bs "%s"%%string)' % s
    return core.zl([ord(ch) for ch in s])


def coq_pt(p):
    return '(%s, %s)' % (zint(p[0]), zint(p[1]))


def zint(v):
    return '(%d)' % v if v < 0 else '%d' % v


def coq_gstate(g):
    cur = 'None' if g['cur'] is None else '(Some %s)' % coq_pt(g['cur'])
    return '(mkG %s %s %s %s %s %s %s %s)' % (cur, coq_pt(g['last']), 'true' if g['window'] else 'false',
                                             zint(g['scale']), zint(g['angle']), zint(g['attr']),
                                             'true' if g['text'] else 'false', zint(g['nattr']))


def f32(v):
    return struct.unpack('<f', struct.pack('<f', float(v)))[0]


class C33(core.Check):
    ID = 'C33'
    GEN = ['gen_draw']
    PROPS = 'props/C33.v'
    MODEL_IMPORTS = ['gen.Gen_draw', 'model.Draw', 'model.DrawStr']
    QUICK_CASES = 500
    THOROUGH_CASES = 5000
    TRUSTED = ['hand model model/Draw.v of Graphics.draw_/_draw/_draw_step and of the MLParser/CodeStream reader '
               '(its direction table, scale*d quot 4 step, rotation tests, range limits, error numbers and '
               'character classes are regenerated by gen_draw on every run), tied by correspondence on real '
               'Sessions; translator idiom int(math.trunc(E / 4.)) -> Z.quot E 4 (exact for |E| < 2^53, proved '
               'for the admitted ranges); "same line as LINE": DRAW and LINE call the same Graphics._draw_line '
               '(a segment of the model is the argument tuple of that call), checked on pixels by the oracle',
               'POINT(0)/POINT(1) wrap the pen coordinate in a Single: compared exactly for |v| <= 2^24']
    PARTIAL = ('angles 90/270 and TA other than 0/180/360 (floating point; excluded by the property), P (paint), '
               'VARPTR$ references and array elements as GML variables are outside the model')
    RULE = ('structured DRAW strings (moves with/without counts, S, C, B/N, absolute/relative M, A/TA 0/180/360, '
            'X substrings up to depth 3, =var; references, blanks, lower case, signs, leading zeros, spaced '
            'digits, omitted counts, range errors) and a malformed stream (character-level mutations), in '
            'SCREEN 0/1/2/7/8/9 with PSET/LINE/WINDOW/VIEW pre-statements; several DRAW statements per case; '
            'non-trivial = at least one move executed without error; distinct by hash of (case, output)')
    histogram = None

    # ---------------------------------------------------------------------------------------------
    # cases

    def corpus(self):
        L = lambda v, pre=0: ['lit', pre, '-' if v < 0 else '', [[int(ch), 0] for ch in str(abs(v))]]
        mv = lambda d, v=None, low=False: ['mv', 0, low, d, None if v is None else L(v)]
        raw = lambda *ss: {'mode': 1, 'vars': [['A%', '%', 7], ['B', '!', 4], ['C$', '$', {'raw': 'U1'}]],
                           'groups': [{'pre': [], 'draws': [{'raw': s} for s in ss]}]}
        return [
            raw('U5'), raw('U- 5'), raw('U 1 0 '), raw('S255 R99999 R99999 R99999'),
            raw('R=A%; D=B; XC$;'), raw('R=Z'), raw('R=C$;'), raw('XA%;'), raw('X'), raw('U='), raw('U=;'),
            raw('U100000'), raw('S0'), raw('S256'), raw('M+10000,0'), raw('M 5 , 6'), raw('M5,-6'),
            raw('BNM-5,6'), raw('C;'), raw('C'), raw('C1'), raw('R=b ;'), raw('R= b;'), raw('R=b'), raw('R=1;'),
            raw('U+=A%;'), raw('U-=A%;'), raw('U=-A%;'), raw('M10000,=C$;'), raw('XC$'), raw('XA%'),
            raw('TA180 U5 R3', 'U2', 'TA360 D1', 'A2 L4 A;'), raw('T A0'), raw('ta;u'), raw('BXC$;U5'),
            raw('NU5 D2', 'S8 E3', 'F'), raw('M+1,'), raw('M1'), raw('M,1'), raw(''), raw(';;; ;'),
            raw('C3 S4 BM10,10 R5 D5 L5 U5'), raw('Q'), raw('U5 ?'),
            # D33a: colours outside the attributes of the mode (were: ValueError / invalid pixel value)
            raw('C256 U5'), raw('C-1 U5'), raw('C4 U5'), raw('C99999 R3', 'D2'), raw('C=A%; F3'),
            {'mode': 0, 'vars': [], 'groups': [{'pre': [], 'draws': [{'raw': 'U5'}]}]},
            {'mode': 9, 'vars': [], 'groups': [{'pre': ['WINDOW (0,0)-(100,100)'], 'draws': [{'raw': 'U5 R7'}]},
                                               {'pre': ['PSET (3,3)'], 'draws': [{'raw': 'D2'}, {'raw': 'NR4'}]}]},
            {'mode': 7, 'vars': [], 'groups': [{'pre': ['VIEW (10,10)-(100,100)'], 'draws': [{'raw': 'BM0,0 F20'}]}]},
            {'mode': 1, 'vars': [['S$', '$', {'c': [mv('U', 3), ['B', 0, False]]}]],
             'groups': [{'pre': [], 'draws': [{'c': [['N', 0, False], ['X', 0, False, 0, 'S$', 0], mv('R', 4)]}]}]},
            {'mode': 2, 'vars': [], 'groups': [{'pre': [], 'draws': [{'c': [mv('E'), mv('F', 0), mv('G', -3), mv('H', 99999)]}]}]},
        ]

    # number layouts
    def g_lit(self, v, force_sign=False, no_sign=False):
        rng = self.rng
        sg = '-' if v < 0 else ('+' if (force_sign or (not no_sign and rng.random() < 0.12)) else '')
        digits = [int(ch) for ch in str(abs(v))]
        if rng.random() < 0.1:
            digits = [0] * rng.randrange(1, 3) + digits
        gaps = rng.random() < 0.08
        ds = [[d, rng.randrange(0, 3) if gaps else 0] for d in digits]
        return ['lit', self.g_blank(), sg, ds]

    def g_blank(self):
        r = self.rng.random()
        return 0 if r < 0.75 else 1 if r < 0.93 else 2

    def g_low(self):
        return self.rng.random() < 0.2

    def g_num(self, v, nums, force_sign=False, no_sign=False):
        """Write v: sometimes through a numeric variable that holds v or -v.
        force_sign: a sign must be written (x of a relative M); no_sign: none may be (x of an absolute M)."""
        rng = self.rng
        same = [n for n, val in nums if val == v]
        neg = [n for n, val in nums if val == -v and v != 0]

        def var(sg, name):
            return ['var', self.g_blank(), sg, self.g_blank(), self.g_case(name), self.g_blank()]
        if rng.random() < 0.4:
            if same and (not neg or no_sign or rng.random() < 0.7):
                return var('+' if force_sign else ('' if no_sign else rng.choice(['', '', '+'])), rng.choice(same))
            if neg and not no_sign:
                return var('-', rng.choice(neg))
        if no_sign and v < 0:
            # an absolute M with negative x can only be written through a variable
            return var('', rng.choice(same)) if same else None
        return self.g_lit(v, force_sign, no_sign)

    def g_case(self, name):
        return name.lower() if self.rng.random() < 0.25 else name

    COUNT_POOL = [0, 1, 1, 2, 3, 4, 5, 7, 10, 12, 20, 33, 50, 64, 100, 160, 319, 640, 1000, 32767, 32768, 99999,
                  -1, -2, -5, -10, -50, -99999]
    SCALE_POOL = [1, 2, 3, 4, 4, 5, 6, 7, 8, 9, 12, 16, 25, 100, 127, 128, 254, 255]
    COORD_POOL = [0, 1, 2, 5, 10, 50, 100, 159, 160, 199, 200, 319, 320, 349, 350, 639, 640, 1000, 9999,
                  -1, -2, -10, -100, -9999]

    def g_tokens(self, nums, strs, mode, n, allow_err, hist):
        """n concrete tokens; nums = [(name, value)], strs = names of string variables usable by X."""
        rng = self.rng
        nattr = MODES[mode][2] or 16
        toks = []
        for _ in range(n):
            r = rng.random()
            pre, low = self.g_blank(), self.g_low()
            err = allow_err and rng.random() < 0.02
            if r < 0.05:
                toks.append(['semi', pre]); hist['semi'] += 1
            elif r < 0.13:
                toks.append(['B', pre, low]); hist['B'] += 1
            elif r < 0.2:
                toks.append(['N', pre, low]); hist['N'] += 1
            elif r < 0.58:
                d = rng.choice('UDLREFGH')
                if err:
                    v = rng.choice([100000, -100000, 123456, 1000000])
                elif nums and rng.random() < 0.2:
                    v = rng.choice(nums)[1]
                    if abs(v) > 99999:
                        v = 3
                elif rng.random() < 0.6:
                    v = rng.randrange(0, 40)
                else:
                    v = rng.choice(self.COUNT_POOL)
                if v == 1 and rng.random() < 0.6:
                    toks.append(['mv', pre, low, d, None])
                else:
                    toks.append(['mv', pre, low, d, self.g_num(v, nums)])
                hist['move'] += 1
            elif r < 0.72:
                rel = rng.random() < 0.55
                pick = lambda: rng.choice(self.COORD_POOL) if rng.random() < 0.5 else rng.randrange(-40, 360)
                x, y = pick(), pick()
                if err:
                    if rng.random() < 0.5:
                        x = rng.choice([10000, -10000, 99999])
                    else:
                        y = rng.choice([10000, -10000, 99999])
                nx = self.g_num(x, nums, force_sign=True) if rel else self.g_num(x, nums, no_sign=True)
                if nx is None:
                    x = -x
                    nx = self.g_num(x, nums, no_sign=True)
                toks.append(['M', pre, low, rel, nx, self.g_blank(), self.g_num(y, nums)])
                hist['Mrel' if rel else 'Mabs'] += 1
            elif r < 0.8:
                v = rng.choice([0, 256, 1000, -1]) if err else \
                    (rng.choice(self.SCALE_POOL) if rng.random() < 0.7 else rng.randrange(1, 256))
                toks.append(['S', pre, low, self.g_num(v, nums)]); hist['S'] += 1
            elif r < 0.88:
                if err:
                    v = rng.choice([100000, -100000])
                elif rng.random() < 0.7:
                    v = rng.randrange(0, nattr)
                else:
                    # outside the attributes of the mode: clamped (D33a)
                    v = rng.choice([nattr, nattr + 1, 4, 16, 17, 255, 256, 257, 1000, 32767, 32768, 99999,
                                    -1, -2, -255, -256, -99999, rng.randrange(-300, 300)])
                if v == 0 and rng.random() < 0.5:
                    toks.append(['C', pre, low, None, self.g_blank()])
                else:
                    toks.append(['C', pre, low, self.g_num(v, nums), 0])
                hist['C'] += 1
            elif r < 0.92:
                if rng.random() < 0.5:
                    v = rng.choice([4, -1, 7]) if err else rng.choice([0, 0, 2])
                    tok = ['A', pre, low, None if (v == 0 and rng.random() < 0.4) else self.g_num(v, nums), self.g_blank()]
                else:
                    v = rng.choice([361, -361, 1000]) if err else rng.choice([0, 0, 180, 360])
                    tok = ['TA', pre, low, self.g_low(), None if (v == 0 and rng.random() < 0.4) else self.g_num(v, nums),
                           self.g_blank()]
                toks.append(tok); hist['angle'] += 1
            elif strs:
                toks.append(['X', pre, low, self.g_blank(), self.g_case(rng.choice(strs)), self.g_blank()])
                hist['X'] += 1
            else:
                toks.append(['mv', pre, low, rng.choice('UDLREFGH'), None]); hist['move'] += 1
        return toks

    RAW_ALPHABET = 'UDLRMBNSCXEFGHudlrmbnsx;;=+-,, 0123456789%$!.AT?'

    def g_mutate(self, text):
        rng = self.rng
        s = list(text)
        for _ in range(rng.randrange(1, 4)):
            r = rng.random()
            pos = rng.randrange(0, len(s) + 1)
            if r < 0.4 and s:
                del s[min(pos, len(s) - 1)]
            elif r < 0.8:
                s.insert(pos, rng.choice(self.RAW_ALPHABET))
            elif s:
                s[min(pos, len(s) - 1)] = rng.choice(self.RAW_ALPHABET)
        return ''.join(s)

    def g_pre(self, mode):
        rng = self.rng
        w, h, _ = MODES[mode]
        r = rng.random()
        px = lambda: rng.randrange(0, w)
        py = lambda: rng.randrange(0, h)
        if r < 0.55:
            return []
        if r < 0.7:
            return ['PSET (%d,%d)' % (px(), py())]
        if r < 0.78:
            return ['LINE (%d,%d)-(%d,%d),%d' % (px(), py(), px(), py(), rng.randrange(0, 4))]
        if r < 0.86:
            x0, y0 = rng.randrange(0, w // 2), rng.randrange(0, h // 2)
            return ['VIEW%s (%d,%d)-(%d,%d)' % (rng.choice(['', ' SCREEN']), x0, y0,
                                              rng.randrange(x0 + 1, w), rng.randrange(y0 + 1, h))]
        if r < 0.95:
            return ['WINDOW%s (%d,%d)-(%d,%d)' % (rng.choice(['', ' SCREEN']), rng.randrange(-50, 50),
                                                rng.randrange(-50, 50), rng.randrange(60, 500), rng.randrange(60, 500))]
        return ['WINDOW (0,0)-(100,100)', 'PSET (50,50)', 'WINDOW']

    def gen_cases(self, n):
        rng = self.rng
        hist = dict.fromkeys(['semi', 'B', 'N', 'move', 'Mrel', 'Mabs', 'S', 'C', 'angle', 'X', 'raw_strings',
                              'structured_strings', 'text_mode', 'with_error_token', 'long'], 0)
        out = []
        for i in range(n):
            mode = rng.choice([1, 1, 2, 7, 7, 8, 9, 9]) if rng.random() < 0.98 else 0
            if mode == 0:
                hist['text_mode'] += 1
            # numeric variables
            nums = []
            for name in rng.sample(['A%', 'B%', 'N%', 'K!', 'Q', 'V#', 'X1', 'LEN.G%'], rng.randrange(0, 5)):
                if name.endswith('%'):
                    v = rng.choice([0, 1, 2, 5, 10, 100, 255, 256, 32767, -1, -7, -32768, rng.randrange(-300, 300)])
                else:
                    v = rng.choice([0, 1, 3, 4, 8, 180, 360, 9999, 10000, 40000, 99999, 100000, -2, -99999,
                                    rng.randrange(-300, 300)])
                nums.append((name, v))
            allow_err = rng.random() < 0.3
            if allow_err:
                hist['with_error_token'] += 1
            # string variables: W$ (no X), T$ (may use W$), S$ (may use T$, W$)
            vars_ = [[nm, nm[-1] if nm[-1] in '%!#' else '!', v] for nm, v in nums]
            strs = []
            for name in ['W$', 'T$', 'S$']:
                if rng.random() < 0.45:
                    toks = self.g_tokens(nums, list(strs), mode, rng.randrange(0, 6), allow_err, hist)
                    src = {'c': toks}
                    if rng.random() < 0.1:
                        src = {'raw': self.g_mutate(render(toks))}
                    vars_.append([name, '$', src])
                    strs.append(name)
            groups = []
            for _g in range(rng.choice([1, 1, 1, 2, 3])):
                draws = []
                for _d in range(rng.choice([1, 1, 2, 3])):
                    r = rng.random()
                    if r < 0.04:
                        k = rng.randrange(30, 70); hist['long'] += 1
                    elif r < 0.1:
                        k = 0
                    else:
                        k = rng.randrange(1, 13)
                    toks = self.g_tokens(nums, strs, mode, k, allow_err, hist)
                    while len(render(toks)) > 250:      # a BASIC string holds at most 255 bytes
                        toks.pop()
                    if rng.random() < 0.22:
                        draws.append({'raw': self.g_mutate(render(toks))}); hist['raw_strings'] += 1
                    else:
                        draws.append({'c': toks}); hist['structured_strings'] += 1
                groups.append({'pre': self.g_pre(mode) if mode else [], 'draws': draws})
            out.append({'mode': mode, 'vars': vars_, 'groups': groups})
        self.histogram = hist
        return out

    def describe(self, case):
        d = dict(case)
        try:
            d['text'] = [[text_of(s) for s in g['draws']] for g in case['groups']]
            d['var_text'] = dict((v[0], text_of(v[2])) for v in case['vars'] if v[1] == '$')
        except Exception:
            pass
        return d

    def undescribe(self, case):
        d = dict(case)
        d.pop('text', None)
        d.pop('var_text', None)
        return d

    # ---------------------------------------------------------------------------------------------
    # implementation

    def _session(self, mode):
        """A Session in the given mode with all graphics and variable state reset."""
        logging.disable(logging.CRITICAL)
        pool = self.__dict__.setdefault('_sessions', {})
        s = pool.get('s')
        if s is None:
            s = common.new_session(video='vga')
            pool['s'] = s
        s.execute('CLEAR')
        s.execute('SCREEN 0')
        if mode:
            s.execute('SCREEN %d' % mode)
        s._impl.interpreter.error_num = 0
        return s

    def _drop_session(self):
        pool = self.__dict__.setdefault('_sessions', {})
        s = pool.pop('s', None)
        if s is not None:
            try:
                s.close()
            except Exception:
                pass

    @staticmethod
    def _gstate(g):
        lp = g._last_point if g._last_point is not None else (0, 0)
        return {'cur': None if g._draw_current is None else [int(g._draw_current[0]), int(g._draw_current[1])],
                'last': [int(lp[0]), int(lp[1])], 'window': g._window_bounds is not None,
                'scale': g._draw_scale if g._draw_scale is not None else 4,
                'angle': g._draw_angle if g._draw_angle is not None else 0,
                'attr': g._last_attr if g._last_attr is not None else 0,
                'text': bool(g._mode.is_text_mode), 'nattr': int(g._num_attr)}

    def _set_vars(self, s, case):
        for name, kind, val in case['vars']:
            if kind == '$':
                s.set_variable(name, text_of(val).encode('latin-1'))
            elif kind == '%':
                s.set_variable(name, int(val))
            else:
                s.set_variable(name if name[-1] in '!#' else name + '!', float(val))

    def _run(self, case):
        """Run the case on the implementation. Returns dict(out, starts, pixels, stmts)."""
        with core.time_limit(60):
            s = self._session(case['mode'])
            g = s._impl.display.graphics
            calls = []
            orig_line, orig_step = g._draw_line, g._draw_step

            def rec_line(x0, y0, x1, y1, attr, pattern=0xffff):
                calls.append((x0, y0, x1, y1, attr))
                return orig_line(x0, y0, x1, y1, attr, pattern)

            def rec_step(x0, y0, sx, sy, plot, goback):
                if g._draw_angle not in (0, 180, 360):
                    raise ExcludedByModel()
                return orig_step(x0, y0, sx, sy, plot, goback)
            out, starts, stmts = [], [], []
            stop = False
            try:
                g._draw_line, g._draw_step = rec_line, rec_step
                self._set_vars(s, case)
                for grp in case['groups']:
                    if stop:
                        break
                    for st in grp['pre']:
                        s.execute(st)
                    starts.append(self._gstate(g))
                    for src in grp['draws']:
                        del calls[:]
                        s._impl.interpreter.error_num = 0
                        s.set_variable(RESERVED, text_of(src).encode('latin-1'))
                        try:
                            s.execute('DRAW ' + RESERVED)
                            err = s._impl.interpreter.error_num
                            status = [1, err] if err else [0, 0]
                        except ExcludedByModel:
                            status = [9, 9]
                            stop = True
                        except Exception as e:
                            status = common.canon_exc(e)
                            stop = True
                        gs = self._gstate(g)
                        pen = gs['cur'] if gs['cur'] is not None else gs['last']
                        pts = []
                        if stop:
                            pts = pen
                        else:
                            for fn, v in ((0, pen[0]), (1, pen[1])):
                                pv = s.evaluate('POINT(%d)' % fn)
                                if gs['text']:
                                    pts.append(pen[fn] if pv == 0 else -777777)
                                elif abs(v) <= 2 ** 24:
                                    pts.append(int(pv) if float(pv) == int(pv) else -777777)
                                else:
                                    # beyond 24 bits the Single cannot hold the coordinate (conversion: C04/C06)
                                    pts.append(v if abs(pv - v) <= abs(v) / 2.0 ** 22 else -777777)
                        rec = status + pen + gs['last'] + [gs['scale'], gs['angle'], gs['attr']] + list(pts) + [len(calls)]
                        for c in calls:
                            rec += [int(x) for x in c]
                        out += rec
                        stmts.append({'status': status, 'pen': pen, 'gs': gs, 'segs': [tuple(int(x) for x in c) for c in calls]})
                        if stop:
                            break
                pixels = None
                if case['mode'] and not stop:
                    pixels = self._pixels(s)
            finally:
                g._draw_line, g._draw_step = orig_line, orig_step
            if stop:
                self._drop_session()
        return {'out': out, 'starts': starts, 'pixels': pixels, 'stmts': stmts, 'stopped': stop}

    @staticmethod
    def _pixels(s):
        pix = s._impl.display.pages[s._impl.display.apagenum].pixels
        return pix[0:pix.height, 0:pix.width].to_bytes()

    def _cached(self, case):
        cache = self.__dict__.setdefault('_runs', {})
        key = core.sha(case)
        if key not in cache:
            if len(cache) > 20000:
                cache.clear()
            cache[key] = self._run(case)
        return cache[key]

    def impl(self, case):
        case = self.undescribe(case)
        self.__dict__.setdefault('_runs', {}).pop(core.sha(case), None)
        return self._cached(case)['out']

    # ---------------------------------------------------------------------------------------------
    # model

    def model_term(self, case):
        case = self.undescribe(case)
        run = self._cached(case)
        env = []
        tab = {}
        for name, kind, val in case['vars']:
            key = var_key(name)
            term = '(VStr %s)' % zbytes(text_of(val)) if kind == '$' else '(VNum %s)' % zint(int(val))
            keys = [key]
            if key.endswith('!'):
                keys.append(key[:-1])
            elif key[-1] not in '#!%$':
                keys.append(key + '!')
            for k in keys:
                tab[k] = term
        for k in sorted(tab):
            env.append('(%s, %s)' % (zbytes(k), tab[k]))
        parts = []
        for grp, g0 in zip(case['groups'], run['starts']):
            strs = '[' + '; '.join(zbytes(text_of(src)) for src in grp['draws']) + ']'
            parts.append('(%s, %s)' % (coq_gstate(g0), strs))
        if not parts:
            return '(@nil Z)'
        # a statement that ends Excluded stops the whole case (the adapter stops there too)
        return '(draw_groups %d [%s] [%s])' % (DEPTH, '; '.join(env), '; '.join(parts))

    # ---------------------------------------------------------------------------------------------
    # oracle

    def nontrivial(self, case, out):
        run = self._cached(self.undescribe(case))
        return any(st['status'] == [0, 0] and (st['segs'] or st['pen'] != [0, 0]) for st in run['stmts'])

    def oracle(self, case, out):
        case = self.undescribe(case)
        run = self._cached(case)
        if run['out'] != out:
            run = self._run(case)
        tab = var_table(case)
        expected_lines = []       # LINE statements of the reference, per group
        comparable = bool(case['mode'])
        k = 0
        for gi, grp in enumerate(case['groups']):
            if gi >= len(run['starts']):
                break
            g0 = run['starts'][gi]
            pen0 = g0['cur'] if g0['cur'] is not None else g0['last']
            ref = Ref(tab, pen0, g0['scale'], g0['angle'], g0['attr'], g0['nattr'])
            known = True
            lines = []
            for src in grp['draws']:
                if k >= len(run['stmts']):
                    break
                st = run['stmts'][k]
                k += 1
                if st['status'][0] == 2:
                    return 'host exception class %d escaped from DRAW %r' % (st['status'][1], text_of(src))
                if st['status'] == [9, 9]:
                    return None
                # POINT(0) / POINT(1) report the pen (checked inside the adapter: -777777 marks a deviation)
                n = len(st['segs'])
                if g0['text']:
                    if st['status'] != [1, 5]:
                        return 'DRAW in text mode did not raise Illegal function call'
                    continue
                if 'c' not in src:
                    known = False
                if not known:
                    comparable = False
                    continue
                ref.segs = []
                try:
                    ref.run(src['c'])
                    exp_status = [0, 0]
                except RefError as e:
                    exp_status = [1, e.err]
                except RefUnknown:
                    known = False
                    comparable = False
                    continue
                what = 'DRAW %r (group %d)' % (text_of(src), gi)
                if st['status'] != exp_status:
                    return '%s: status %r, reference %r' % (what, st['status'], exp_status)
                if tuple(st['pen']) != tuple(ref.pen):
                    return '%s: pen ends at %r, reference %r' % (what, st['pen'], list(ref.pen))
                if st['segs'] != ref.segs:
                    return '%s: segments drawn %r, reference %r' % (what, st['segs'][:6], ref.segs[:6])
                if (st['gs']['scale'], st['gs']['attr'], st['gs']['angle']) != (ref.scale, ref.attr, ref.angle):
                    return '%s: scale/colour/angle %r, reference %r' % (
                        what, (st['gs']['scale'], st['gs']['attr'], st['gs']['angle']), (ref.scale, ref.attr, ref.angle))
                if exp_status == [0, 0] and not g0['window'] and tuple(st['gs']['last']) != tuple(ref.pen):
                    return '%s: last point %r is not the pen %r' % (what, st['gs']['last'], list(ref.pen))
                if g0['window'] and st['gs']['last'] != g0['last']:
                    return '%s: last point moved although WINDOW is active' % what
                lines += ref.segs
                if self.histogram is not None:
                    self.histogram['oracle_statements_checked_against_reference'] = \
                        self.histogram.get('oracle_statements_checked_against_reference', 0) + 1
            expected_lines.append(lines)
        # POINT deviation markers
        pos = 0
        for st in run['stmts']:
            nseg = len(st['segs'])
            rec = out[pos:pos + 14 + 5 * nseg]
            pos += 14 + 5 * nseg
            if len(rec) >= 13 and (rec[11] == -777777 or rec[12] == -777777):
                return 'POINT(0)/POINT(1) do not report the pen position %r' % (st['pen'],)
        # pixels: the same picture as LINE statements between the reference endpoints
        if comparable and run['pixels'] is not None and not run['stopped'] and \
                all(st['status'] == [0, 0] for st in run['stmts']):     # (an error message is pixels too)
            nattr = MODES[case['mode']][2]
            ok = all(-32768 <= v <= 32767 for ls in expected_lines for l in ls for v in l[:4]) and \
                all(0 <= l[4] < nattr for ls in expected_lines for l in ls)
            if ok and not any(g['window'] for g in run['starts']) and \
                    not any(p.startswith('WINDOW') for g in case['groups'] for p in g['pre']):
                ref_pixels = self._line_pixels(case, expected_lines)
                if ref_pixels is not None and self.histogram is not None:
                    self.histogram['oracle_pixel_buffers_compared_with_LINE'] = \
                        self.histogram.get('oracle_pixel_buffers_compared_with_LINE', 0) + 1
                if ref_pixels is not None and ref_pixels != run['pixels']:
                    diff = sum(1 for a, b in zip(ref_pixels, run['pixels']) if a != b)
                    return 'pixels differ from the LINE statements between the same endpoints (%d pixels)' % diff
        return None

    def _line_pixels(self, case, expected_lines):
        with core.time_limit(60):
            s = self._session(case['mode'])
            try:
                for grp, lines in zip(case['groups'], expected_lines):
                    for st in grp['pre']:
                        s.execute(st)
                    for (x0, y0, x1, y1, attr) in lines:
                        s._impl.interpreter.error_num = 0
                        s.execute('LINE (%d,%d)-(%d,%d),%d' % (x0, y0, x1, y1, attr))
                        if s._impl.interpreter.error_num:
                            return None
                return self._pixels(s)
            except Exception:
                self._drop_session()
                return None

    def shrink_candidates(self, case):
        case = self.undescribe(case)
        # drop groups, draws, tokens, variables
        gs = case['groups']
        for i in range(len(gs)):
            if len(gs) > 1:
                yield dict(case, groups=gs[:i] + gs[i + 1:])
        for i, g in enumerate(gs):
            for j in range(len(g['draws'])):
                if len(g['draws']) > 1:
                    g2 = dict(g, draws=g['draws'][:j] + g['draws'][j + 1:])
                    yield dict(case, groups=gs[:i] + [g2] + gs[i + 1:])
            if g['pre']:
                yield dict(case, groups=gs[:i] + [dict(g, pre=[])] + gs[i + 1:])
            for j, src in enumerate(g['draws']):
                if 'c' in src:
                    toks = src['c']
                    cuts = [toks[:len(toks) // 2], toks[len(toks) // 2:]] if len(toks) > 1 else []
                    cuts += [toks[:m] + toks[m + 1:] for m in range(len(toks))] if len(toks) <= 30 else []
                    for c in cuts:
                        g2 = dict(g, draws=g['draws'][:j] + [{'c': c}] + g['draws'][j + 1:])
                        yield dict(case, groups=gs[:i] + [g2] + gs[i + 1:])
                else:
                    t = src['raw']
                    for m in range(len(t)):
                        g2 = dict(g, draws=g['draws'][:j] + [{'raw': t[:m] + t[m + 1:]}] + g['draws'][j + 1:])
                        yield dict(case, groups=gs[:i] + [g2] + gs[i + 1:])
        for i in range(len(case['vars'])):
            yield dict(case, vars=case['vars'][:i] + case['vars'][i + 1:])


CHECK = C33
